"""Case generators (one PRNG state each): expressions (structured, near-miss, token soup, char soup),
documents in the typed value encoding, and helpers.  The generator does not need to know what an
expression means or whether it is valid: the Lean model is the oracle for that."""
import json
import glob
import os

KEYS = ["a", "b", "c", "foo", "bar", "baz", "id", "name", "x", "y", "k1", "é", "with space", "a.b", "0", "", "null", "true", "length", "\r\n", "a\"b"]
IDENTS = ["a", "b", "c", "foo", "bar", "baz", "id", "name", "x", "y", "k1", "_u", "A1", "null", "true", "length", "not"]
BUILTINS = ["abs", "avg", "ceil", "contains", "ends_with", "floor", "join", "keys", "length", "map", "min", "max",
            "max_by", "min_by", "merge", "not_null", "reverse", "sort", "sort_by", "starts_with", "sum", "to_array",
            "to_number", "to_string", "type", "values"]
I32MAX = 2147483647


def hexs(s):
    return s.encode("utf-8").hex()


# ------------------------------------------------------------------------------------ documents

def enc_str(s):
    return "s" + hexs(s)


def f64_bits(x):
    import struct
    return "d%016x" % struct.unpack("<Q", struct.pack("<d", x))[0]


NUM_POOL = ["u0", "u1", "u2", "u3", "u10", "i-1", "i-2", "u42", "u9007199254740993", "u18446744073709551615", "u9223372036854775808", "u9223372036854775809", "u18446744073709551614", "u9223372036854775807",
            "i-9223372036854775808", f64_bits(1.5), f64_bits(-0.5), f64_bits(1.0), f64_bits(2.0), f64_bits(0.1),
            f64_bits(1e308), f64_bits(1.7e308), f64_bits(5e-324), f64_bits(-0.0), f64_bits(0.7100000000000002), f64_bits(0.71)]
STR_POOL = ["", "a", "b", "foo", "bar", "é", "😀x", "a b", "10", "1.5", "true", "[1]", "abc", "ab", "zzz", "A", " ", "\t\n", "\u00a0", "a\"b\\c", "{}", "null", "0", "false"]


# numbers in narrow bands around powers of two / round decimal values, long and normalisation-sensitive strings: content a fast path,
# a size threshold or a narrowing conversion could be keyed on
BAND_NUMS = [2 ** 31 - 1, 2 ** 31, 2 ** 31 + 1, 2 ** 32 - 1, 2 ** 32, 2 ** 32 + 5, 3000000000, 1000, 10000, 1000000, 255, 256, 257, 65535, 65536, 127, 128,
             2 ** 53 - 1, 2 ** 53, 2 ** 63 - 1, 2 ** 63, 2 ** 64 - 1, 16777216, 16777217, 99, 100, 101, -128, -129, -32768, -32769, -2 ** 31, -2 ** 31 - 1,
             -2 ** 53, -2 ** 63, -1000, -255, -256, 12, 20, 21, 32, 33, 64, 65]
LONG_STRS = ["x" * 64, "x" * 65, "ab" * 64, "é" * 40, "😀" * 20, "a" * 255, "a" * 256, "b" * 300, "http://example.com/a/b?c=d&e=f#" + "z" * 40,
             "e\u0301", "\u00e9", "\u212b", "\u00c5", "ﬁ", "ǆ", "ß", "İ", "\u1e9e", "A" * 33, " " * 70, "0" * 40, "9" * 20, "-" + "1" * 19,
             "line1\nline2\n" * 8, "\ud7ff\ue000", "\U00010000\U0001f600\U0010ffff", "a\u0300\u0301\u0302", "\ufeffbom", "tab\there"]


def rand_scalar(rng):
    r = rng.random()
    if r < 0.04:
        v = rng.choice(BAND_NUMS) + rng.choice([0, 0, 0, 1, -1])
        if -2 ** 63 <= v < 0:
            return "i%d" % v
        if 0 <= v < 2 ** 64:
            return "u%d" % v
        return f64_bits(float(v))
    if r < 0.06:
        return enc_str(rng.choice(LONG_STRS))
    if r < 0.065:
        return f64_bits(float(rng.choice(BAND_NUMS)) + rng.choice([0.0, 0.5, -0.5]))
    if r < 0.12:
        return "n"
    if r < 0.22:
        return rng.choice(["t", "f"])
    if r < 0.6:
        return rng.choice(NUM_POOL) if rng.random() < 0.5 else "u%d" % rng.randrange(0, 6)
    return enc_str(rng.choice(STR_POOL))


def rand_doc(rng, depth=3):
    """typed value encoding (space separated tokens)"""
    r = rng.random()
    if depth <= 0 or r < 0.25:
        return rand_scalar(rng)
    if r < 0.6:
        n = rng.choice([0, 1, 2, 2, 3, 3, 4, 6])
        if rng.random() < 0.02:
            # long arrays of scalars (sorting / searching / hashing thresholds: 20, 32, 64, 128, 256 …)
            n = rng.choice([21, 33, 65, 129, 255, 256, 257, 300])
            kind = rng.random()
            if kind < 0.4:
                return "[ " + " ".join("u%d" % rng.randrange(0, 50) for _ in range(n)) + " ]"
            if kind < 0.7:
                return "[ " + " ".join(enc_str(rng.choice(STR_POOL[:8]) + str(rng.randrange(0, 9))) for _ in range(n)) + " ]"
            keys = rng.sample(IDENTS[:8], 2)
            return "[ " + " ".join("{ " + " ".join(enc_str(k) + " " + ("u%d" % rng.randrange(0, 9)) for k in sorted(keys)) + " }" for _ in range(n)) + " ]"
        kind = rng.random()
        if kind < 0.3:     # homogeneous objects (projection / filter targets)
            keys = rng.sample(IDENTS[:8], rng.randrange(1, 4))
            items = []
            for _ in range(n):
                ks = sorted(k for k in keys if rng.random() < 0.85)
                items.append("{ " + " ".join(enc_str(k) + " " + rand_doc(rng, depth - 2) for k in ks) + " }" if ks else "{ }")
            return "[ " + " ".join(items) + " ]" if items else "[ ]"
        if kind < 0.45:
            return "[ " + " ".join(rng.choice(NUM_POOL[:8]) for _ in range(n)) + " ]" if n else "[ ]"
        if kind < 0.55:
            return "[ " + " ".join(enc_str(rng.choice(STR_POOL)) for _ in range(n)) + " ]" if n else "[ ]"
        return "[ " + " ".join(rand_doc(rng, depth - 1) for _ in range(n)) + " ]" if n else "[ ]"
    n = rng.choice([0, 1, 2, 3, 4])
    if rng.random() < 0.01:
        # objects with many members
        ks = sorted(set(IDENTS + KEYS + ["m%d" % i for i in range(rng.choice([12, 20, 40]))]), key=lambda s: s.encode("utf-8"))
        return "{ " + " ".join(enc_str(k) + " " + rand_scalar(rng) for k in ks) + " }"
    ks = sorted(set(rng.choice(KEYS if rng.random() < 0.3 else IDENTS[:8]) for _ in range(n)), key=lambda s: s.encode("utf-8"))
    if not ks:
        return "{ }"
    return "{ " + " ".join(enc_str(k) + " " + rand_doc(rng, depth - 1) for k in ks) + " }"


def json_to_enc(v):
    """python JSON value -> typed encoding (ints as i/u, floats as bits)"""
    if v is None:
        return "n"
    if v is True:
        return "t"
    if v is False:
        return "f"
    if isinstance(v, int):
        if v < 0:
            return "i%d" % v if v >= -2 ** 63 else f64_bits(float(v))
        return "u%d" % v if v < 2 ** 64 else f64_bits(float(v))
    if isinstance(v, float):
        return f64_bits(v)
    if isinstance(v, str):
        return enc_str(v)
    if isinstance(v, list):
        return "[ " + " ".join(json_to_enc(x) for x in v) + " ]" if v else "[ ]"
    if isinstance(v, dict):
        ks = sorted(v, key=lambda s: s.encode("utf-8"))
        return "{ " + " ".join(enc_str(k) + " " + json_to_enc(v[k]) for k in ks) + " }" if ks else "{ }"
    raise ValueError(v)


def compliance_suite(repo):
    """[(expression, given-document-as-encoding)] + list of distinct documents"""
    pairs, docs = [], []
    for f in sorted(glob.glob(os.path.join(repo, "jmespath/tests/compliance/*.json"))):
        if f.endswith("benchmarks.json"):
            continue
        for suite in json.load(open(f)):
            d = json_to_enc(suite["given"])
            docs.append(d)
            for c in suite["cases"]:
                pairs.append((c["expression"], d))
    return pairs, list(dict.fromkeys(docs))


# ------------------------------------------------------------------------------------ expressions

def json_lit(rng, depth=2):
    r = rng.random()
    if depth <= 0 or r < 0.55:
        return rng.choice(["null", "true", "false", "0", "1", "2", "-1", "10", "1.5", "-0.5", "1e2", "1.0", "\"a\"", "\"foo\"",
                           "\"\"", "\"é\"", "\"a`b\"", "\"q\\\"r\"", "\"\\u00e9\\ud83d\\ude00\"", "0.71", "0.7100000000000002",
                           "9007199254740993", "18446744073709551616", "1e308", "1.7e308"])
    if r < 0.8:
        return "[" + ", ".join(json_lit(rng, depth - 1) for _ in range(rng.randrange(0, 4))) + "]"
    return "{" + ", ".join("\"%s\": %s" % (rng.choice(IDENTS[:6]), json_lit(rng, depth - 1)) for _ in range(rng.randrange(0, 3))) + "}"


def tok_ident(rng):
    return rng.choice(IDENTS)


def tok_quoted(rng):
    k = rng.choice(KEYS + ["q\"r", "b\\s", "é\U0001F600", "tab\t"])
    return json.dumps(k, ensure_ascii=rng.random() < 0.5)


def tok_raw(rng):
    body = rng.choice(["", "a", "foo", "it\\'s", "b\\\\s", "x\\y", "é😀", "a b", "`", "\""])
    return "'" + body + "'"


def tok_num(rng):
    r = rng.random()
    if r < 0.7:
        return str(rng.randrange(-4, 6))
    if r < 0.85:
        return str(rng.choice([I32MAX, -I32MAX, I32MAX - 1, 10, 100, -100]))
    return str(rng.randrange(-I32MAX, I32MAX))


class ExprGen:
    """Flat token-level sentences: operand (binop operand)*, operand = prefix* primary postfix*.
    Every ordering of infix / prefix / postfix operators around arbitrary operands occurs; the
    parser (and the model) decide the tree."""

    def __init__(self, rng, funcs=True, maxdepth=3):
        self.rng, self.funcs, self.maxdepth = rng, funcs, maxdepth

    def expr(self, d=0):
        rng = self.rng
        toks = self.operand(d)
        n = 0
        while rng.random() < (0.45 if d == 0 else 0.3) and n < 4:
            toks.append(rng.choice(["||", "&&", "|", "|", "==", "!=", "<", "<=", ">", ">="]))
            toks += self.operand(d)
            n += 1
        return toks

    def slice_toks(self):
        rng = self.rng
        part = lambda: [tok_num(rng)] if rng.random() < 0.6 else []
        t = ["["] + part() + [":"] + part()
        if rng.random() < 0.5:
            t += [":"] + part()
        return t + ["]"]

    def args(self, name, d):
        rng = self.rng
        n = rng.choice([0, 1, 1, 1, 2, 2, 3])
        out = []
        for i in range(n):
            if i:
                out.append(",")
            if rng.random() < (0.45 if name in ("map", "sort_by", "max_by", "min_by") else 0.08):
                out.append("&")
            out += self.expr(d + 1)
        return out

    def call(self, d):
        rng = self.rng
        name = rng.choice(BUILTINS) if rng.random() < 0.93 else rng.choice(["nope", "foo", "Abs"])
        return [name, "("] + self.args(name, d) + [")"]

    def mlist(self, d):
        rng = self.rng
        out = ["["]
        for i in range(rng.choice([1, 1, 2, 2, 3])):
            if i:
                out.append(",")
            out += self.expr(d + 1)
        return out + ["]"]

    def mhash(self, d):
        rng = self.rng
        out = ["{"]
        for i in range(rng.choice([1, 1, 2, 3])):
            if i:
                out.append(",")
            out += [tok_ident(rng) if rng.random() < 0.8 else tok_quoted(rng), ":"] + self.expr(d + 1)
        return out + ["}"]

    def primary(self, d):
        rng = self.rng
        deep = d >= self.maxdepth
        r = rng.random()
        if r < 0.30 or deep and r < 0.7:
            return [tok_ident(rng)]
        if r < 0.35:
            return [tok_quoted(rng)]
        if r < 0.40:
            return ["@"]
        if r < 0.48:
            return ["`" + json_lit(rng).replace("`", "\\`") + "`"]
        if r < 0.52:
            return [tok_raw(rng)]
        if r < 0.56:
            return ["*"]
        if r < 0.60:
            return ["[", "*", "]"]
        if r < 0.64:
            return ["[", tok_num(rng), "]"]
        if r < 0.68:
            return self.slice_toks()
        if r < 0.71:
            return ["[]"]
        if deep:
            return [tok_ident(rng)]
        if r < 0.76:
            return ["[?"] + self.expr(d + 1) + ["]"]
        if r < 0.82:
            return self.mlist(d)
        if r < 0.87:
            return self.mhash(d)
        if r < 0.95 and self.funcs:
            return self.call(d)
        return ["("] + self.expr(d + 1) + [")"]

    def postfix(self, d):
        rng = self.rng
        deep = d >= self.maxdepth
        r = rng.random()
        if r < 0.30 or deep and r < 0.6:
            return [".", tok_ident(rng)]
        if r < 0.34:
            return [".", tok_quoted(rng)]
        if r < 0.40:
            return [".", "*"]
        if r < 0.50:
            return ["[", tok_num(rng), "]"]
        if r < 0.57:
            return self.slice_toks()
        if r < 0.66:
            return ["[", "*", "]"]
        if r < 0.74:
            return ["[]"]
        if deep:
            return [".", tok_ident(rng)]
        if r < 0.82:
            return ["[?"] + self.expr(d + 1) + ["]"]
        if r < 0.88:
            return ["."] + self.mlist(d)
        if r < 0.93:
            return ["."] + self.mhash(d)
        if self.funcs:
            return ["."] + self.call(d)
        return [".", tok_ident(rng)]

    def operand(self, d):
        rng = self.rng
        toks = []
        while rng.random() < 0.12:
            toks.append("!")
        toks += self.primary(d)
        n = 0
        while rng.random() < 0.5 and n < 5:
            toks += self.postfix(d)
            n += 1
        return toks


MERGE = {"&&", "||", "[]", "[?", "!=", "<=", ">=", "=="}


def spell(rng, toks, ws=0.25):
    """join tokens with random insignificant whitespace; always separate tokens that would fuse"""
    out = []
    for i, t in enumerate(toks):
        if i:
            prev = toks[i - 1]
            fuse = (prev[-1:] + t[:1]) in MERGE or ((prev[-1:].isalnum() or prev[-1:] == "_") and (t[:1].isalnum() or t[:1] == "_")) \
                or (prev[-1:] == "-")
            if fuse or rng.random() < ws:
                out.append(rng.choice([" ", " ", "  ", "\n", "\t", "\r", "\r\n"]) if rng.random() < 0.1 else " ")
        out.append(t)
    return "".join(out)


ALL_TOKS = [".", "*", "[]", "&&", "||", "|", "[?", "[", "]", ",", ":", "!", "!=", "==", ">", ">=", "<", "<=", "@", "&", "(", ")",
            "{", "}", "a", "b", "foo", "\"q\"", "'r'", "`1`", "`\"s\"`", "0", "1", "-1", "2"]


def near_miss(rng, toks):
    toks = list(toks)
    if not toks:
        return [rng.choice(ALL_TOKS)]
    op = rng.randrange(6)
    i = rng.randrange(len(toks))
    if op == 5:
        toks.insert(i, rng.choice(ODD_WS))
    elif op == 0:
        del toks[i]
    elif op == 1:
        toks.insert(i, rng.choice(ALL_TOKS))
    elif op == 2 and len(toks) > 1:
        j = rng.randrange(len(toks))
        toks[i], toks[j] = toks[j], toks[i]
    elif op == 3:
        toks.insert(i, toks[i])
    else:
        toks[i] = rng.choice(ALL_TOKS)
    return toks


def token_soup(rng):
    return [rng.choice(ALL_TOKS) for _ in range(rng.randrange(1, 9))]


CHARS = list("ab_0123456789-.*[]?|&!<>=@(){},:\"'`\\ \n\t\r") + ["é", "😀", "\u0001", "²", "٣", " ", "u", "d", "8", "f", "e", "+"]
# whitespace-like characters that are NOT JMESPath whitespace (only space, tab, CR, LF are)
ODD_WS = ["\x0c", "\x0b", "\u00a0", "\u2028", "\u0085", "\u200b", "\u3000", "\x1f"]
CHARS += ODD_WS


def char_soup(rng):
    return "".join(rng.choice(CHARS) for _ in range(rng.randrange(0, 12)))


def quoted_soup(rng):
    """delimiter / backslash / escape dense strings (C09)"""
    pool = ["\\", "\\", "'", "`", "\"", "u", "d83d", "de00", "00e9", "n", "a", " ", "é", "😀", "1", "[", "]", "{", "}", ":", ","]
    q = rng.choice(["'", "`", "\""])
    body = "".join(rng.choice(pool) for _ in range(rng.randrange(0, 8)))
    closed = rng.random() < 0.85
    s = q + body + (q if closed else "")
    if rng.random() < 0.3:
        s = rng.choice(["a.", "[", "foo || ", ""]) + s + rng.choice(["", ".b", "]", " | c"])
    return s


def all_token_seqs(maxlen):
    reps = [".", "*", "[]", "&&", "||", "|", "[?", "[", "]", ",", ":", "!", "==", "@", "&", "(", ")", "{", "}", "a", "\"q\"", "`1`", "1", "-1"]
    seqs = [[]]
    frontier = [[]]
    for _ in range(maxlen):
        frontier = [s + [t] for s in frontier for t in reps]
        seqs += frontier
    return seqs


# ----------------------------------------------------------------------------- data-aware expressions

def _ident_ok(k):
    return k and (k[0].isalpha() or k[0] == "_") and all(ch.isalnum() and ord(ch) < 128 or ch == "_" for ch in k)


def key_spelling(k):
    import json as _j
    return k if _ident_ok(k) else _j.dumps(k)


def path_expr(rng, doc, wrap=True):
    """An expression (text) that walks into the python JSON value `doc` along existing keys / indexes, ending with a
    random tail (projection, function call, comparison, multi-select), so that results are mostly non-null."""
    parts = []
    cur = doc
    for _ in range(rng.randrange(0, 4)):
        if isinstance(cur, dict) and cur:
            k = rng.choice(sorted(cur))
            parts.append(("." if parts else "") + key_spelling(k))
            cur = cur[k]
        elif isinstance(cur, list) and cur:
            i = rng.randrange(-len(cur), len(cur))
            parts.append(("" if parts else "@") + "[%d]" % i)
            cur = cur[i]
        else:
            break
    base = "".join(parts) or "@"
    if not wrap:
        return base
    r = rng.random()
    if isinstance(cur, list):
        tails = ["[*]", "[]", "[::-1]", "[1:]", "[:2]", "[?@]", "[?@ != `null`]"]
        fns = ["length(%s)", "reverse(%s)", "to_string(%s)", "type(%s)", "not_null(%s)", "to_array(%s)"]
        if cur and all(isinstance(x, (int, float)) and not isinstance(x, bool) for x in cur):
            fns += ["sort(%s)", "max(%s)", "min(%s)", "sum(%s)", "avg(%s)"]
        if cur and all(isinstance(x, str) for x in cur):
            fns += ["sort(%s)", "join(', ', %s)", "max(%s)"]
        if cur and all(isinstance(x, dict) for x in cur):
            ks = sorted({k for x in cur for k in x})
            if ks:
                k = key_spelling(rng.choice(ks))
                tails += ["[*].%s" % k, "[?%s]" % k, "[].%s" % k, "[*].[%s]" % k, "[*].{x: %s}" % k]
                fns += ["map(&%s, %%s)" % k]
    elif isinstance(cur, dict):
        tails = [".*", ".* | [0]"]
        fns = ["keys(%s)", "values(%s)", "length(%s)", "to_string(%s)", "type(%s)", "merge(%s, `{\"zz\": 1}`)"]
        if cur:
            ks = [key_spelling(k) for k in sorted(cur)]
            tails += [".[%s]" % ", ".join(rng.sample(ks, min(len(ks), 2))), ".{p: %s, q: @}" % ks[0]]
    elif isinstance(cur, str):
        tails = [" == 'a'", " || 'dflt'"]
        fns = ["length(%s)", "reverse(%s)", "to_string(%s)", "type(%s)", "to_number(%s)", "starts_with(%s, 'a')", "contains(%s, 'a')", "to_array(%s)"]
    elif isinstance(cur, (int, float)) and not isinstance(cur, bool):
        tails = [" > `0`", " == `1`", " <= `1.5`"]
        fns = ["abs(%s)", "ceil(%s)", "floor(%s)", "to_string(%s)", "type(%s)", "to_number(%s)", "to_array(%s)"]
    else:
        tails = [" || 'dflt'", " && 'yes'", " == `null`"]
        fns = ["type(%s)", "to_string(%s)", "not_null(%s, 'z')", "!%s"]
    if r < 0.25:
        return base
    if r < 0.6:
        return base + rng.choice(tails)
    if r < 0.9:
        return rng.choice(fns) % base
    return "[%s, %s]" % (base, rng.choice(fns) % base)


def near_pair(rng, depth=3):
    """two typed values that are equal, differ in exactly one token (a number, a string, or a member NAME), or are unrelated"""
    if rng.random() < 0.25:
        # numbers that are neighbours, or far apart, inside one representation class (integers above i64::MAX, doubles near 2^53, …)
        grp = rng.choice([["u9223372036854775808", "u9223372036854777856", "u10000000000000000000", "u12000000000000000000", "u18446744073709551615",
                           "u9223372036854775807", "u9223372036854775809"],
                          ["u9007199254740992", "u9007199254740993", "u9007199254740994", f64_bits(9007199254740992.0), f64_bits(9007199254740994.0)],
                          ["i-9223372036854775808", "i-9223372036854775807", "i-9223372036854774784", f64_bits(-9.223372036854775808e18)],
                          [f64_bits(0.1 + 0.2), f64_bits(0.3), f64_bits(0.30000000000000010), "u0", f64_bits(5e-324), f64_bits(-0.0)],
                          ["u4294967296", "u4294967295", "u2147483648", "u2147483647", f64_bits(4294967296.0), "i-2147483649", "i-2147483648"]])
        x, y = rng.choice(grp), rng.choice(grp)
        w = rng.choice(["%s", "[ %s ]", "{ s61 %s }", "[ u1 %s ]"])
        return w % x, w % y
    a = rand_doc(rng, depth)
    r = rng.random()
    if r < 0.3:
        return a, a
    if r < 0.8:
        toks = a.split(" ")
        idx = [i for i, t in enumerate(toks) if t[0] in "uids"]
        if idx:
            i = rng.choice(idx)
            if toks[i][0] == "s":
                toks[i] = enc_str(rng.choice(["a", "b", "", "zz", "id", "uid"]))
            else:
                toks[i] = rng.choice(NUM_POOL)
            b = " ".join(toks)
            # keep objects well formed (sorted, duplicate-free keys): re-encode through the parser
            try:
                import enc as _E
                b = _E.dump(_E.parse(b))
            except Exception:
                b = a
            return a, b
    return a, rand_doc(rng, depth)


CMP_EXPRS = ["[0] == [1]", "[0] != [1]", "@[0] == @[1] || `\"ne\"`", "[?@ == `1`]", "[[0] == [1], [1] == [0], [0] != [1]]",
             "[0] < [1]", "[0] >= [1]", "[?[0] == [1]]", "[*] | [0] == [1]", "{e: [0] == [1], n: [0] != [1]}", "!([0] == [1])",
             "([0] == [1]) && `true`", "[0].a == [1].a", "[0][0] == [1][0]", "[0].* == [1].*", "[0][] == [1][]",
             # the same stored value on both sides (ordering is defined on numbers only, whatever the operands' identity)
             "[0] <= [0]", "[1] >= [1]", "[[0] < [0], [0] <= [0], [0] > [0], [0] >= [0], [0] != [0]]", "@ <= @", "[?@ <= @]", "[?@ >= @] | length(@)",
             "[0].a <= [0].a", "[*].[@ <= @, @ == @]",
             # every ordering operator in both directions (numbers within the tolerance of == are still ordered exactly)
             "[[0] <= [1], [0] >= [1], [1] <= [0], [1] >= [0], [0] < [1], [0] > [1]]", "[?[0] <= [1]]", "[0] <= [1] && [1] <= [0]"]


# ----------------------------------------------------------------------------- postfix chains over table-shaped data

def table_doc(rng, depth=3):
    """arrays of objects over the keys a, b, c whose members are numbers, strings or again such arrays: every postfix chain below selects something"""
    def obj(d):
        o = {}
        for k in ("a", "b", "c"):
            r = rng.random()
            if r < 0.15:
                continue
            if d > 0 and r < 0.55:
                o[k] = arr(d - 1)
            elif r < 0.8:
                o[k] = rng.choice([0, 1, 2, 3])
            elif r < 0.9:
                o[k] = rng.choice(["a", "", "x"])
            else:
                o[k] = rng.choice([None, True, False, [], {}])
        return o

    def arr(d):
        return [obj(d) if rng.random() < 0.85 else rng.choice([1, None, [obj(0)], "s"]) for _ in range(rng.randrange(1, 4))]
    return {"a": arr(depth), "b": arr(depth - 1), "c": rng.choice([1, arr(1)])}


POSTFIXES = [".a", ".b", ".c", "[0]", "[-1]", "[*]", "[]", "[?a]", "[?b]", "[?c > `0`]", "[?@]", "[1:]", "[::2]", "[::-1]", ".*", ".[a, b]", ".{x: a, y: b}",
             " | [0]", " | a", " || `1`", " && b", " == `1`", ".length(@)", ".keys(@)"]


def postfix_chain(rng, nmax=5):
    return rng.choice(["a", "b", "@.a", "*", "a[0]"]) + "".join(rng.choice(POSTFIXES) for _ in range(rng.randrange(2, nmax + 1)))


def respell_numbers(rng, enc):
    """the same document with some numbers respelled in another representation of (nearly) the same value: u1 <-> 1.0, 2^53+1 <-> 2^53, 0.0 <-> -0.0"""
    import struct
    out = []
    for t in enc.split(" "):
        if t[0] in "ui" and rng.random() < 0.7:
            try:
                out.append(f64_bits(float(int(t[1:]))))
                continue
            except OverflowError:
                pass
        elif t[0] == "d" and rng.random() < 0.7:
            x = struct.unpack("<d", struct.pack("<Q", int(t[1:], 16)))[0]
            if x == int(x) and abs(x) < 2 ** 63:
                out.append(("u%d" % int(x)) if x >= 0 and str(x)[0] != "-" else ("i%d" % int(x)) if x < 0 else f64_bits(0.0))
                continue
        out.append(t)
    return " ".join(out)
