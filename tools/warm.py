#!/usr/bin/env python3
"""setup helper: pre-build the feature variants of the harness and warm the `#print axioms` cache, so that quick checks start fast"""
import os
import sys
import threading
sys.path.insert(0, os.path.dirname(os.path.abspath(__file__)))
import common as C
import importlib


def builds():
    for feats, nightly, tdir in ([["sync"], False, "target-sync"], [["specialized"], True, "target-spec"], [["sync", "specialized"], True, "target-syncspec"]):
        ok, out, _ = C.cargo_build(features=feats, nightly=nightly, target_dir=os.path.join(C.HARNESS, tdir))
        print("build", feats, "ok" if ok else out[-500:])
    jp = os.path.join(C.HARNESS, "jpwrap")
    if os.path.isdir(jp):
        ok, out, _ = C.cargo_build(package="jpwrap")
        print("build jpwrap", "ok" if ok else out[-500:])


def axioms():
    mods = []
    d = os.path.join(os.path.dirname(os.path.abspath(__file__)), "props")
    for f in sorted(os.listdir(d)):
        if f.startswith("c") and f.endswith(".py"):
            m = importlib.import_module("props." + f[:-3])
            mods.append(m.MODULE)
    ths = [threading.Thread(target=C.prop_axioms, args=(m,)) for m in mods]
    for t in ths:
        t.start()
    for t in ths:
        t.join()
    print("axioms cache warmed for", len(mods), "modules")


if __name__ == "__main__":
    t = threading.Thread(target=builds)
    t.start()
    axioms()
    t.join()
