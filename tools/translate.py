#!/usr/bin/env python3
"""translate.py — regenerate lean/JmesVerif/Generated/*.lean from /repo's current source.

Table-shaped parts of the code are re-extracted on every run so that the theorems that mention
them (`Props/C04.lbp_*`, `Props/C06.sigs_*`, `Props/C15/C06.registry_*`, `Props/C16/C17.cfg_*`) are
re-checked by `lake build` against what the code says *now*:

  Generated/Lbp.lean        `impl Token { fn lbp }` arms (lexer.rs), PROJECTION_STOP and the binding-power
                            argument at every `self.expr(..)` / `projection_rhs(..)` / `parse_dot(..)` call site (parser.rs)
  Generated/Signatures.lean every `defn!(Name, vec![arg!(…)…], variadic)` (functions.rs)
  Generated/Registry.lean   `register_function("name", Box::new(XFn::new()))` lines (runtime.rs)
  Generated/Features.lean   `[features]` of Cargo.toml and every `cfg(feature = …)` site in src/*.rs

A region that cannot be parsed makes this script exit non-zero (a broken tie, DESIGN §2.3)."""
import os
import re
import sys

REPO = os.environ.get("VERIF_REPO", "/repo")
SRC = os.path.join(REPO, "jmespath", "src")
OUT = os.path.join(os.path.dirname(os.path.dirname(os.path.abspath(__file__))), "lean", "JmesVerif", "Generated")


def read(name):
    return open(os.path.join(SRC, name), encoding="utf-8").read()


def strip_rust_comments(s):
    s = re.sub(r"//[^\n]*", "", s)
    return re.sub(r"/\*.*?\*/", "", s, flags=re.S)


TOK = {"Identifier": "identifier", "QuotedIdentifier": "quotedIdentifier", "Number": "number", "Literal": "literal",
       "Dot": "dot", "Star": "star", "Flatten": "flatten", "And": "and", "Or": "or", "Pipe": "pipe", "Filter": "filter",
       "Lbracket": "lbracket", "Rbracket": "rbracket", "Comma": "comma", "Colon": "colon", "Not": "not", "Ne": "ne",
       "Eq": "eq", "Gt": "gt", "Gte": "gte", "Lt": "lt", "Lte": "lte", "At": "at", "Ampersand": "ampersand",
       "Lparen": "lparen", "Rparen": "rparen", "Lbrace": "lbrace", "Rbrace": "rbrace", "Eof": "eof"}


def fail(msg):
    sys.stderr.write("translate.py: " + msg + "\n")
    sys.exit(1)


def gen_lbp():
    lx = strip_rust_comments(read("lexer.rs"))
    m = re.search(r"pub fn lbp\(&self\)\s*->\s*usize\s*\{\s*match \*self\s*\{(.*?)\}\s*\}", lx, re.S)
    if not m:
        fail("cannot find Token::lbp in lexer.rs")
    arms, default = {}, None
    for arm in re.finditer(r"([A-Za-z_|\s]+?)\s*=>\s*(\d+)\s*,", m.group(1)):
        names, val = arm.group(1), int(arm.group(2))
        for n in [x.strip() for x in names.split("|")]:
            if n == "_":
                default = val
            elif n in TOK:
                arms[n] = val
            else:
                fail(f"unknown token {n!r} in Token::lbp")
    if default is None:
        fail("Token::lbp has no default arm")
    ps = strip_rust_comments(read("parser.rs"))
    m = re.search(r"const PROJECTION_STOP:\s*usize\s*=\s*(\d+);", ps)
    if not m:
        fail("cannot find PROJECTION_STOP")
    stop = int(m.group(1))

    def power(expr):
        expr = expr.strip()
        if re.fullmatch(r"\d+", expr):
            return int(expr)
        mm = re.fullmatch(r"Token::(\w+)\.lbp\(\)", expr)
        if mm:
            return arms.get(mm.group(1), default)
        if expr in ("t.lbp()", "lbp"):
            return None
        fail(f"unrecognised binding-power argument {expr!r}")

    # call sites: which power each construct parses its operand / right-hand side at
    sites = {}

    def fn_body(name):
        mm = re.search(r"fn %s\((?:&mut self|&self).*?\n    \}\n" % name, ps, re.S)
        if not mm:
            fail(f"cannot find fn {name} in parser.rs")
        return mm.group(0)

    def single(body, pat, what):
        mm = re.search(pat, body, re.S)
        if not mm:
            fail(f"cannot find {what}")
        return mm

    nud, led = fn_body("nud"), fn_body("led")
    # t @ Token::X => … self.expr(t.lbp())
    for tokname, key in (("Ampersand", "nud_expref"), ("Not", "nud_not")):
        single(nud, r"t @ Token::%s\s*=>.*?self\.expr\(t\.lbp\(\)\)" % tokname, f"nud {tokname} arm")
        sites[key] = arms.get(tokname, default)
    sites["nud_paren"] = power(single(nud, r"Token::Lparen\s*=>\s*\{\s*let result = self\.expr\(([^)]*)\)", "nud Lparen arm").group(1))
    for tokname, key in (("Or", "led_or"), ("And", "led_and"), ("Pipe", "led_pipe")):
        single(led, r"t @ Token::%s\s*=>\s*\{.*?self\.expr\(t\.lbp\(\)\)" % tokname, f"led {tokname} arm")
        sites[key] = arms.get(tokname, default)
    single(led, r"t @ Token::Dot\s*=>.*?self\.parse_dot\(t\.lbp\(\)\)", "led Dot arm")
    sites["led_dot"] = arms.get("Dot", default)
    sites["cmp"] = power(single(fn_body("parse_comparator"), r"self\.expr\(([^)]*\(\))\)", "parse_comparator").group(1))
    sites["kvp"] = power(single(fn_body("parse_kvp"), r"value:\s*self\.expr\(([^)]*)\)", "parse_kvp").group(1))
    sites["filter_pred"] = power(single(fn_body("parse_filter"), r"Box::new\(self\.expr\(([^)]*)\)\?\)", "parse_filter predicate").group(1))
    sites["filter_rhs"] = power(single(fn_body("parse_filter"), r"self\.projection_rhs\(([^)]*\(\))\)", "parse_filter rhs").group(1))
    sites["flatten_rhs"] = power(single(fn_body("parse_flatten"), r"self\.projection_rhs\(([^)]*\(\))\)", "parse_flatten rhs").group(1))
    sites["wild_index_rhs"] = power(single(fn_body("parse_wildcard_index"), r"self\.projection_rhs\(([^)]*\(\))\)", "wildcard index rhs").group(1))
    sites["wild_values_rhs"] = power(single(fn_body("parse_wildcard_values"), r"self\.projection_rhs\(([^)]*\(\))\)", "wildcard values rhs").group(1))
    sites["slice_rhs"] = power(single(fn_body("parse_index"), r"self\.projection_rhs\(([^)]*\(\))\)", "slice rhs").group(1))
    sites["list_elem"] = power(single(fn_body("parse_list"), r"nodes\.push\(self\.expr\(([^)]*)\)\?\)", "parse_list element").group(1))
    sites["top"] = power(single(fn_body("parse"), r"self\.expr\(([^)]*)\)", "Parser::parse").group(1))

    lines = ["/- GENERATED by tools/translate.py from /repo/jmespath/src/{lexer,parser}.rs — do not edit. -/",
             "import JmesVerif.Model.Lexer", "namespace JmesVerif.Generated", "",
             "/-- `Token::lbp` as written in lexer.rs -/", "def lbp : Tok → Nat"]
    for n, lean in TOK.items():
        if n in arms:
            pat = f".{lean}" + (" _" if n in ("Identifier", "QuotedIdentifier", "Number", "Literal") else "")
            lines.append(f"  | {pat} => {arms[n]}")
    lines.append(f"  | _ => {default}")
    lines += ["", "/-- `PROJECTION_STOP` (parser.rs) -/", f"def projectionStop : Nat := {stop}", "",
              "/-- binding power passed at each call site of `expr` / `projection_rhs` / `parse_dot` in parser.rs -/",
              "structure Sites where"]
    for k in sites:
        lines.append(f"  {k} : Nat")
    lines.append("")
    lines.append("def sites : Sites := {")
    lines.append(",\n".join(f"  {k} := {v}" for k, v in sites.items()))
    lines += ["}", "", "end JmesVerif.Generated", ""]
    return "\n".join(lines)


ARG = {"any": ".any", "null": ".null", "string": ".string", "bool": ".bool", "number": ".number", "object": ".object",
       "expref": ".expref", "array": ".array", "array_number": "(.typedArray .number)", "array_string": "(.typedArray .string)"}


def parse_arg(a):
    a = a.strip()
    m = re.fullmatch(r"arg!\((.*)\)", a, re.S)
    if not m:
        fail(f"unrecognised argument spec {a!r}")
    parts = [p.strip() for p in m.group(1).split("|")]
    for p in parts:
        if p not in ARG:
            fail(f"unknown arg! type {p!r}")
    if len(parts) == 1:
        return ARG[parts[0]]
    return "(.union [" + ", ".join(ARG[p] for p in parts) + "])"


def split_top(s):
    out, depth, cur = [], 0, ""
    for ch in s:
        if ch in "([":
            depth += 1
        if ch in ")]":
            depth -= 1
        if ch == "," and depth == 0:
            out.append(cur)
            cur = ""
        else:
            cur += ch
    if cur.strip():
        out.append(cur)
    return out


def gen_sigs():
    fs = strip_rust_comments(read("functions.rs"))
    sigs = []
    for m in re.finditer(r"\ndefn!\(\s*(\w+)\s*,\s*vec!\[(.*?)\]\s*,\s*(None|Some\((.*?\))\))\s*\);", fs, re.S):
        name, args, var = m.group(1), m.group(2), m.group(3)
        inputs = [parse_arg(a) for a in split_top(args) if a.strip()]
        variadic = "none" if var == "None" else "(some " + parse_arg(m.group(4)) + ")"
        sigs.append((name, inputs, variadic))
    if not sigs:
        fail("no defn!(…) found in functions.rs")
    rt = strip_rust_comments(read("runtime.rs"))
    regs = re.findall(r'self\.register_function\(\s*"([^"]+)"\s*,\s*Box::new\((\w+)::new\(\)\)\s*\)', rt)
    if not regs:
        fail("no register_function(…) lines found in runtime.rs")
    lines = ["/- GENERATED by tools/translate.py from /repo/jmespath/src/{functions,runtime}.rs — do not edit. -/",
             "import JmesVerif.Model.Interp", "namespace JmesVerif.Generated", "",
             "/-- every `defn!(Name, inputs, variadic)` of functions.rs: (struct name, signature) -/",
             "def signatures : List (String × Sig) := ["]
    lines.append(",\n".join(f'  ("{n}", ⟨[{", ".join(i)}], {v}⟩)' for n, i, v in sigs))
    lines += ["]", "", "/-- `register_builtin_functions` (runtime.rs): (registered name, struct name), in source order -/",
              "def registrations : List (String × String) := ["]
    lines.append(",\n".join(f'  ("{a}", "{b}")' for a, b in regs))
    lines += ["]", "", "end JmesVerif.Generated", ""]
    return "\n".join(lines)


def gen_features():
    cargo = open(os.path.join(REPO, "jmespath", "Cargo.toml"), encoding="utf-8").read()
    m = re.search(r"\[features\](.*?)(\n\[|\Z)", cargo, re.S)
    feats = re.findall(r"^\s*([A-Za-z_][\w-]*)\s*=\s*\[(.*?)\]", m.group(1), re.M) if m else []
    sites = []
    for fn in sorted(os.listdir(SRC)):
        if not fn.endswith(".rs"):
            continue
        src = read(fn)
        lines = src.split("\n")
        for i, l in enumerate(lines):
            for mm in re.finditer(r'(not\()?feature\s*=\s*"(\w+)"', l):
                if not re.search(r"cfg|cfg_attr", l):
                    continue
                # the item the attribute is attached to: next non-attribute, non-blank, non-doc line
                j = i + 1
                item = ""
                if l.strip().startswith("#![") or "cfg_attr" in l:
                    item = "(crate/doc attribute)"
                else:
                    while j < len(lines) and (not lines[j].strip() or lines[j].strip().startswith(("#[", "///", "//", "doc", ")", "\"", "There", "documentation", "`", "**", "cases", "(If", "a number", "built"))):
                        j += 1
                    item = lines[j].strip() if j < len(lines) else ""
                item = re.sub(r"\s+", " ", item)[:80].replace("\\", "\\\\").replace('"', '\\"')
                sites.append((fn, mm.group(2), bool(mm.group(1)), item))
    out = ["/- GENERATED by tools/translate.py from /repo/jmespath/Cargo.toml and src/*.rs — do not edit. -/",
           "namespace JmesVerif.Generated", "",
           "/-- `[features]` of Cargo.toml: (name, what it enables) -/",
           "def features : List (String × List String) := ["]
    out.append(",\n".join('  ("%s", [%s])' % (n, ", ".join('"%s"' % x.strip().strip('"') for x in d.split(",") if x.strip())) for n, d in feats))
    out += ["]", "", "/-- every `cfg(feature = …)` site: (file, feature, negated, the item it guards) -/",
            "def cfgSites : List (String × String × Bool × String) := ["]
    out.append(",\n".join('  ("%s", "%s", %s, "%s")' % (f, feat, "true" if neg else "false", item) for f, feat, neg, item in sites))
    out += ["]", "", "end JmesVerif.Generated", ""]
    return "\n".join(out)


def write_if_changed(name, content):
    os.makedirs(OUT, exist_ok=True)
    p = os.path.join(OUT, name)
    if os.path.exists(p) and open(p, encoding="utf-8").read() == content:
        return False
    with open(p, "w", encoding="utf-8") as f:
        f.write(content)
    return True


def main():
    ch = []
    for name, fn in (("Lbp.lean", gen_lbp), ("Signatures.lean", gen_sigs), ("Features.lean", gen_features)):
        if write_if_changed(name, fn()):
            ch.append(name)
    print("translate: " + ("rewrote " + ", ".join(ch) if ch else "unchanged"))


if __name__ == "__main__":
    main()
