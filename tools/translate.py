#!/usr/bin/env python3
"""translate.py — regenerate lean/JmesVerif/Generated/*.lean from /repo's current source.

Table-shaped parts of the code are re-extracted on every run so that the theorems that mention
them (`Props/C04.lbp_*`, `Props/C06.sigs_*`, `Props/C15/C06.registry_*`, `Props/C16/C17.cfg_*`) are
re-checked by `lake build` against what the code says *now*:

  Generated/Lbp.lean        `impl Token { fn lbp }` arms (lexer.rs), PROJECTION_STOP and the binding-power
                            argument at every `self.expr(..)` / `projection_rhs(..)` / `parse_dot(..)` call site (parser.rs)
  Generated/Signatures.lean every `defn!(Name, vec![arg!(…)…], variadic)` (functions.rs)
  Generated/Registry.lean   `register_function("name", Box::new(XFn::new()))` lines (runtime.rs)
  Generated/Features.lean   `[features]` of Cargo.toml and every `cfg(feature = …)` site in src/*.rs

A region that cannot be parsed makes this script exit non-zero (a broken tie, DESIGN §2.3)."""
import os
import re
import sys

REPO = os.environ.get("VERIF_REPO", "/repo")
SRC = os.path.join(REPO, "jmespath", "src")
OUT = os.path.join(os.path.dirname(os.path.dirname(os.path.abspath(__file__))), "lean", "JmesVerif", "Generated")


def read(name):
    return open(os.path.join(SRC, name), encoding="utf-8").read()


def strip_rust_comments(s):
    s = re.sub(r"//[^\n]*", "", s)
    return re.sub(r"/\*.*?\*/", "", s, flags=re.S)


TOK = {"Identifier": "identifier", "QuotedIdentifier": "quotedIdentifier", "Number": "number", "Literal": "literal",
       "Dot": "dot", "Star": "star", "Flatten": "flatten", "And": "and", "Or": "or", "Pipe": "pipe", "Filter": "filter",
       "Lbracket": "lbracket", "Rbracket": "rbracket", "Comma": "comma", "Colon": "colon", "Not": "not", "Ne": "ne",
       "Eq": "eq", "Gt": "gt", "Gte": "gte", "Lt": "lt", "Lte": "lte", "At": "at", "Ampersand": "ampersand",
       "Lparen": "lparen", "Rparen": "rparen", "Lbrace": "lbrace", "Rbrace": "rbrace", "Eof": "eof"}


class Broken(Exception):
    """a region of the source could not be translated (a broken tie, DESIGN §2.3) — confined to the generated file it concerns"""


def fail(msg):
    raise Broken(msg)


def gen_lbp():
    lx = strip_rust_comments(read("lexer.rs"))
    m = re.search(r"pub fn lbp\(&self\)\s*->\s*usize\s*\{\s*match \*self\s*\{(.*?)\}\s*\}", lx, re.S)
    if not m:
        fail("cannot find Token::lbp in lexer.rs")
    arms, default = {}, None
    for arm in re.finditer(r"([A-Za-z_:|\s()]+?)\s*=>\s*(\d+)\s*,", m.group(1)):
        names, val = arm.group(1), int(arm.group(2))
        for n in [x.strip() for x in names.split("|")]:
            n = re.sub(r"\(\s*(?:_|\.\.)\s*\)$", "", n)          # `Identifier(_)`: the payload does not matter
            n = re.sub(r"^(?:Token|Self)::", "", n)
            if n == "_":
                default = val
            elif n in TOK:
                arms[n] = val
            else:
                fail(f"unknown token {n!r} in Token::lbp")
    if default is None:
        # an exhaustive match without `_`: every token must be listed
        missing = [t for t in TOK if t not in arms]
        if missing:
            fail("Token::lbp has no default arm and does not mention %s" % missing)
        default = 0
    ps = strip_rust_comments(read("parser.rs"))
    m = re.search(r"const PROJECTION_STOP:\s*usize\s*=\s*(\d+);", ps)
    if not m:
        fail("cannot find PROJECTION_STOP")
    stop = int(m.group(1))

    def power(expr):
        expr = expr.strip()
        if re.fullmatch(r"\d+", expr):
            return int(expr)
        mm = re.fullmatch(r"Token::(\w+)\.lbp\(\)", expr)
        if mm:
            return arms.get(mm.group(1), default)
        if expr in ("t.lbp()", "lbp"):
            return None
        fail(f"unrecognised binding-power argument {expr!r}")

    # call sites: which power each construct parses its operand / right-hand side at
    sites = {}

    def fn_body(name):
        mm = re.search(r"fn %s\((?:&mut self|&self).*?\n    \}\n" % name, ps, re.S)
        if not mm:
            fail(f"cannot find fn {name} in parser.rs")
        return mm.group(0)

    def single(body, pat, what):
        mm = re.search(pat, body, re.S)
        if not mm:
            fail(f"cannot find {what}")
        return mm

    nud, led = fn_body("nud"), fn_body("led")
    # t @ Token::X => … self.expr(t.lbp())
    for tokname, key in (("Ampersand", "nud_expref"), ("Not", "nud_not")):
        single(nud, r"t @ Token::%s\s*=>.*?self\.expr\(t\.lbp\(\)\)" % tokname, f"nud {tokname} arm")
        sites[key] = arms.get(tokname, default)
    sites["nud_paren"] = power(single(nud, r"Token::Lparen\s*=>\s*\{\s*let result = self\.expr\(([^)]*)\)", "nud Lparen arm").group(1))
    for tokname, key in (("Or", "led_or"), ("And", "led_and"), ("Pipe", "led_pipe")):
        single(led, r"t @ Token::%s\s*=>\s*\{.*?self\.expr\(t\.lbp\(\)\)" % tokname, f"led {tokname} arm")
        sites[key] = arms.get(tokname, default)
    single(led, r"t @ Token::Dot\s*=>.*?self\.parse_dot\(t\.lbp\(\)\)", "led Dot arm")
    sites["led_dot"] = arms.get("Dot", default)
    sites["cmp"] = power(single(fn_body("parse_comparator"), r"self\.expr\(([^)]*\(\))\)", "parse_comparator").group(1))
    sites["kvp"] = power(single(fn_body("parse_kvp"), r"value:\s*self\.expr\(([^)]*)\)", "parse_kvp").group(1))
    sites["filter_pred"] = power(single(fn_body("parse_filter"), r"Box::new\(self\.expr\(([^)]*)\)\?\)", "parse_filter predicate").group(1))
    sites["filter_rhs"] = power(single(fn_body("parse_filter"), r"self\.projection_rhs\(([^)]*\(\))\)", "parse_filter rhs").group(1))
    sites["flatten_rhs"] = power(single(fn_body("parse_flatten"), r"self\.projection_rhs\(([^)]*\(\))\)", "parse_flatten rhs").group(1))
    sites["wild_index_rhs"] = power(single(fn_body("parse_wildcard_index"), r"self\.projection_rhs\(([^)]*\(\))\)", "wildcard index rhs").group(1))
    sites["wild_values_rhs"] = power(single(fn_body("parse_wildcard_values"), r"self\.projection_rhs\(([^)]*\(\))\)", "wildcard values rhs").group(1))
    sites["slice_rhs"] = power(single(fn_body("parse_index"), r"self\.projection_rhs\(([^)]*\(\))\)", "slice rhs").group(1))
    sites["list_elem"] = power(single(fn_body("parse_list"), r"nodes\.push\(self\.expr\(([^)]*)\)\?\)", "parse_list element").group(1))
    sites["top"] = power(single(fn_body("parse"), r"self\.expr\(([^)]*)\)", "Parser::parse").group(1))

    lines = ["/- GENERATED by tools/translate.py from /repo/jmespath/src/{lexer,parser}.rs — do not edit. -/",
             "import JmesVerif.Model.Lexer", "namespace JmesVerif.Generated", "",
             "/-- `Token::lbp` as written in lexer.rs -/", "def lbp : Tok → Nat"]
    for n, lean in TOK.items():
        if n in arms:
            pat = f".{lean}" + (" _" if n in ("Identifier", "QuotedIdentifier", "Number", "Literal") else "")
            lines.append(f"  | {pat} => {arms[n]}")
    lines.append(f"  | _ => {default}")
    lines += ["", "/-- `PROJECTION_STOP` (parser.rs) -/", f"def projectionStop : Nat := {stop}", "",
              "/-- binding power passed at each call site of `expr` / `projection_rhs` / `parse_dot` in parser.rs -/",
              "structure Sites where"]
    for k in sites:
        lines.append(f"  {k} : Nat")
    lines.append("")
    lines.append("def sites : Sites := {")
    lines.append(",\n".join(f"  {k} := {v}" for k, v in sites.items()))
    lines += ["}", "", "end JmesVerif.Generated", ""]
    return "\n".join(lines)


ARG = {"any": ".any", "null": ".null", "string": ".string", "bool": ".bool", "number": ".number", "object": ".object",
       "expref": ".expref", "array": ".array", "array_number": "(.typedArray .number)", "array_string": "(.typedArray .string)"}


def parse_arg(a):
    a = a.strip()
    m = re.fullmatch(r"arg!\((.*)\)", a, re.S)
    if not m:
        fail(f"unrecognised argument spec {a!r}")
    parts = [p.strip() for p in m.group(1).split("|")]
    for p in parts:
        if p not in ARG:
            fail(f"unknown arg! type {p!r}")
    if len(parts) == 1:
        return ARG[parts[0]]
    return "(.union [" + ", ".join(ARG[p] for p in parts) + "])"


def split_top(s):
    out, depth, cur = [], 0, ""
    for ch in s:
        if ch in "([":
            depth += 1
        if ch in ")]":
            depth -= 1
        if ch == "," and depth == 0:
            out.append(cur)
            cur = ""
        else:
            cur += ch
    if cur.strip():
        out.append(cur)
    return out


def gen_sigs():
    fs = strip_rust_comments(read("functions.rs"))
    sigs = []
    for m in re.finditer(r"\ndefn!\(\s*(\w+)\s*,\s*vec!\[(.*?)\]\s*,\s*(None|Some\((.*?\))\))\s*\);", fs, re.S):
        name, args, var = m.group(1), m.group(2), m.group(3)
        inputs = [parse_arg(a) for a in split_top(args) if a.strip()]
        variadic = "none" if var == "None" else "(some " + parse_arg(m.group(4)) + ")"
        sigs.append((name, inputs, variadic))
    if not sigs:
        fail("no defn!(…) found in functions.rs")
    rt = strip_rust_comments(read("runtime.rs"))
    regs = re.findall(r'self\.register_function\(\s*"([^"]+)"\s*,\s*Box::new\((\w+)::new\(\)\)\s*\)', rt)
    if not regs:
        fail("no register_function(…) lines found in runtime.rs")
    lines = ["/- GENERATED by tools/translate.py from /repo/jmespath/src/{functions,runtime}.rs — do not edit. -/",
             "import JmesVerif.Model.Interp", "namespace JmesVerif.Generated", "",
             "/-- every `defn!(Name, inputs, variadic)` of functions.rs: (struct name, signature) -/",
             "def signatures : List (String × Sig) := ["]
    lines.append(",\n".join(f'  ("{n}", ⟨[{", ".join(i)}], {v}⟩)' for n, i, v in sigs))
    lines += ["]", "", "/-- `register_builtin_functions` (runtime.rs): (registered name, struct name), in source order -/",
              "def registrations : List (String × String) := ["]
    lines.append(",\n".join(f'  ("{a}", "{b}")' for a, b in regs))
    lines += ["]", "", "end JmesVerif.Generated", ""]
    return "\n".join(lines)


def gen_features():
    cargo = open(os.path.join(REPO, "jmespath", "Cargo.toml"), encoding="utf-8").read()
    m = re.search(r"\[features\](.*?)(\n\[|\Z)", cargo, re.S)
    feats = re.findall(r"^\s*([A-Za-z_][\w-]*)\s*=\s*\[(.*?)\]", m.group(1), re.M) if m else []
    sites = []
    for fn in sorted(os.listdir(SRC)):
        if not fn.endswith(".rs"):
            continue
        src = read(fn)
        lines = src.split("\n")
        for i, l in enumerate(lines):
            for mm in re.finditer(r'(not\()?feature\s*=\s*"(\w+)"', l):
                if not re.search(r"cfg|cfg_attr", l):
                    continue
                # the item the attribute is attached to: next non-attribute, non-blank, non-doc line
                j = i + 1
                item = ""
                if l.strip().startswith("#![") or "cfg_attr" in l:
                    item = "(crate/doc attribute)"
                else:
                    while j < len(lines) and (not lines[j].strip() or lines[j].strip().startswith(("#[", "///", "//", "doc", ")", "\"", "There", "documentation", "`", "**", "cases", "(If", "a number", "built"))):
                        j += 1
                    item = lines[j].strip() if j < len(lines) else ""
                item = re.sub(r"\s+", " ", item)[:80].replace("\\", "\\\\").replace('"', '\\"')
                sites.append((fn, mm.group(2), bool(mm.group(1)), item))
    out = ["/- GENERATED by tools/translate.py from /repo/jmespath/Cargo.toml and src/*.rs — do not edit. -/",
           "namespace JmesVerif.Generated", "",
           "/-- `[features]` of Cargo.toml: (name, what it enables) -/",
           "def features : List (String × List String) := ["]
    out.append(",\n".join('  ("%s", [%s])' % (n, ", ".join('"%s"' % x.strip().strip('"') for x in d.split(",") if x.strip())) for n, d in feats))
    out += ["]", "", "/-- every `cfg(feature = …)` site: (file, feature, negated, the item it guards) -/",
            "def cfgSites : List (String × String × Bool × String) := ["]
    out.append(",\n".join('  ("%s", "%s", %s, "%s")' % (f, feat, "true" if neg else "false", item) for f, feat, neg, item in sites))
    out += ["]", "", "end JmesVerif.Generated", ""]
    return "\n".join(out)


def write_if_changed(name, content):
    os.makedirs(OUT, exist_ok=True)
    p = os.path.join(OUT, name)
    if os.path.exists(p) and open(p, encoding="utf-8").read() == content:
        return False
    with open(p, "w", encoding="utf-8") as f:
        f.write(content)
    return True


def char_lit(tok):
    """Rust char literal -> Lean char literal"""
    m = re.fullmatch(r"'(\\.|[^\\])'", tok.strip())
    if not m:
        fail(f"unrecognised character pattern {tok!r} in Lexer::tokenize")
    c = m.group(1)
    if c in ("\\n", "\\t", "\\r", "\\'", "\\\\"):
        return "'" + c + "'"
    if c.startswith("\\"):
        fail(f"unsupported escape {tok!r} in Lexer::tokenize")
    return "'" + c + "'"


def gen_lextable():
    """the `match ch { … }` of Lexer::tokenize as a table, consume_lbracket's alternatives, and the shape of `alt`"""
    lx = strip_rust_comments(read("lexer.rs"))
    mt = re.search(r"fn tokenize\(&mut self\)", lx)
    mc = re.search(r"match\s+ch\s*\{", lx[mt.end():]) if mt else None
    if not mc:
        fail("cannot find the `match ch` of Lexer::tokenize")

    def skip_lit(src, i):
        """index after the char / string literal starting at src[i] (or i itself when there is none)"""
        if src[i] == '"':
            j = i + 1
            while src[j] != '"':
                j += 2 if src[j] == "\\" else 1
            return j + 1
        if src[i] == "'":
            mm_ = re.compile(r"'(?:\\.[^']*|[^\\'])'").match(src, i)
            return mm_.end() if mm_ else i
        return i

    def block_end(src, i):
        """src[i] is just after an opening brace: index of the matching closing brace"""
        depth = 1
        while depth:
            j = skip_lit(src, i)
            if j != i:
                i = j
                continue
            depth += {"{": 1, "}": -1}.get(src[i], 0)
            i += 1
        return i - 1

    b0 = mt.end() + mc.end()
    body = lx[b0:block_end(lx, b0)]
    # split into arms at depth 0: an arm is `pattern => expr ,` or `pattern => { block }` (format- and indentation-independent)
    arms, i, cur, depth = [], 0, "", 0
    while i < len(body):
        j = skip_lit(body, i)
        if j != i:
            cur += body[i:j]
            i = j
            continue
        ch_ = body[i]
        depth += 1 if ch_ in "{([" else -1 if ch_ in "})]" else 0
        cur += ch_
        i += 1
        if depth == 0 and "=>" in cur and (ch_ == "," or (ch_ == "}" and re.search(r"=>\s*\{", cur) and re.match(r"\s*(?:,|'|[a-z_]+\s*=>|$)", body[i:]))):
            arms.append(cur.strip().rstrip(","))
            cur = ""
    if cur.strip():
        arms.append(cur.strip().rstrip(","))
    arms = [a for a in (x.strip().strip(",").strip() for x in arms) if a]
    rows = []
    for a in arms:
        mm = re.match(r"(.*?)\s*=>\s*(.*)$", a, re.S)
        if not mm:
            fail(f"cannot split arm {a[:60]!r}")
        pat, rhs = mm.group(1).strip(), " ".join(mm.group(2).split()).rstrip(",")
        if re.fullmatch(r"[a-z_]+", pat):
            if "Invalid character" not in rhs or "return Err" not in rhs:
                fail(f"default arm of Lexer::tokenize is not the invalid-character error: {rhs[:80]!r}")
            continue                      # default arm = .invalid (what `actOf` answers when no arm covers the character)
        if " if " in pat:
            fail(f"guarded arm {pat!r} in Lexer::tokenize")
        ranges = []
        CH = r"'(?:\\.|[^\\])'"
        alts_found = re.findall(r"(%s)(?:\.\.=(%s))?" % (CH, CH), pat)
        if " | ".join(lo + ("..=" + hi if hi else "") for lo, hi in alts_found) != " ".join(pat.split()):
            fail(f"unrecognised pattern {pat!r} in Lexer::tokenize")
        for lo, hi in alts_found:
            ranges.append(f"({char_lit(lo)}, {char_lit(hi or lo)})")
        # the token an arm yields: either pushed directly (`tokens.push_back((pos, T))`) or the arm's value (pushed once after the match)
        core = rhs
        mw = re.fullmatch(r"\{?\s*(?:self\.)?tokens\.push_back\(\(pos, (.*)\)\);?\s*\}?", core)
        if mw:
            core = mw.group(1).strip()
        core = re.sub(r"^\{\s*(.*?)\s*\}$", r"\1", core) if not core.startswith("match") else core
        x = re.fullmatch(r"(?:Token::)?([A-Z][A-Za-z]*)", core)
        y = re.fullmatch(r"self\.alt\(('.'), (?:Token::)?([A-Za-z]+), (?:Token::)?([A-Za-z]+)\)", core)
        z = re.fullmatch(r"self\.(consume_[a-z_]+)\([a-z, ]*\)\??", core)
        if x:
            act = f'.single "{x.group(1)}"'
        elif y:
            act = f'.alt {char_lit(y.group(1))} "{y.group(2)}" "{y.group(3)}"'
        elif z:
            act = f'.call "{z.group(1)}"'
        elif rhs in ("{}", "continue", "{ continue }", "{ continue; }", "()"):
            act = ".skip"
        elif rhs.startswith("match self.iter.next()") and re.search(r"Some\(\(_, c\)\) if c == '=' => (?:tokens\.push_back\(\(pos, Eq\)\)|Eq\b)", rhs) and "return Err" in rhs:
            act = ".eqeq"
        else:
            fail(f"unrecognised action in Lexer::tokenize: {pat} => {rhs[:100]!r}")
        rows.append(f"  ([{', '.join(ranges)}], {act})")
    # consume_lbracket
    mb = re.search(r"fn consume_lbracket\(&mut self\) -> Token \{\s*match self\.iter\.peek\(\) \{(.*?)\n {8}\}\s*\}", lx, re.S)
    if not mb:
        fail("cannot find consume_lbracket")
    alts = re.findall(r"Some\(&\(_, ('.')\)\) => \{\s*self\.iter\.next\(\);\s*([A-Za-z]+)\s*\}", mb.group(1))
    dflt = re.search(r"_ => ([A-Za-z]+),", mb.group(1))
    if not alts or not dflt or dflt.group(1) != "Lbracket":
        fail("unrecognised shape of consume_lbracket")
    # alt: peek; on a match consume and return the first token, else the second
    ma = re.search(r"fn alt\(&mut self, expected: char, match_type: Token, else_type: Token\) -> Token \{\s*match self\.iter\.peek\(\) \{\s*Some\(&\(_, c\)\) if c == expected => \{\s*self\.iter\.next\(\);\s*match_type\s*\}\s*_ => else_type,?\s*\}\s*\}", lx, re.S)
    if not ma:
        fail("unrecognised shape of Lexer::alt")
    # consume_identifier / consume_number predicates
    mi = re.search(r"fn consume_identifier.*?\|c\| matches!\(c, ([^)]*)\)", lx, re.S)
    idchars = sorted(x.strip() for x in mi.group(1).split("|")) if mi else fail("cannot find consume_identifier's predicate")
    if idchars != sorted(["'a'..='z'", "'_'", "'A'..='Z'", "'0'..='9'"]):
        fail(f"consume_identifier accepts {idchars}")
    if not re.search(r"fn consume_number.*?consume_while\(first_char\.to_string\(\), \|c\| c\.is_digit\(10\)\)", lx, re.S):
        fail("unrecognised digit predicate in consume_number")
    lines = ["/- GENERATED by tools/translate.py from /repo/jmespath/src/lexer.rs — do not edit. -/",
             "import JmesVerif.Model.LexTable", "namespace JmesVerif.Generated", "",
             "/-- the arms of `match ch` in `Lexer::tokenize`, in source order (the default arm is the invalid-character error); Props/C03 compares it with the documented table up to order and grouping of the arms -/",
             "def lexArms : List LexArm := [", ",\n".join(rows) + "]", "",
             "/-- `consume_lbracket`: next character → token; otherwise `Lbracket` -/",
             "def lbracketAlts : List (Char × String) := [" + ", ".join(f'({char_lit(c)}, "{t}")' for c, t in alts) + "]", "",
             "end JmesVerif.Generated", ""]
    return "\n".join(lines)


# ---------------------------------------------------------------------------------------------
# enum vocabularies: every `pub enum` the model mirrors as an inductive type.  For each one a Lean function is
# generated that matches on the MODEL's inductive with exactly one arm per RUST variant and one `_` per field of
# that variant; Lean elaborates it only if the model type has exactly these constructors with these arities (an
# added variant is an unknown constructor, a removed one a missing case, a changed field list an arity error).

def parse_enum(src, name):
    m = re.search(r"pub enum " + name + r"\s*\{", src)
    if not m:
        fail("cannot find `pub enum %s`" % name)
    i, depth, start = m.end(), 1, m.end()
    while depth:
        if i >= len(src):
            fail("unbalanced braces in enum " + name)
        depth += {"{": 1, "}": -1}.get(src[i], 0)
        i += 1
    body = re.sub(r"#\[[^\]]*\]", "", src[start:i - 1])
    out, k = [], 0
    while True:
        mm = re.compile(r"\s*([A-Z]\w*)\s*").match(body, k)
        if not mm:
            if body[k:].strip():
                fail("cannot parse variants of enum %s near %r" % (name, body[k:k + 40]))
            break
        vname, k = mm.group(1), mm.end()
        fields = []
        if k < len(body) and body[k] in "{(":
            close = {"{": "}", "(": ")"}[body[k]]
            d, j = 1, k + 1
            while d:
                d += 1 if body[j] in "{(<[" else -1 if body[j] in "})>]" else 0
                j += 1
            inner = body[k + 1:j - 1]
            parts, dd, cur = [], 0, ""
            for ch in inner:
                dd += 1 if ch in "{(<[" else -1 if ch in "})>]" else 0
                if ch == "," and dd == 0:
                    parts.append(cur)
                    cur = ""
                else:
                    cur += ch
            parts = [x.strip() for x in parts + [cur] if x.strip()]
            if close == "}":
                fields = [re.match(r"(?:pub\s+)?(\w+)\s*:", x).group(1) for x in parts]
            else:
                fields = [re.sub(r"\s+", "", x) for x in parts]
            k = j
        out.append((vname, fields))
        mm = re.compile(r"\s*,?").match(body, k)
        k = mm.end()
    if not out:
        fail("enum %s has no variants" % name)
    return out


VOCAB = [  # (rust file, enum, model type, variant -> model constructor (default: lowerCamelCase))
    ("ast.rs", "Ast", "Ast", {}),
    ("ast.rs", "Comparator", "Cmp", {"Equal": "eq", "NotEqual": "ne", "LessThan": "lt", "LessThanEqual": "le", "GreaterThan": "gt", "GreaterThanEqual": "ge"}),
    ("lexer.rs", "Token", "Tok", {}),
    ("variable.rs", "Variable", "Val", {"Bool": "bool", "Number": "num", "String": "str", "Array": "arr", "Object": "obj"}),
    ("variable.rs", "JmespathType", "JType", {}),
    ("functions.rs", "ArgumentType", "ArgT", {}),
    ("errors.rs", "RuntimeError", "RtErr", {"TooManyArguments": "tooMany", "NotEnoughArguments": "notEnough"}),
]


def gen_vocab():
    out = ["-- GENERATED by tools/translate.py from /repo/jmespath/src (enum vocabularies) — do not edit",
           "import JmesVerif.Model.Interp", "import JmesVerif.Model.Lexer", "namespace JmesVerif.Generated", ""]
    for f, en, ty, ren in VOCAB:
        vs = parse_enum(strip_rust_comments(read(f)), en)
        low = en[0].lower() + en[1:]
        out.append("/-- `enum %s` (%s): one arm per variant, one `_` per field — elaborates iff `%s` has exactly these constructors/arities -/" % (en, f, ty))
        out.append("def %sVariant : %s → String" % (low, ty))
        for v, fs in vs:
            c = ren.get(v, v[0].lower() + v[1:])
            out.append("  | .%s%s => \"%s\"" % (c, " _" * len(fs), v))
        out.append("")
        out.append("/-- sorted by variant name: the order of the variants in the source is not part of the vocabulary -/")
        out.append("def %sFields : List (String × List String) :=" % low)
        out.append("  [" + ",\n   ".join("(\"%s\", [%s])" % (v, ", ".join('"%s"' % x for x in fs)) for v, fs in sorted(vs)) + "]")
        out.append("")
    # ErrorReason is not mirrored one-to-one (the model's EvalErr adds the offset and the panic / fuel outcomes); recorded as data
    vs = parse_enum(strip_rust_comments(read("errors.rs")), "ErrorReason")
    out.append("def errorReasonFields : List (String × List String) :=")
    out.append("  [" + ", ".join("(\"%s\", [%s])" % (v, ", ".join('"%s"' % x for x in fs)) for v, fs in sorted(vs)) + "]")
    out += ["", "end JmesVerif.Generated", ""]
    return "\n".join(out)


# ---------------------------------------------------------------------------------------------
# the command line surface of jp (jmespath-cli/src/main.rs): clap argument table, exit codes of `die!` and of the
# `--ast` path, and the order in which `main` compiles, tests `--ast`, reads the input, searches and prints

def gen_cli():
    path = os.path.join(REPO, "jmespath-cli", "src", "main.rs")
    src = strip_rust_comments(open(path, encoding="utf-8").read())
    args = []
    for m in re.finditer(r"Arg::with_name\(\s*\"([^\"]+)\"\s*\)", src):
        # the builder chain of this argument: the run of `.method(args)` calls that follows `Arg::with_name("..")`, wherever it stands
        # (inline in `.arg(..)`, or bound to a local first)
        i = m.end()
        while True:
            mm_ = re.compile(r"\s*\.\s*[a-z_]+\s*\(").match(src, i)
            if not mm_:
                break
            j, depth = mm_.end(), 1
            while depth:
                if src[j] == '"':
                    j += 1
                    while src[j] != '"':
                        j += 2 if src[j] == "\\" else 1
                elif src[j] in "()":
                    depth += 1 if src[j] == "(" else -1
                j += 1
            i = j
        chain = src[m.end():i]
        chain_nostr = re.sub(r"\.help\(\s*(\"(?:[^\"\\]|\\.)*\"\s*)+,?\s*\)", "", chain, flags=re.S)
        def one(meth):
            mm = re.search(r"\." + meth + r"\(\s*\"([^\"]*)\"\s*\)", chain_nostr)
            return mm.group(1) if mm else None
        def flag(meth):
            mm = re.search(r"\." + meth + r"\(\s*(true|false)\s*\)", chain_nostr)
            return mm.group(1) == "true" if mm else False
        idx = re.search(r"\.index\(\s*(\d+)\s*\)", chain_nostr)
        known = set(re.findall(r"\.(\w+)\(", chain_nostr))
        extra = known - {"short", "long", "takes_value", "multiple", "required", "index", "conflicts_with"}
        if extra:
            fail("jp: argument %s uses clap builder methods the translator does not know: %s" % (m.group(1), sorted(extra)))
        args.append(dict(name=m.group(1), short=one("short"), long=one("long"), takes=flag("takes_value"), multiple=flag("multiple"),
                         required=flag("required"), index=int(idx.group(1)) if idx else None,
                         conflicts=re.findall(r"\.conflicts_with\(\s*\"([^\"]*)\"\s*\)", chain_nostr)))
    if not args:
        fail("jp: no clap arguments found in main.rs")
    dm = re.search(r"macro_rules!\s*die\s*\((.*?)\n\);", src, re.S) or re.search(r"fn die\b[^{]*->\s*!\s*\{(.*?)\n\}\n", src, re.S)
    if not dm:
        fail("jp: cannot find the die! macro (or a diverging `fn die`)")
    exits = re.findall(r"\bexit\(\s*(\d+)\s*\)", dm.group(1))
    to_stderr = bool(re.search(r"writeln!\(\s*&mut\s+(?:::)?(?:std::)?io::stderr\(\)", dm.group(1)) or re.search(r"\beprintln!\(", dm.group(1)))
    if len(exits) != 1:
        fail("jp: die! must contain exactly one exit(N)")
    mm = re.search(r"fn main\(\)\s*\{(.*?)\n\}\n", src, re.S)
    if not mm:
        fail("jp: cannot find fn main")
    body = mm.group(1)
    marks = [("compile", r"\bcompile\("), ("ast", r"is_present\(\s*\"ast\"\s*\)"), ("input", r"\bget_json\("), ("search", r"\.search\("),
             ("show", r"\bshow_result\(")]
    pos = []
    for name, rx in marks:
        k = re.search(rx, body)
        if not k:
            fail("jp: main no longer contains " + name)
        pos.append((k.start(), name))
    order = [n for _, n in sorted(pos)]
    astm = re.search(r"is_present\(\s*\"ast\"\s*\)\s*\{", body)
    ast_block = ""
    if astm:
        i, depth = astm.end(), 1
        while i < len(body) and depth:
            if body[i] == '"':
                i += 1
                while body[i] != '"':
                    i += 2 if body[i] == "\\" else 1
            elif body[i] in "{}":
                depth += 1 if body[i] == "{" else -1
            i += 1
        ast_block = body[astm.end():i]
    ast_exit = re.findall(r"\bexit\(\s*(\d+)\s*\)", ast_block)
    if len(ast_exit) != 1:
        fail("jp: the --ast branch must end in exactly one exit(N)")
    other_reads = [f for f in ("read_file", "stdin") if re.search(r"\b" + f + r"\b", body.split("get_json(")[0].split('is_present("ast")')[-1])]
    def opt(x):
        return "none" if x is None else "some " + (str(x) if isinstance(x, int) else '"%s"' % x)
    def b(x):
        return "true" if x else "false"
    out = ["-- GENERATED by tools/translate.py from /repo/jmespath-cli/src/main.rs — do not edit", "namespace JmesVerif.Generated", "",
           "structure CliArg where", "  name : String", "  short : Option String", "  long : Option String", "  takesValue : Bool",
           "  multiple : Bool", "  required : Bool", "  index : Option Nat", "  conflicts : List String", "  deriving DecidableEq, Repr", "",
           "def cliArgs : List CliArg :=", "  [" + ",\n   ".join(
               "⟨\"%s\", %s, %s, %s, %s, %s, %s, [%s]⟩" % (a["name"], opt(a["short"]), opt(a["long"]), b(a["takes"]), b(a["multiple"]), b(a["required"]),
                                                          opt(a["index"]), ", ".join('"%s"' % c for c in a["conflicts"])) for a in args) + "]", "",
           "/-- `die!`: writes the message to stderr (%s) and calls `exit(N)` -/" % ("yes" if to_stderr else "NO"),
           "def dieExit : Nat := " + exits[0], "def dieWritesStderr : Bool := " + b(to_stderr),
           "/-- the `--ast` branch of main ends in `exit(N)` -/", "def astExit : Nat := " + ast_exit[0],
           "/-- order of first occurrence in `fn main`: compile, the `--ast` test, reading the input, search, printing -/",
           "def mainOrder : List String := [" + ", ".join('"%s"' % o for o in order) + "]",
           "/-- file / stdin reads between the `--ast` test and `get_json` (must be none) -/",
           "def readsBeforeInput : List String := [" + ", ".join('"%s"' % o for o in other_reads) + "]",
           "", "end JmesVerif.Generated", ""]
    return "\n".join(out)


def gen_code():
    """function bodies (slice, adjust_slice_endpoint, get_index, get_negative_index, the Index arm, validate_arity, is_truthy, get_type, compare)
    re-translated by tools/rs2lean.py into Generated/Code.lean (checked i32/usize arithmetic, checked indexing, fuel-bounded loops)"""
    import rs2lean
    try:
        return rs2lean.generate()
    except rs2lean.TieError as e:
        fail("rs2lean: broken tie: %s" % e)
    except (IndexError, KeyError, TypeError, ValueError, AssertionError, RecursionError, StopIteration) as e:
        fail("rs2lean: broken tie: the source could not be processed (%s: %s)" % (type(e).__name__, e))


def gen_interp_code():
    """the whole `interpret` function of interpreter.rs (all 18 arms, every loop) re-translated by tools/rs2lean.py into Generated/InterpCode.lean"""
    import rs2lean
    try:
        return rs2lean.generate_interp()
    except rs2lean.TieError as e:
        fail("rs2lean (interpret): broken tie: %s" % e)
    except (IndexError, KeyError, TypeError, ValueError, AssertionError, RecursionError, StopIteration) as e:
        fail("rs2lean (interpret): broken tie: the source could not be processed (%s: %s)" % (type(e).__name__, e))


def gen_valid_code():
    """ArgumentType::is_valid, Signature::validate / validate_arg / validate_arity, the Display impls of ArgumentType / JmespathType, float_eq,
    PartialEq and Ord for Variable re-translated by tools/rs2lean.py into Generated/ValidCode.lean"""
    import rs2lean
    try:
        return rs2lean.generate_valid()
    except rs2lean.TieError as e:
        fail("rs2lean (validator / equality): broken tie: %s" % e)
    except (IndexError, KeyError, TypeError, ValueError, AssertionError, RecursionError, StopIteration) as e:
        fail("rs2lean (validator / equality): broken tie: the source could not be processed (%s: %s)" % (type(e).__name__, e))


def main():
    """Each generator writes one file.  A generator that cannot read its region of the source does not stop the others: its file is replaced by a
    stub that does not elaborate, so exactly the Lean modules that depend on that region (and the properties whose theorems import them) lose their
    proof obligation; everything else is translated and checked as usual."""
    ch, broken = [], []
    for name, fn in (("Lbp.lean", gen_lbp), ("Signatures.lean", gen_sigs), ("Features.lean", gen_features), ("LexTable.lean", gen_lextable), ("Vocab.lean", gen_vocab), ("CliArgs.lean", gen_cli), ("Code.lean", gen_code), ("InterpCode.lean", gen_interp_code), ("ValidCode.lean", gen_valid_code)):
        try:
            content = fn()
        except Broken as e:
            broken.append((name, str(e)))
            msg = str(e).replace("-/", "- /")
            content = ("/- BROKEN TIE: tools/translate.py could not translate the region of the source this file is generated from:\n   %s -/\n"
                       "#check (BROKEN_TIE_%s : Nat)   -- deliberately does not elaborate\n" % (msg, name.split(".")[0]))
        if write_if_changed(name, content):
            ch.append(name)
    print("translate: " + ("rewrote " + ", ".join(ch) if ch else "unchanged"))
    for name, msg in broken:
        sys.stderr.write("translate.py: BROKEN TIE in %s: %s\n" % (name, msg))
    # exit status 0: a broken tie shows as a failed `lake build` of exactly the modules that import the stub
    # (the message above is kept in the obligation's detail)


if __name__ == "__main__":
    main()
