#!/usr/bin/env python3
"""Harmless-rewrite regression (DESIGN §12): semantics-preserving edits of /repo kept under harmless/<name>/patch.diff.
  harmless.py run <name> [C07,C05]   apply the patch to /repo, build + run the repo's own suite (must pass), run the named quick checks
                                     (default: the ones listed in harmless/<name>/props) — every one must exit 0 — and restore /repo.
  harmless.py runall
A check that raises an alarm on one of these is a false alarm to be corrected in the machinery."""
import os, subprocess, sys
V = os.path.dirname(os.path.dirname(os.path.abspath(__file__)))
H = os.path.join(V, "harmless")
ENV = dict(os.environ, CARGO_NET_OFFLINE="true")


def sh(cmd, cwd=None):
    p = subprocess.run(cmd, cwd=cwd, env=ENV, stdout=subprocess.PIPE, stderr=subprocess.STDOUT, text=True, shell=isinstance(cmd, str))
    return p.returncode, p.stdout


def run(name, props=None):
    d = os.path.join(H, name)
    props = props or open(os.path.join(d, "props")).read().split()
    rc, out = sh(["git", "-C", "/repo", "status", "--porcelain", "--untracked-files=no"])
    assert out.strip() == "", "/repo not clean"
    ok = True
    saved = {p: open(os.path.join(V, "evidence", p + ".json")).read() for p in props if os.path.exists(os.path.join(V, "evidence", p + ".json"))}
    try:
        rc, out = sh(["git", "-C", "/repo", "apply", os.path.join(d, "patch.diff")])
        assert rc == 0, out
        if "--no-suite" not in sys.argv:
            rc, out = sh("cargo test --offline 2>&1 | grep -E '^test result|^error' | head", cwd="/repo/jmespath")
            if "FAILED" in out or "error" in out or out.count("test result: ok") < 3:
                print(f"{name}: the repo's own suite does not pass with this patch — not a harmless rewrite\n{out}")
                return False
        for p in props:
            rc, out = sh([sys.executable, os.path.join(V, "tools", "check.py"), p, "--tier", "quick"], cwd=V)
            vio = [l for l in out.splitlines() if l.startswith("VIOLATION")]
            print(f"{name} vs {p}: {'quiet' if rc == 0 and not vio else 'FALSE ALARM'} rc={rc} {vio[0] if vio else ''}")
            ok = ok and rc == 0 and not vio
    finally:
        sh(["git", "-C", "/repo", "checkout", "--", "."])
        sh([sys.executable, os.path.join(V, "tools", "translate.py")], cwd=V)
        for p, txt in saved.items():
            open(os.path.join(V, "evidence", p + ".json"), "w").write(txt)
    return ok


if __name__ == "__main__":
    a = [x for x in sys.argv[1:] if not x.startswith("--")]
    if a[0] == "run":
        sys.exit(0 if run(a[1], a[2].split(",") if len(a) > 2 else None) else 1)
    if a[0] == "runall":
        bad = [n for n in sorted(os.listdir(H)) if os.path.isdir(os.path.join(H, n)) and not run(n)]
        print("false alarms:", bad)
        sys.exit(1 if bad else 0)
