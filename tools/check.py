#!/usr/bin/env python3
"""check.py <PROPERTY> [--tier quick|thorough] [--replay FILE]

One run = translate → prove (lake build + axiom audit) → build the implementation from /repo's
working tree → correspondence (model driver vs implementation harness on the same cases)
→ property oracles → decide → evidence.  Exit 0 = property shown and nothing found;
exit 1 + `VIOLATION property=<id> replay=<path>` otherwise.  See DESIGN.md §2."""
import argparse
import importlib
import json
import os
import random
import sys
import time
import traceback

sys.path.insert(0, os.path.dirname(os.path.abspath(__file__)))
import common as C  # noqa: E402


class Ctx:
    def __init__(self, prop, tier, seed):
        self.prop, self.tier, self.seed = prop, tier, seed
        self.rng = random.Random(seed)
        self.violations = []      # payload dicts with a concrete failing input
        self.broken = []          # payload dicts: proof obligation / correspondence no longer checks
        self.known_hits = {}      # finding id -> description (printed as KNOWN-FINDING)
        self.coverage = {}
        self.samples = []
        self.evaluations = 0
        self.nontrivial = set()
        self.harness = None
        self.driver = C.DRIVER
        self.known = [k for k in C.load_known() if k.get("property") == prop]

    # a concrete input on which the property fails in the implementation
    def violation(self, stream, case, impl, expected, note=""):
        self.violations.append(dict(stream=stream, case=case, implementation=impl, expected=expected, note=note))

    # model and implementation (or proof) disagree, but the property's oracle does not condemn the input
    def tie_broken(self, what, detail):
        self.broken.append(dict(theorem_or_stream_broken=what, detail=detail))

    def known_hit(self, fid, text):
        self.known_hits[fid] = text


def main():
    sys.setrecursionlimit(200000)      # the checker walks documents nested thousands deep (C05 / C11 probes)
    import threading
    threading.stack_size(512 * 1024 * 1024)
    t = threading.Thread(target=_main)
    t.start()
    t.join()
    sys.exit(EXIT[0])


EXIT = [1]


def _main():
    ap = argparse.ArgumentParser()
    ap.add_argument("prop")
    ap.add_argument("--tier", default=os.environ.get("VERIF_TIER", "quick"))
    ap.add_argument("--replay")
    args = ap.parse_args()
    tier = args.tier if args.tier in ("quick", "thorough") else "quick"
    seed = int(os.environ.get("VERIF_SEED", "20260929"))
    prop = args.prop
    t0 = time.time()
    mod = importlib.import_module(f"props.{prop.lower()}")
    ctx = Ctx(prop, tier, seed)
    ctx.replay = json.load(open(args.replay)) if args.replay else None
    obligations = []   # (name, ok, detail)

    # 1. translate ------------------------------------------------------------------------
    ok, out = C.translate()
    obligations.append(("translate:/repo source -> Generated/*.lean", ok, out[-2000:] if not ok else ""))

    # 2. prove ----------------------------------------------------------------------------
    ok_build, out = C.lake_build([mod.MODULE, "jmdriver"])
    driver_ok = os.path.exists(C.DRIVER)
    if not ok_build:
        # is it the driver or the proofs?
        okd, outd = C.lake_build(["jmdriver"])
        driver_ok = okd
        okp, outp = C.lake_build([mod.MODULE])
        obligations.append((f"lake build {mod.MODULE}", okp, outp[-3000:] if not okp else ""))
        if not okd:
            obligations.append(("lake build jmdriver", False, outd[-3000:]))
        axioms = {}
    else:
        obligations.append((f"lake build {mod.MODULE}", True, ""))
        okx, outx, axioms = C.prop_axioms(mod.MODULE)
        if not okx:
            obligations.append((f"lean {mod.MODULE} (#print axioms)", False, outx[-3000:]))
    for thm in mod.THEOREMS:
        full = thm if thm.startswith("JmesVerif.") else "JmesVerif." + thm
        if full not in axioms:
            obligations.append((f"theorem {full}", False, "not found / not checked"))
        else:
            bad = [a for a in axioms[full] if a not in C.ALLOWED_AXIOMS]
            obligations.append((f"theorem {full}", not bad, f"axioms: {axioms[full]}"))
    hits = C.audit_sources()
    obligations.append(("audit: no sorry/admit/axiom/native_decide/bv_decide/implemented_by/unsafe", not hits,
                        "; ".join(hits[:10])))
    if tier == "thorough" and ok_build:
        rc, outc = C.sh(["lake", "env", "leanchecker", mod.MODULE], cwd=C.LEAN, timeout=3600)
        obligations.append((f"leanchecker {mod.MODULE}", rc == 0, outc[-1500:] if rc else ""))

    # 3. build the implementation from the working tree ----------------------------------
    okc, outc, binpath = C.cargo_build()
    ctx.harness = binpath
    if not okc:
        # the harness not compiling against /repo is itself a broken tie
        obligations.append(("cargo build vharness against /repo", False, outc[-3000:]))

    # 4./5. correspondence + oracles ---------------------------------------------------------
    if okc and driver_ok:
        try:
            mod.run(ctx)
        except Exception:
            obligations.append(("check machinery", False, traceback.format_exc()[-3000:]))
    elif okc and hasattr(mod, "run_impl_only"):
        mod.run_impl_only(ctx)

    # 6. decide -------------------------------------------------------------------------------
    failed_obl = [o for o in obligations if not o[1]]
    for o in failed_obl:
        ctx.tie_broken(o[0], o[2])
    exit_code = 0
    for fid, text in sorted(ctx.known_hits.items()):
        C.log(f"KNOWN-FINDING: property={prop} {fid}: {text}")
    seen = set()
    for v in ctx.violations:
        key = json.dumps(v.get("case"), sort_keys=True)
        if key in seen:
            continue
        seen.add(key)
        if len(seen) > 5:
            break
        path = C.write_replay(prop, "failing-input", dict(v, how_to_replay=f"python3 tools/check.py {prop} --replay <this file>"))
        C.log(f"VIOLATION property={prop} replay={path}")
        exit_code = 1
    if not ctx.violations and ctx.broken:
        path = C.write_replay(prop, "no-failing-input-found", dict(broken=ctx.broken[:10]))
        C.log(f"VIOLATION property={prop} replay={path} no-failing-input-found")
        exit_code = 1

    # 7. evidence -------------------------------------------------------------------------------
    wall = time.time() - t0
    cov = dict(
        obligations=len(obligations),
        discharged=sum(1 for o in obligations if o[1]),
        obligation_list=[dict(name=o[0], ok=o[1], detail=o[2][:300]) for o in obligations],
        checker_cmd=f"cd lean && lake build {mod.MODULE} && lake env lean {mod.MODULE.replace('.', '/')}.lean  # #print axioms; "
                    + ("lake env leanchecker " + mod.MODULE if tier == "thorough" else "thorough tier adds leanchecker"),
        trusted_base=mod.TRUSTED_BASE,
        evaluations=ctx.evaluations,
        distinct_nontrivial=len(ctx.nontrivial),
        rule=getattr(mod, "RULE", ""),
        samples=ctx.samples[:8],
        known_findings_printed=sorted(ctx.known_hits),
    )
    cov.update(ctx.coverage)
    C.write_evidence(prop, tier, seed, "proof", cov, mod.ASSUMPTIONS, wall, len(ctx.violations) + (1 if (not ctx.violations and ctx.broken) else 0))
    C.log(f"{prop} {tier}: obligations {cov['discharged']}/{cov['obligations']}, cases {ctx.evaluations}, "
          f"violations {len(ctx.violations)}, broken ties {len(ctx.broken)}, {wall:.1f}s")
    EXIT[0] = exit_code


if __name__ == "__main__":
    main()
