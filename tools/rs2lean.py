#!/usr/bin/env python3
"""rs2lean.py — translate the bodies of a few Rust functions of jmespath.rs into Lean 4.

`translate.py` re-extracts table-shaped parts of the code.  This script goes one step further for a
small, first-order subset of Rust: it tokenizes the source files, finds the target functions, parses
their bodies with a recursive-descent parser and emits a *shallow embedding* of each body into
`lean/JmesVerif/Generated/Code.lean`.  `Lemmas/CodeEquiv.lean` then proves the generated definitions
equal to the hand-written model (`Model/Slice.lean`, `Model/Value.lean`, `Model/Compare.lean`,
`Model/Interp.lean`), so the model is tied to what the source says *now* by a proof re-checked on
every run, not only by differential testing.

Semantics of the embedding (nothing is silently totalised):
  * `i32` values are `Int`; every `+`, `-`, unary `-`, `+=`, `-=` is a checked operation returning
    `Except Fault Int` (`Fault.overflow` outside [-2^31, 2^31-1] — overflow checks on);
    `saturating_add` clamps.  `usize` values are `Nat`, with checked `-` (underflow) and `+` (2^64-1).
  * `x as usize` / `n as i32` are the named wrapping casts `castI32ToUsize` / `castUsizeToI32`.
  * `a[e]` is a checked lookup (`Fault.outOfBounds`), `a.get(e)` is `a[e]?`.
  * `while c { body }` becomes an auxiliary function recursive on a fuel argument (`Fault.fuel`);
    a function that contains a loop takes the fuel as its first parameter.
  * `Vec::push` is list accumulation, `.clone()`/`&`/`*` are the identity, `return e;` and tail
    expressions, `let`/`let mut`/shadowing, `if`/`else if`/`else` (expression and statement),
    `if let`, `match` on `Option`/enums with guards and `_`, `max`/`min`.
Anything else makes the script exit non-zero ("broken tie", DESIGN §2.3).

Second target (`generate_interp()`, class `InterpGen`): the *whole* `pub fn interpret(data, node, ctx)` of
interpreter.rs -> `lean/JmesVerif/Generated/InterpCode.lean` (namespace `JmesVerif.Generated.InterpCode`), proved equal
to the hand model `interp` by `Lemmas/InterpEquiv.lean`.  Additional Rust constructs: struct patterns with `ref` / `..`,
`?`, `Ok`/`Err`, `for x in xs { .. }`, `match e.as_array()`, `match *v { Variable::X(ref p) => .. }`, `if let`,
`.map_or(a, |x| b)`, reads and assignments of `ctx.offset`, method chains of a fixed idiom table.  The translation
scheme (offset register threaded, fuel, one function per loop, continuation-passing translation of control flow) and
the idiom table are spelled out in `INTERP_HEADER` below, which is copied into the generated file.

Third target (`generate_valid()`, class `VGen`): `ArgumentType::is_valid`, `impl Display for ArgumentType` / `JmespathType`,
`Signature::validate_arity` / `validate_arg` / `validate` (both `for (k, v) in args.iter().enumerate()` loops, the checked
`self.inputs[k]`), the `Variable::as_*` / `is_*` accessors, `float_eq`, `impl PartialEq for Variable` (`eq`) and `impl Ord for
Variable` (`cmp`) -> `lean/JmesVerif/Generated/ValidCode.lean` (namespace `JmesVerif.Generated.ValidCode`), proved equal to the
hand model (`ArgT.isValid`, `ArgT.name`, `JType.name`, `Sig.validate`, `floatEq`, `Val.beq`, `Val.cmp`) by
`Lemmas/ValidEquiv.lean`.  Additional constructs: `use` inside a body, tuple expressions under `match` / `if let`, match guards
compiled per constructor, `matches!`, `write!` with `{}`, struct expressions of `RuntimeError`, closures under
`.all/.any/.map/.zip(..).all/.map_or`, `f64` arithmetic on the soft-float model.  Scheme and idiom table: `VALID_HEADER` below
(copied into the generated file).

Usage: `python3 rs2lean.py` writes Generated/Code.lean, Generated/InterpCode.lean and Generated/ValidCode.lean (only if the
content changed) and prints nothing on success.  `generate()` / `generate_interp()` / `generate_valid()` return the texts.
Sources: `$VERIF_SRC`, else `$VERIF_REPO/jmespath/src`, else /repo/jmespath/src.  (`$RS2LEAN_INTERP_OUT` / `$RS2LEAN_VALID_OUT`
redirect the second / third output; for experiments.)
"""
import hashlib
import os
import sys

REPO = os.environ.get("VERIF_REPO", "/repo")


def src_dir():
    return os.environ.get("VERIF_SRC") or os.path.join(os.environ.get("VERIF_REPO", REPO), "jmespath", "src")


OUT = os.path.join(os.path.dirname(os.path.dirname(os.path.abspath(__file__))), "lean", "JmesVerif", "Generated",
                   "Code.lean")


class TieError(Exception):
    pass


def fail(msg, tok=None, fname=None):
    where = ""
    if tok is not None:
        where = f" (line {tok.line})"
    if fname:
        where = f" in {fname}" + where
    raise TieError(msg + where)


# ----------------------------------------------------------------------------------------------
# Tokenizer
# ----------------------------------------------------------------------------------------------
class Tok:
    __slots__ = ("kind", "text", "line")

    def __init__(self, kind, text, line):
        self.kind, self.text, self.line = kind, text, line

    def __repr__(self):
        return f"{self.kind}:{self.text}@{self.line}"


PUNCT = ["..=", "...", "::", "->", "=>", "==", "!=", "<=", ">=", "&&", "||", "+=", "-=", "*=", "/=", "%=", "^=",
         "&=", "|=", ".."] + list("+-*/%^!&|=<>@.,;:#$?~(){}[]")


def tokenize(s, fname="?"):
    toks, i, n, line = [], 0, len(s), 1
    while i < n:
        c = s[i]
        if c == "\n":
            line += 1
            i += 1
        elif c.isspace():
            i += 1
        elif s.startswith("//", i):
            j = s.find("\n", i)
            i = n if j < 0 else j
        elif s.startswith("/*", i):
            depth, j = 1, i + 2
            while j < n and depth:
                if s.startswith("/*", j):
                    depth += 1
                    j += 2
                elif s.startswith("*/", j):
                    depth -= 1
                    j += 2
                else:
                    if s[j] == "\n":
                        line += 1
                    j += 1
            i = j
        elif c.isalpha() or c == "_":
            j = i
            while j < n and (s[j].isalnum() or s[j] == "_"):
                j += 1
            word = s[i:j]
            # raw / byte strings
            if word in ("r", "br") and j < n and s[j] in "#\"":
                k, hashes = j, 0
                while k < n and s[k] == "#":
                    hashes += 1
                    k += 1
                if k < n and s[k] == '"':
                    end = s.find('"' + "#" * hashes, k + 1)
                    if end < 0:
                        raise TieError(f"unterminated raw string in {fname} line {line}")
                    text = s[i:end + 1 + hashes]
                    toks.append(Tok("str", text, line))
                    line += text.count("\n")
                    i = end + 1 + hashes
                    continue
            if word == "b" and j < n and s[j] in "\"'":
                i = j  # byte string / byte char: drop the prefix, lex the literal
                continue
            toks.append(Tok("id", word, line))
            i = j
        elif c.isdigit():
            j = i
            while j < n and (s[j].isalnum() or s[j] == "_"):
                j += 1
            toks.append(Tok("num", s[i:j], line))
            i = j
        elif c == '"':
            j = i + 1
            while j < n and s[j] != '"':
                j += 2 if s[j] == "\\" else 1
            text = s[i:j + 1]
            toks.append(Tok("str", text, line))
            line += text.count("\n")
            i = j + 1
        elif c == "'":
            # char literal or lifetime
            if i + 1 < n and s[i + 1] == "\\":
                j = s.find("'", i + 3)
                toks.append(Tok("char", s[i:j + 1], line))
                i = j + 1
            elif i + 2 < n and s[i + 2] == "'":
                toks.append(Tok("char", s[i:i + 3], line))
                i += 3
            else:
                j = i + 1
                while j < n and (s[j].isalnum() or s[j] == "_"):
                    j += 1
                toks.append(Tok("life", s[i:j], line))
                i = j
        else:
            for p in PUNCT:
                if s.startswith(p, i):
                    toks.append(Tok("p", p, line))
                    i += len(p)
                    break
            else:
                raise TieError(f"cannot tokenize {c!r} in {fname} line {line}")
    toks.append(Tok("eof", "", line))
    return toks


# ----------------------------------------------------------------------------------------------
# Item scanner: where are the `fn`s, `enum`s and `struct`s of a file
# ----------------------------------------------------------------------------------------------
class SourceFile:
    def __init__(self, name):
        self.name = name
        path = os.path.join(src_dir(), name)
        try:
            self.text = open(path, encoding="utf-8").read()
        except OSError as e:
            raise TieError(f"cannot read {path}: {e}")
        self.toks = tokenize(self.text, name)
        self.fns = []      # (impl type name or None, fn name, index of `fn`)
        self.arm_lines = {}  # id(pattern of a match arm) -> (first line, last line)
        self.enums = {}    # name -> index of `enum`
        self.structs = {}  # name -> index of `struct`
        self._scan()

    def match_close(self, i):
        """index of the bracket closing the one at i"""
        pairs = {"(": ")", "[": "]", "{": "}"}
        op = self.toks[i].text
        cl = pairs[op]
        depth = 0
        while True:
            t = self.toks[i]
            if t.kind == "eof":
                raise TieError(f"unbalanced {op} in {self.name}")
            if t.kind == "p":
                if t.text == op:
                    depth += 1
                elif t.text == cl:
                    depth -= 1
                    if depth == 0:
                        return i
            i += 1

    def body_open(self, i):
        """index of the `{` opening the body of the item whose keyword is at i (or of `;`)"""
        while True:
            t = self.toks[i]
            if t.kind == "eof":
                raise TieError(f"item without body in {self.name}")
            if t.kind == "p" and t.text in ("(", "["):
                i = self.match_close(i) + 1
                continue
            if t.kind == "p" and t.text in ("{", ";"):
                return i
            i += 1

    def _scan(self):
        toks = self.toks
        stack = []  # (closing index, impl name)
        i = 0
        while toks[i].kind != "eof":
            t = toks[i]
            while stack and i > stack[-1][0]:
                stack.pop()
            if t.kind == "id" and t.text == "impl":
                j = self.body_open(i)
                if toks[j].text == "{":
                    hdr = toks[i + 1:j]
                    names, depth, after_for = [], 0, None
                    for k, h in enumerate(hdr):
                        if h.kind == "p" and h.text == "<":
                            depth += 1
                        elif h.kind == "p" and h.text == ">":
                            depth -= 1
                        elif depth == 0 and h.kind == "id":
                            if h.text == "for":
                                after_for = len(names)
                            elif h.text == "where":
                                break
                            else:
                                names.append(h.text)
                    if after_for is not None and after_for < len(names):
                        name = names[after_for]
                    else:
                        name = names[-1] if names else None
                    stack.append((self.match_close(j), name))
                    i = j + 1
                    continue
            if t.kind == "id" and t.text == "fn" and toks[i + 1].kind == "id":
                impl = stack[-1][1] if stack else None
                self.fns.append((impl, toks[i + 1].text, i))
                j = self.body_open(i)
                i = (self.match_close(j) if toks[j].text == "{" else j) + 1
                continue
            if t.kind == "id" and t.text in ("enum", "struct") and toks[i + 1].kind == "id":
                (self.enums if t.text == "enum" else self.structs)[toks[i + 1].text] = i
            i += 1

    def find_fn(self, impl, name, free_only=False):
        hits = [f for f in self.fns if f[1] == name and (f[0] == impl if (impl or free_only) else True)]
        if len(hits) != 1:
            raise TieError(f"expected exactly one `fn {name}`" + (f" in impl {impl}" if impl else "") +
                           f" in {self.name}, found {len(hits)}")
        return hits[0][2]


# ----------------------------------------------------------------------------------------------
# Parser (Rust subset) — AST nodes are tuples, first component the kind
# ----------------------------------------------------------------------------------------------
BINPREC = {"||": 1, "&&": 2, "==": 3, "!=": 3, "<": 3, ">": 3, "<=": 3, ">=": 3, "|": 4, "^": 5, "&": 6,
           "+": 8, "-": 8, "*": 9, "/": 9, "%": 9}


class Parser:
    def __init__(self, sf, pos):
        self.sf, self.toks, self.i = sf, sf.toks, pos

    # -- helpers
    def peek(self, k=0):
        return self.toks[self.i + k]

    def at(self, text, k=0):
        t = self.toks[self.i + k]
        return t.kind in ("p", "id") and t.text == text

    def eat(self, text):
        if self.at(text):
            self.i += 1
            return True
        return False

    def expect(self, text):
        if not self.eat(text):
            fail(f"unsupported syntax: expected `{text}`, found `{self.peek().text}`", self.peek(), self.sf.name)

    def ident(self):
        t = self.peek()
        if t.kind != "id":
            fail(f"unsupported syntax: expected an identifier, found `{t.text}`", t, self.sf.name)
        self.i += 1
        return t.text

    def skip_attrs(self):
        while self.at("#"):
            self.i += 1
            self.eat("!")
            if not self.at("["):
                fail("malformed attribute", self.peek(), self.sf.name)
            self.i = self.sf.match_close(self.i) + 1

    # -- types
    def ty(self):
        if self.eat("&"):
            if self.peek().kind == "life":
                self.i += 1
            self.eat("mut")
            return ("ref", self.ty())
        if self.at("&&"):
            self.i += 1
            return ("ref", ("ref", self.ty()))
        if self.eat("["):
            inner = self.ty()
            if self.eat(";"):
                self.expr()
            self.expect("]")
            return ("slice", inner)
        if self.eat("("):
            items = []
            while not self.at(")"):
                items.append(self.ty())
                if not self.eat(","):
                    break
            self.expect(")")
            return ("unit",) if not items else ("tuple", items)
        segs = [self.ident()]
        args = []
        while True:
            if self.at("::") and self.peek(1).kind == "id":
                self.i += 1
                segs.append(self.ident())
            elif self.at("<") or (self.at("::") and self.at("<", 1)):
                self.eat("::")
                self.expect("<")
                while not self.at(">"):
                    if self.peek().kind == "life":
                        self.i += 1
                    else:
                        args.append(self.ty())
                    if not self.eat(","):
                        break
                self.expect(">")
            else:
                break
        return ("path", segs[-1], args)

    # -- patterns
    def pattern(self):
        p = self.pattern1()
        if self.at("|"):
            alts = [p]
            while self.eat("|"):
                alts.append(self.pattern1())
            return ("or", alts)
        return p

    def pattern1(self):
        t = self.peek()
        if self.eat("_"):
            return ("wild",)
        if self.eat("&"):
            self.eat("mut")
            return self.pattern1()
        if t.kind == "num":
            self.i += 1
            return ("lit", t.text)
        if t.kind in ("char", "str"):
            self.i += 1
            return ("lit", t.text)
        if self.at("-") and self.peek(1).kind == "num":
            self.i += 2
            return ("lit", "-" + self.peek(-1).text)
        if self.eat("("):
            items = []
            while not self.at(")"):
                items.append(self.pattern())
                if not self.eat(","):
                    break
            self.expect(")")
            return ("tuple", items)
        byref = self.eat("ref")
        mut = self.eat("mut")
        segs = [self.ident()]
        while self.at("::"):
            self.i += 1
            segs.append(self.ident())
        if byref or mut:
            if len(segs) != 1:
                fail("malformed binding pattern", t, self.sf.name)
            return ("bind", segs[0])
        if self.eat("("):
            items = []
            while not self.at(")"):
                items.append(self.pattern())
                if not self.eat(","):
                    break
            self.expect(")")
            return ("tstruct", segs, items)
        if self.at("{"):
            self.i += 1
            fields, rest = [], False
            while not self.at("}"):
                if self.eat(".."):
                    rest = True
                    break
                self.eat("ref")
                self.eat("mut")
                f = self.ident()
                fields.append((f, self.pattern() if self.eat(":") else ("bind", f)))
                if not self.eat(","):
                    break
            self.expect("}")
            return ("pstruct", segs, fields, rest)
        if len(segs) == 1 and not segs[0][0].isupper():
            return ("bind", segs[0])
        return ("ppath", segs)

    # -- expressions
    def expr(self, nostruct=False):
        lhs = self.binary(0, nostruct)
        for op in ("=", "+=", "-=", "*=", "/=", "%="):
            if self.at(op):
                tok = self.peek()
                self.i += 1
                rhs = self.expr(nostruct)
                if op not in ("=", "+=", "-="):
                    fail(f"unsupported operator `{op}`", tok, self.sf.name)
                return ("assign", op, lhs, rhs, tok.line)
        return lhs

    def binary(self, minprec, nostruct):
        lhs = self.unary(nostruct)
        while True:
            t = self.peek()
            if t.kind == "p" and t.text in BINPREC and BINPREC[t.text] > minprec:
                # `a < b` vs generic: we never parse generics in expression position except after `::`
                self.i += 1
                rhs = self.binary(BINPREC[t.text], nostruct)
                lhs = ("binary", t.text, lhs, rhs, t.line)
            else:
                return lhs

    def unary(self, nostruct):
        t = self.peek()
        if t.kind == "p" and t.text in ("-", "!", "*", "&"):
            self.i += 1
            if t.text == "&":
                self.eat("mut")
            return ("unary", t.text, self.unary(nostruct), t.line)
        if self.at("&&"):
            self.i += 1
            return ("unary", "&", ("unary", "&", self.unary(nostruct), t.line), t.line)
        e = self.postfix(nostruct)
        while self.at("as"):
            self.i += 1
            e = ("cast", e, self.ty(), t.line)
        return e

    def args(self):
        self.expect("(")
        items = []
        while not self.at(")"):
            items.append(self.expr())
            if not self.eat(","):
                break
        self.expect(")")
        return items

    def postfix(self, nostruct):
        e = self.primary(nostruct)
        while True:
            t = self.peek()
            if self.at("."):
                self.i += 1
                nt = self.peek()
                if nt.kind == "num":
                    fail("tuple field access is outside the subset", nt, self.sf.name)
                name = self.ident()
                targs = None
                if self.at("::"):
                    if not self.at("<", 1):
                        fail("turbofish is outside the subset", self.peek(), self.sf.name)
                    self.i += 2
                    targs = []
                    while not self.at(">"):
                        targs.append(self.ty())
                        if not self.eat(","):
                            break
                    self.expect(">")
                    if not self.at("("):
                        fail("turbofish without a call is outside the subset", self.peek(), self.sf.name)
                if self.at("("):
                    e = ("mcall", e, name, self.args(), t.line) if targs is None else \
                        ("mcall", e, name, self.args(), t.line, targs)
                else:
                    e = ("field", e, name, t.line)
            elif self.at("("):
                e = ("call", e, self.args(), t.line)
            elif self.at("["):
                self.i += 1
                idx = self.expr()
                self.expect("]")
                e = ("index", e, idx, t.line)
            elif self.at("?"):
                self.i += 1
                e = ("try", e, t.line)
            else:
                return e

    def block(self):
        self.expect("{")
        stmts, tail = [], None
        while not self.at("}"):
            self.skip_attrs()
            if self.eat(";"):
                continue
            t = self.peek()
            if self.at("use") and self.peek(1).kind == "id":
                while not self.at(";"):          # `use path::to::names;` inside a body: name resolution only
                    if self.peek().kind == "eof":
                        fail("unterminated `use`", t, self.sf.name)
                    self.i += 1
                self.i += 1
                continue
            if self.eat("let"):
                pat = self.pattern()
                ty = self.ty() if self.eat(":") else None
                init = self.expr() if self.eat("=") else None
                self.expect(";")
                stmts.append(("let", pat, ty, init, t.line))
                continue
            e = self.expr()
            if self.eat(";"):
                stmts.append(("expr", e, t.line))
            elif self.at("}"):
                tail = e
            elif e[0] in ("if", "match", "while", "block", "for"):
                stmts.append(("expr", e, t.line))
            else:
                fail(f"unsupported syntax: expected `;` or `}}`, found `{self.peek().text}`", self.peek(),
                     self.sf.name)
        self.expect("}")
        return ("block", stmts, tail)

    def if_expr(self):
        t = self.peek()
        self.expect("if")
        if self.eat("let"):
            pat = self.pattern()
            self.expect("=")
            cond = ("letcond", pat, self.expr(nostruct=True))
        else:
            cond = self.expr(nostruct=True)
        then = self.block()
        els = None
        if self.eat("else"):
            els = self.if_expr() if self.at("if") else self.block()
        return ("if", cond, then, els, t.line)

    def primary(self, nostruct):
        t = self.peek()
        if t.kind == "num":
            self.i += 1
            txt = t.text.replace("_", "")
            suffix = None
            for s in ("i32", "usize", "i64", "u64", "u32", "isize", "u8", "i8", "u16", "i16"):
                if txt.endswith(s):
                    suffix, txt = s, txt[:-len(s)]
                    break
            if not txt.isdigit():
                fail(f"unsupported numeric literal `{t.text}`", t, self.sf.name)
            return ("int", int(txt), suffix, t.line)
        if t.kind in ("str", "char"):
            self.i += 1
            return ("lit", t.text, t.line)
        if self.eat("("):
            if self.eat(")"):
                return ("unit",)
            e = self.expr()
            if self.at(","):
                items = [e]
                while self.eat(","):
                    if self.at(")"):
                        break
                    items.append(self.expr())
                self.expect(")")
                return ("tuple", items, t.line)
            self.expect(")")
            return e
        if self.at("{"):
            return self.block()
        if self.at("if"):
            return self.if_expr()
        if self.eat("while"):
            if self.at("let"):
                fail("`while let` is outside the subset", t, self.sf.name)
            cond = self.expr(nostruct=True)
            body = self.block()
            return ("while", cond, body, t.line, self.peek(-1).line)
        if self.eat("match"):
            scrut = self.expr(nostruct=True)
            self.expect("{")
            arms = []
            while not self.at("}"):
                self.skip_attrs()
                self.eat("|")
                l0 = self.peek().line
                pat = self.pattern()
                guard = self.expr() if self.eat("if") else None
                self.expect("=>")
                body = self.expr()
                arms.append((pat, guard, body))
                self.sf.arm_lines[id(pat)] = (l0, self.peek(-1).line)
                if not self.eat(",") and not self.at("}"):
                    if body[0] not in ("block", "if", "match"):
                        fail("unsupported syntax in match arm", self.peek(), self.sf.name)
            self.expect("}")
            return ("match", scrut, arms, t.line)
        if self.eat("return"):
            if self.at(";") or self.at("}"):
                return ("return", None, t.line)
            return ("return", self.expr(), t.line)
        if self.eat("for"):
            pat = self.pattern1()
            self.expect("in")
            it = self.expr(nostruct=True)
            body = self.block()
            return ("for", pat, it, body, t.line, self.peek(-1).line)
        if t.kind == "id" and t.text in ("loop", "break", "continue", "unsafe", "move", "async"):
            fail(f"`{t.text}` is outside the subset", t, self.sf.name)
        if self.at("||"):
            fail("closures without parameters are outside the subset", t, self.sf.name)
        if self.eat("|"):
            params = []
            while not self.at("|"):
                params.append(self.pattern1())
                if self.eat(":"):
                    self.ty()
                if not self.eat(","):
                    break
            self.expect("|")
            if self.at("->"):
                fail("closures with a return type are outside the subset", t, self.sf.name)
            return ("closure", params, self.expr(), t.line)
        if t.kind == "id":
            if t.text in ("true", "false"):
                self.i += 1
                return ("bool", t.text == "true")
            segs = [self.ident()]
            while self.at("::"):
                self.i += 1
                if self.at("<"):
                    fail("turbofish is outside the subset", self.peek(), self.sf.name)
                segs.append(self.ident())
            if self.at("!"):
                if self.peek(1).kind == "p" and self.peek(1).text in ("(", "[", "{") and not self.at("=", 1):
                    self.i += 1
                    close = self.sf.match_close(self.i)
                    inner = self.toks[self.i + 1:close]
                    self.i = close + 1
                    return ("macro", segs[-1], inner, t.line)
            if self.at("{") and not nostruct and segs[-1][0].isupper():
                self.i += 1
                fields = []
                while not self.at("}"):
                    if self.at(".."):
                        fail("struct update syntax is outside the subset", self.peek(), self.sf.name)
                    f = self.ident()
                    fields.append((f, self.expr() if self.eat(":") else ("path", [f], t.line)))
                    if not self.eat(","):
                        break
                self.expect("}")
                return ("struct", segs, fields, t.line)
            return ("path", segs, t.line)
        fail(f"unsupported syntax: unexpected `{t.text}`", t, self.sf.name)

    # -- items
    def fn(self, header_only=False):
        start = self.peek().line
        self.expect("fn")
        name = self.ident()
        if self.at("<"):
            fail(f"generic function `{name}` is outside the subset", self.peek(), self.sf.name)
        self.expect("(")
        params = []
        while not self.at(")"):
            self.skip_attrs()
            if self.at("&") and (self.at("self", 1) or self.at("self", 2) or self.at("self", 3)):
                while not self.at("self"):
                    self.i += 1
                self.i += 1
                params.append(("self", None))
            elif self.at("self") or (self.at("mut") and self.at("self", 1)):
                self.eat("mut")
                self.i += 1
                params.append(("self", None))
            else:
                self.eat("mut")
                pname = self.ident()
                self.expect(":")
                params.append((pname, self.ty()))
            if not self.eat(","):
                break
        self.expect(")")
        ret = self.ty() if self.eat("->") else ("unit",)
        if self.at("where"):
            fail("`where` clauses are outside the subset", self.peek(), self.sf.name)
        first = self.i
        if header_only:
            if not self.at("{"):
                fail(f"fn {name} has no body", self.peek(), self.sf.name)
            return {"name": name, "params": params, "ret": ret, "toks": (first, self.sf.match_close(self.i) + 1)}
        body = self.block()
        return {"name": name, "params": params, "ret": ret, "body": body, "start": start,
                "end": self.peek(-1).line, "toks": (first, self.i)}

    def enum(self):
        """`enum Name { V, V(T, ..), V { f: T, .. }, .. }` -> [(variant, [(field or None, type)])]"""
        self.expect("enum")
        name = self.ident()
        if self.at("<"):
            fail(f"generic enum `{name}` is outside the subset", self.peek(), self.sf.name)
        start = self.peek(-2).line
        self.expect("{")
        variants = []
        while not self.at("}"):
            self.skip_attrs()
            v = self.ident()
            fields = []
            if self.eat("("):
                while not self.at(")"):
                    fields.append((None, self.ty()))
                    if not self.eat(","):
                        break
                self.expect(")")
            elif self.eat("{"):
                while not self.at("}"):
                    self.skip_attrs()
                    self.eat("pub")
                    f = self.ident()
                    self.expect(":")
                    fields.append((f, self.ty()))
                    if not self.eat(","):
                        break
                self.expect("}")
            if self.eat("="):
                self.expr()
            variants.append((v, fields))
            if not self.eat(","):
                break
        self.expect("}")
        return name, variants, start, self.peek(-1).line

    def struct(self):
        self.expect("struct")
        name = self.ident()
        if not self.at("{"):
            fail(f"struct `{name}` is not a plain record", self.peek(), self.sf.name)
        start = self.peek(-2).line
        self.expect("{")
        fields = []
        while not self.at("}"):
            self.skip_attrs()
            if self.eat("pub"):
                if self.at("("):
                    self.i = self.sf.match_close(self.i) + 1
            f = self.ident()
            self.expect(":")
            fields.append((f, self.ty()))
            if not self.eat(","):
                break
        self.expect("}")
        return name, fields, start, self.peek(-1).line


# ----------------------------------------------------------------------------------------------
# AST utilities
# ----------------------------------------------------------------------------------------------
def walk(node):
    """all sub-nodes (tuples whose first component is a string kind)"""
    if isinstance(node, tuple):
        if node and isinstance(node[0], str):
            yield node
        for c in node:
            yield from walk(c)
    elif isinstance(node, list):
        for c in node:
            yield from walk(c)


def pat_binders(p):
    out = []
    for n in walk(p):
        if n[0] == "bind":
            out.append(n[1])
    return out


def assigned_vars(node):
    """names assigned (`=`, `+=`, `-=`, `.push`) inside node"""
    out = []
    for n in walk(node):
        if n[0] == "assign" and n[2][0] == "path" and len(n[2][1]) == 1:
            out.append(n[2][1][0])
        if n[0] == "mcall" and n[2] in ("push",) and n[1][0] == "path" and len(n[1][1]) == 1:
            out.append(n[1][1][0])
    return out


def declared_vars(node):
    out = []
    for n in walk(node):
        if n[0] == "let":
            out += pat_binders(n[1])
    return out


def has_kind(node, kind):
    return any(n[0] == kind for n in walk(node))


def used_names(node):
    out = []
    for n in walk(node):
        if n[0] == "path" and len(n[1]) == 1:
            out.append(n[1][0])
    return out


# ----------------------------------------------------------------------------------------------
# Lean target IR ("computations")
# ----------------------------------------------------------------------------------------------
#  ("ret", term)                       value
#  ("let", name, leanType, term, rest) pure binding
#  ("bind", pat, mterm, rest)          monadic binding of a primitive/callee   (faults)
#  ("bindc", name, leanType, comp, rest)  binding of a nested computation
#  ("if", cond, c1, c2)
#  ("match", scrut, [(pat, comp)])
#  ("tail", mterm)                     tail call of something of type Except Fault _  (faults)
#  ("fail", fault)

def faults(c):
    k = c[0]
    if k == "ret":
        return False
    if k == "let":
        return faults(c[4])
    if k in ("bind", "tail", "fail"):
        return True
    if k == "bindc":
        return faults(c[3]) or faults(c[4])
    if k == "if":
        return faults(c[2]) or faults(c[3])
    if k == "match":
        return any(faults(b) for _, b in c[2])
    raise AssertionError(k)


def simplify(c):
    """peepholes: `let t ← m; .ok t` is `m`; `let t ← do ..; let a := t; rest` binds `a` directly"""
    k = c[0]
    if k == "ret" or k == "tail" or k == "fail":
        return c
    if k == "let":
        return ("let", c[1], c[2], c[3], simplify(c[4]))
    if k == "bind":
        rest = simplify(c[3])
        if rest == ("ret", c[1]) and c[1].isidentifier():
            return ("tail", c[2])
        return ("bind", c[1], c[2], rest)
    if k == "bindc":
        inner, rest = simplify(c[3]), simplify(c[4])
        if rest[0] == "let" and rest[3] == c[1] and rest[2] == c[2]:
            import re as _re
            later = "\n".join(render(rest[4], 0, True))
            if not _re.search(r"(?<![A-Za-z0-9_'])" + _re.escape(c[1]) + r"(?![A-Za-z0-9_'])", later):
                return ("bindc", rest[1], c[2], inner, rest[4])
        return ("bindc", c[1], c[2], inner, rest)
    if k == "if":
        return ("if", c[1], simplify(c[2]), simplify(c[3]))
    if k == "match":
        return ("match", c[1], [(p, simplify(b)) for p, b in c[2]])
    raise AssertionError(k)


def render(c, ind, monadic):
    """lines of a computation; `monadic`: the enclosing type is `Except Fault _` (inside a `do` block)"""
    pad = "  " * ind
    k = c[0]
    if k == "ret":
        return [pad + ((".ok " + atom(c[1])) if monadic else c[1])]
    if k == "let":
        ty = f" : {c[2]}" if c[2] else ""
        return [pad + f"let {c[1]}{ty} := {c[3]}"] + render(c[4], ind, monadic)
    if k == "bind":
        return [pad + f"let {c[1]} ← {c[2]}"] + render(c[3], ind, monadic)
    if k == "bindc":
        ty = f" : {c[2]}" if c[2] else ""
        if faults(c[3]):
            inner = render(c[3], ind + 1, True)
            head = pad + f"let {c[1]}{ty} ← do"
        else:
            inner = render(c[3], ind + 1, False)
            head = pad + f"let {c[1]}{ty} :="
        return [head] + inner + render(c[4], ind, monadic)
    if k == "if":
        return ([pad + f"if {c[1]} then"] + render(c[2], ind + 1, monadic) + [pad + "else"] +
                render(c[3], ind + 1, monadic))
    if k == "match":
        out = [pad + f"match {c[1]} with"]
        for p, b in c[2]:
            out.append(pad + f"| {p} =>")
            out += render(b, ind + 2, monadic)
        return out
    if k == "tail":
        return [pad + c[1]]
    if k == "fail":
        return [pad + f".error .{c[1]}"]
    raise AssertionError(k)


def atom(s):
    s = s.strip()
    if s.startswith("(") and s.endswith(")"):
        depth = 0
        for i, ch in enumerate(s):
            depth += ch == "("
            depth -= ch == ")"
            if depth == 0 and i < len(s) - 1:
                break
        else:
            return s
    if s.startswith("[") and s.endswith("]") and s.count("[") == 1:
        return s
    if all(ch.isalnum() or ch in "_.'" for ch in s) and not s.startswith("."):
        return s
    return "(" + s + ")"


LEAN_KEYWORDS = {"end", "at", "from", "fun", "by", "open", "then", "do", "in", "with", "show", "have", "type",
                 "def", "theorem", "match", "let", "if", "else", "where", "namespace", "section", "variable",
                 "instance", "structure", "inductive", "class", "import", "export", "private", "protected",
                 "mutual", "universe", "example", "axiom", "macro", "syntax", "deriving", "extends", "using",
                 "calc", "exact", "Type", "Prop", "Sort", "forall", "exists", "some", "none", "fuel", "max", "min",
                 "true", "false", "this", "return", "for", "unless", "try", "catch", "finally", "mut", "nomatch"}

TYPES = {"i32": "Int", "usize": "Nat", "bool": "Bool", "unit": "Unit", "list": "List α", "elem": "α",
         "optelem": "Option α", "view": "VariableView", "relop": "RelOp", "arity": "ArityResult"}


def lean_ty(t):
    if isinstance(t, tuple):
        if t[0] == "opt":
            return "Option " + atom(lean_ty(t[1]))
        if t[0] == "enum":
            return t[1]
        if t[0] == "olist":
            return f"List {t[1]}"
        if t[0] == "oopt":
            return f"Option {t[1]}"
    if t in TYPES:
        return TYPES[t]
    raise TieError(f"no Lean type for {t!r}")


# ----------------------------------------------------------------------------------------------
# Code generator
# ----------------------------------------------------------------------------------------------
class Ctx:
    """per-run state: generated enums, translated functions"""

    def __init__(self):
        self.files = {}
        self.fns = {}        # rust name -> dict(lean, params [(name, ty)], ret, faults, fuel)
        self.enums = {}      # rust enum name -> variants
        self.view = None     # variants of `Variable` with their payload abstraction
        self.out = []        # emitted Lean blocks
        self.digest = hashlib.sha256()
        self.regions = []

    def file(self, name):
        if name not in self.files:
            self.files[name] = SourceFile(name)
        return self.files[name]

    def add_region(self, sf, a, b):
        for t in sf.toks[a:b]:
            self.digest.update(t.text.encode() + b"\0")


class FnGen:
    def __init__(self, ctx, sf, fn, lean_name, self_mode=None, self_struct=None, ret_override=None, param_types=None,
                 ok_transparent=False, ctor_map=None):
        self.ctx, self.sf, self.fn, self.lean_name = ctx, sf, fn, lean_name
        self.self_mode = self_mode          # None | "array" | "view" | "opaque"
        self.self_struct = self_struct      # {field: ty} for `self.field`
        self.ok_transparent = ok_transparent
        self.ctor_map = ctor_map or {}
        self.loops = []                     # rendered auxiliary defs
        self.tmp = 0
        self.extra_params = []              # observation parameters discovered on the way [(lean, ty)]
        self.taken = set(used_names(fn["body"])) | set(declared_vars(fn["body"])) | {p for p, _ in fn["params"]}
        self.ret = ret_override or self.rust_ty(fn["ret"], ret=True)
        self.param_types = param_types or {}
        self.has_loop = has_kind(fn["body"], "while")

    # -- names and types
    def fresh(self, base="t"):
        while True:
            self.tmp += 1
            n = f"{base}{self.tmp}"
            if n not in self.taken:
                self.taken.add(n)
                return n

    def lname(self, rust):
        return rust + "_" if rust in LEAN_KEYWORDS else rust

    def err(self, msg, line=None):
        where = f"{self.sf.name}:{line}" if line else self.sf.name
        raise TieError(f"fn {self.fn['name']} ({where}): {msg}")

    def rust_ty(self, t, ret=False):
        if t[0] == "ref":
            return self.rust_ty(t[1], ret)
        if t[0] == "unit":
            return "unit"
        if t[0] == "slice":
            if self.rust_ty(t[1]) == "elem":
                return "list"
        if t[0] == "path":
            n, a = t[1], t[2]
            if n in ("i32", "usize", "bool"):
                return n
            if n == "Rcvar":
                return "optelem" if ret else "elem"
            if n == "Vec" and len(a) == 1 and self.rust_ty(a[0]) == "elem":
                return "list"
            if n == "Option" and len(a) == 1:
                return ("opt", self.rust_ty(a[0]))
            if n in self.ctx.enums:
                return ("enum", n)
            if n == "Variable":
                return "opaque"
            if n == "Context":
                return "ignored"
        self.err(f"type {t!r} is outside the subset")

    # -- expressions: E(e, env, exp, k) -> comp ; k(term, ty) -> comp
    def peek_ty(self, e, env):
        """type of e without generating code; None when unknown (untyped literal)"""
        k = e[0]
        if k == "int":
            return e[2] if e[2] in ("i32", "usize") else None
        if k == "bool":
            return "bool"
        if k == "path" and len(e[1]) == 1:
            if e[1][0] in env:
                return env[e[1][0]][1]
            return None
        if k == "unary":
            return "bool" if e[1] == "!" and self.peek_ty(e[2], env) in (None, "bool") else self.peek_ty(e[2], env)
        if k == "binary":
            if e[1] in ("+", "-", "*", "/", "%"):
                return self.peek_ty(e[2], env) or self.peek_ty(e[3], env)
            return "bool"
        if k == "cast":
            return self.rust_ty(e[2])
        if k == "mcall":
            if e[2] == "len":
                return "usize"
            if e[2] in ("saturating_add", "clone"):
                return self.peek_ty(e[1], env)
            if e[2] in ("is_empty", "is_some", "is_none"):
                return "bool"
            return None
        if k == "call" and e[1][0] == "path":
            n = e[1][1][-1]
            if n in ("max", "min") and len(e[2]) == 2:
                return self.peek_ty(e[2][0], env) or self.peek_ty(e[2][1], env)
            if len(e[1][1]) == 1 and n in self.ctx.fns:
                return self.ctx.fns[n]["ret"]
            return None
        if k == "index":
            return "elem"
        if k == "if":
            return self.peek_ty(e[2], env) or (self.peek_ty(e[3], env) if e[3] else None)
        if k == "block":
            return self.peek_ty(e[2], env) if e[2] else "unit"
        if k == "match":
            for _, _, b in e[2]:
                t = self.peek_ty(b, env)
                if t:
                    return t
        return None

    def as_prop(self, term, ty):
        return term if ty == "prop" else f"{atom(term)} = true"

    def as_bool(self, term, ty):
        return f"decide {atom(term)}" if ty == "prop" else term

    def E(self, e, env, exp, k):
        kind = e[0]
        if kind == "int":
            ty = e[2] or (exp if exp in ("i32", "usize") else None)
            if ty not in ("i32", "usize"):
                self.err("cannot determine the type of an integer literal", e[3])
            lim = 2147483647 if ty == "i32" else 18446744073709551615
            if e[1] > lim:
                self.err("integer literal out of range", e[3])
            return k(str(e[1]), ty)
        if kind == "bool":
            return k("true" if e[1] else "false", "bool")
        if kind == "unit":
            return k("()", "unit")
        if kind == "path":
            return self.E_path(e, env, exp, k)
        if kind == "unary":
            return self.E_unary(e, env, exp, k)
        if kind == "binary":
            return self.E_binary(e, env, exp, k)
        if kind == "cast":
            to = self.rust_ty(e[2])

            def kc(t, ty):
                if ty == to:
                    return k(t, ty)
                if ty == "i32" and to == "usize":
                    return k(f"castI32ToUsize {atom(t)}", "usize")
                if ty == "usize" and to == "i32":
                    return k(f"castUsizeToI32 {atom(t)}", "i32")
                self.err(f"cast from {ty} to {to} is outside the subset", e[3])
            return self.E(e[1], env, None if to in ("i32", "usize") and self.peek_ty(e[1], env) else to, kc)
        if kind == "assign":
            return self.E_assign(e, env, k)
        if kind == "call":
            return self.E_call(e, env, exp, k)
        if kind == "mcall":
            return self.E_mcall(e, env, exp, k)
        if kind == "field":
            if e[1][0] == "path" and e[1][1] == ["self"] and self.self_struct and e[2] in self.self_struct:
                name = "self_" + e[2]
                if (name, self.self_struct[e[2]]) not in self.extra_params:
                    self.extra_params.append((name, self.self_struct[e[2]]))
                return k(name, self.self_struct[e[2]])
            self.err(f"field access `.{e[2]}` is outside the subset", e[3])
        if kind == "index":
            def k1(a, aty):
                if aty != "list":
                    self.err("indexing something that is not an array", e[3])

                def k2(i, ity):
                    if ity != "usize":
                        self.err("array index is not a usize", e[3])
                    v = self.fresh()
                    return ("bind", v, f"indexChecked {atom(a)} {atom(i)}", k(v, "elem"))
                return self.E(e[2], env, "usize", k2)
            return self.E(e[1], env, None, k1)
        if kind == "macro":
            if e[1] == "vec" and not e[2]:
                return k("[]", "list")
            self.err(f"macro `{e[1]}!` is outside the subset", e[3])
        if kind == "struct":
            return self.E_ctor("::".join(e[1]), dict(e[2]), env, k, e[3])
        if kind == "block":
            return self.B(e, env, exp, k)
        if kind == "if":
            return self.E_if(e, env, exp, k, tail=False)
        if kind == "match":
            return self.E_match(e, env, exp, k, tail=False)
        if kind == "return":
            if e[1] is None:
                return self.retk("()", "unit")
            return self.E_tail(e[1], env)
        if kind == "while":
            return self.E_while(e, env, k)
        self.err(f"expression kind `{kind}` is outside the subset")

    def E_tail(self, e, env):
        """e in return position"""
        if e[0] == "if":
            return self.E_if(e, env, self.ret, self.retk, tail=True)
        if e[0] == "match":
            return self.E_match(e, env, self.ret, self.retk, tail=True)
        return self.E(e, env, self.ret, self.retk)

    def retk(self, term, ty):
        r = self.ret
        if ty == r:
            return ("ret", term)
        if r == "optelem" and ty == "elem":
            return ("ret", f"some {atom(term)}")
        if r == "bool" and ty == "prop":
            return ("ret", f"decide {atom(term)}")
        if r == ("opt", "relop") and ty == ("opt", "relop"):
            return ("ret", term)
        self.err(f"returned value has type {ty}, function returns {r}")

    def E_path(self, e, env, exp, k):
        segs = e[1]
        if len(segs) == 1:
            n = segs[0]
            if n in env:
                return k(env[n][0], env[n][1])
            if n == "self" and self.self_mode == "array":
                return k("self_array", "selfarray")
            if n == "self" and self.self_mode == "view":
                return k("self", "view")
            if n == "self" and self.self_mode == "opaque":
                return k("self", "opaque")
            if n == "None":
                if isinstance(exp, tuple) and exp[0] == "opt":
                    return k("none", exp)
                self.err("cannot determine the type of `None`", e[2])
            self.err(f"unknown name `{n}`", e[2])
        if len(segs) == 2 and segs[0] in self.ctx.enums:
            variants = self.ctx.enums[segs[0]]
            if segs[1] in [v for v, _ in variants]:
                return k(f"{segs[0]}.{segs[1]}", ("enum", segs[0]))
        return self.E_ctor("::".join(segs), {}, env, k, e[2])

    def E_ctor(self, name, fields, env, k, line):
        """constructor expressions translated through the target's constructor map"""
        if name not in self.ctor_map:
            self.err(f"constructor `{name}` is outside the subset", line)
        lean, order, ty = self.ctor_map[name]
        if sorted(order) != sorted(fields):
            self.err(f"constructor `{name}`: fields {sorted(fields)} but expected {sorted(order)}", line)

        def go(i, acc):
            if i == len(order):
                return k(" ".join([lean] + [atom(a) for a in acc]), ty)
            return self.E(fields[order[i]], env, "usize", lambda t, _ty: go(i + 1, acc + [t]))
        return go(0, [])

    def E_unary(self, e, env, exp, k):
        op = e[1]
        if op in ("*", "&"):
            return self.E(e[2], env, exp, k)
        if op == "!":
            def kn(t, ty):
                if ty == "prop":
                    return k(f"¬ {atom(t)}", "prop")
                if ty == "bool":
                    return k(f"!{atom(t)}", "bool")
                self.err("`!` on a non-boolean", e[3])
            return self.E(e[2], env, "bool", kn)
        if op == "-":
            if e[2][0] == "int":
                ty = e[2][2] or (exp if exp in ("i32",) else None) or "i32"
                if ty != "i32" or e[2][1] > 2147483648:
                    self.err("negative literal outside i32", e[3])
                return k(f"-{e[2][1]}", "i32")

            def km(t, ty):
                if ty != "i32":
                    self.err(f"unary minus on {ty} is outside the subset", e[3])
                v = self.fresh()
                return ("bind", v, f"i32Neg {atom(t)}", k(v, "i32"))
            return self.E(e[2], env, "i32", km)
        self.err(f"unary `{op}` is outside the subset", e[3])

    def E_binary(self, e, env, exp, k):
        op, l, r, line = e[1], e[2], e[3], e[4]
        if op in ("&&", "||"):
            # no short-circuit problem: both operands are translated *before* and must be pure
            def k1(a, aty):
                def k2(b, bty):
                    if aty == "prop" or bty == "prop":
                        sym = "∧" if op == "&&" else "∨"
                        return k(f"{atom(self.as_prop(a, aty))} {sym} {atom(self.as_prop(b, bty))}", "prop")
                    return k(f"{atom(a)} {op} {atom(b)}", "bool")
                c = self.E(r, env, "bool", k2)
                return c
            c = self.E(l, env, "bool", k1)
            if self.impure_operand(r, env):
                self.err(f"right operand of `{op}` can fault; short-circuit evaluation is outside the subset", line)
            return c
        lt, rt = self.peek_ty(l, env), self.peek_ty(r, env)
        ty = lt or rt
        if op in ("+", "-"):
            ty = ty or exp
            if ty not in ("i32", "usize"):
                self.err(f"`{op}` on {ty} is outside the subset", line)
            fn = {"i32": {"+": "i32Add", "-": "i32Sub"}, "usize": {"+": "usizeAdd", "-": "usizeSub"}}[ty][op]

            def k1(a, aty):
                def k2(b, bty):
                    if aty != ty or bty != ty:
                        self.err(f"`{op}` between {aty} and {bty}", line)
                    v = self.fresh()
                    return ("bind", v, f"{fn} {atom(a)} {atom(b)}", k(v, ty))
                return self.E(r, env, ty, k2)
            return self.E(l, env, ty, k1)
        if op in ("==", "!=", "<", ">", "<=", ">="):
            sym = {"==": "=", "!=": "≠", "<": "<", ">": ">", "<=": "≤", ">=": "≥"}[op]

            def k1(a, aty):
                def k2(b, bty):
                    if aty == "opaque" and bty == "opaque":
                        rel = {"==": "eq", "!=": "ne", "<": "lt", ">": "gt", "<=": "le", ">=": "ge"}[op]
                        return k(f"RelOp.{rel} {atom(a)} {atom(b)}", "relop")
                    if aty != bty:
                        self.err(f"`{op}` between {aty} and {bty}", line)
                    if aty in ("i32", "usize") or (isinstance(aty, tuple) and aty[0] == "enum" and op in ("==", "!=")):
                        return k(f"{atom(a)} {sym} {atom(b)}", "prop")
                    self.err(f"`{op}` on {aty} is outside the subset", line)
                return self.E(r, env, ty, k2)
            return self.E(l, env, ty, k1)
        self.err(f"operator `{op}` is outside the subset", line)

    def impure_operand(self, e, env):
        """would translating e produce a fault site?"""
        probe = self.E(e, env, "bool", lambda t, ty: ("ret", t))
        return faults(probe)

    def E_assign(self, e, env, k):
        op, lhs, rhs, line = e[1], e[2], e[3], e[4]
        if lhs[0] != "path" or len(lhs[1]) != 1 or lhs[1][0] not in env:
            self.err("assignment to something that is not a local variable", line)
        lean, ty = env[lhs[1][0]][0], env[lhs[1][0]][1]
        if op == "=":
            def ka(t, tty):
                if tty != ty:
                    self.err(f"assigning {tty} to a variable of type {ty}", line)
                return ("let", lean, lean_ty(ty), t, k("()", "unit"))
            return self.E(rhs, env, ty, ka)
        if ty not in ("i32", "usize"):
            self.err(f"`{op}` on {ty} is outside the subset", line)
        fn = {"i32": {"+=": "i32Add", "-=": "i32Sub"}, "usize": {"+=": "usizeAdd", "-=": "usizeSub"}}[ty][op]

        def kb(t, tty):
            if tty != ty:
                self.err(f"`{op}` between {ty} and {tty}", line)
            return ("bind", lean, f"{fn} {lean} {atom(t)}", k("()", "unit"))
        return self.E(rhs, env, ty, kb)

    def E_args(self, args, tys, env, k):
        def go(i, acc):
            if i == len(args):
                return k(acc)
            return self.E(args[i], env, tys[i] if i < len(tys) else None, lambda t, ty: go(i + 1, acc + [(t, ty)]))
        return go(0, [])

    def call_fn(self, info, argterms, k, line):
        want = [t for _, t in info["params"]]
        got = [t for _, t in argterms]
        if [("list" if g == "selfarray" else g) for g in got] != want:
            self.err(f"call of `{info['lean']}` with argument types {got}, expected {want}", line)
        pre = [info["lean"]] + (["fuel"] if info["fuel"] else []) + [atom(t) for t, _ in argterms]
        if info["fuel"]:
            self.needs_fuel = True
        call = " ".join(pre)
        if info["faults"]:
            v = self.fresh()
            return ("bind", v, call, k(v, info["ret"]))
        return k(call, info["ret"])

    def E_call(self, e, env, exp, k):
        f, args, line = e[1], e[2], e[3]
        if f[0] != "path":
            self.err("call of a computed function is outside the subset", line)
        name = "::".join(f[1])
        last = f[1][-1]
        if last in ("max", "min") and len(args) == 2 and len(f[1]) <= 3:
            ty = self.peek_ty(args[0], env) or self.peek_ty(args[1], env) or exp
            return self.E_args(args, [ty, ty], env,
                               lambda a: k(f"{last} {atom(a[0][0])} {atom(a[1][0])}", a[0][1]))
        if name == "Some" and len(args) == 1:
            inner = exp[1] if isinstance(exp, tuple) and exp[0] == "opt" else None
            return self.E(args[0], env, inner, lambda t, ty: k(f"some {atom(self.as_bool(t, ty) if ty == 'prop' else t)}",
                                                                  ("opt", "bool" if ty == "prop" else ty)))
        if name == "Ok" and len(args) == 1:
            if self.ok_transparent:
                return self.E(args[0], env, exp, k)
            if args[0][0] == "unit" and "Ok(())" in self.ctor_map:
                return self.E_ctor("Ok(())", {}, env, k, line)
        if name in ("Err",) and len(args) == 1 and self.ctor_map:
            return self.E(args[0], env, exp, k)
        if name in self.ctor_map and self.ctor_map[name] == "transparent-last":
            return self.E(args[-1], env, exp, k)
        if name == "Rcvar::new" and len(args) == 1 and args[0][0] == "path" and args[0][1] == ["Variable", "Null"]:
            return k("none", "optelem")
        if len(f[1]) == 1 and last in self.ctx.fns:
            info = self.ctx.fns[last]
            return self.E_args(args, [t for _, t in info["params"]], env, lambda a: self.call_fn(info, a, k, line))
        self.err(f"call of `{name}` is outside the subset", line)

    def E_mcall(self, e, env, exp, k):
        recv, m, args, line = e[1], e[2], e[3], e[4]
        # receiver.push(x) on a local list
        if m == "push" and len(args) == 1:
            if recv[0] != "path" or len(recv[1]) != 1 or recv[1][0] not in env or env[recv[1][0]][1] != "list":
                self.err("`push` on something that is not a local Vec", line)
            lean = env[recv[1][0]][0]
            return self.E(args[0], env, "elem",
                          lambda t, ty: ("let", lean, "List α", f"{lean} ++ [{t}]", k("()", "unit"))
                          if ty == "elem" else self.err("pushing a non-element", line))

        def kr(r, rty):
            if m in ("clone", "to_owned", "as_ref", "iter") and not args and m != "iter":
                return k(r, rty)
            if m == "len" and not args and rty in ("list", "selfarray"):
                return k(f"{atom(r)}.length", "usize")
            if m == "len" and not args and isinstance(rty, tuple) and rty[0] == "olist":
                return k(f"{atom(r)}.length", "usize")
            if m == "is_empty" and not args:
                if rty in ("list", "selfarray"):
                    return k(f"{atom(r)}.isEmpty", "bool")
                if rty == "container":
                    return k(r, "bool")
            if m in ("is_some", "is_none") and not args and isinstance(rty, tuple) and rty[0] in ("opt", "oopt"):
                return k(f"{atom(r)}.{'isSome' if m == 'is_some' else 'isNone'}", "bool")
            if m == "get" and len(args) == 1 and rty in ("list", "selfarray"):
                return self.E(args[0], env, "usize", lambda i, ity: k(f"{atom(r)}[{i}]?", ("opt", "elem"))
                              if ity == "usize" else self.err("`.get` with a non-usize index", line))
            if m == "saturating_add" and len(args) == 1 and rty == "i32":
                return self.E(args[0], env, "i32", lambda b, bty: k(f"i32SaturatingAdd {atom(r)} {atom(b)}", "i32")
                              if bty == "i32" else self.err("saturating_add with a non-i32", line))
            if m in self.ctx.fns and self.ctx.fns[m].get("method") and rty in ("list", "selfarray"):
                info = self.ctx.fns[m]
                return self.E_args(args, [t for _, t in info["params"]][1:], env,
                                   lambda a: self.call_fn(info, [(r, "list")] + a, k, line))
            if m == "is_number" and not args and rty == "opaque":
                name = f"{r}_is_number"
                if (name, "bool") not in self.extra_params:
                    self.extra_params.append((name, "bool"))
                return k(name, "bool")
            self.err(f"method `.{m}` on {rty} is outside the subset", line)
        return self.E(recv, env, None, kr)

    # -- patterns
    def P(self, pat, sty, sterm, env):
        """-> (lean pattern or None if irrefutable-by-alias, env', kind) ; kind in 'always','never','test'"""
        env = dict(env)
        k = pat[0]
        if k == "wild":
            return "_", env, "always"
        cur = max([v[2] for v in env.values()] + [0])
        if k == "bind":
            lean = self.fresh(self.lname(pat[1]) + "_") if pat[1] in env else self.lname(pat[1])
            env[pat[1]] = (lean, sty if sty != "selfarray" else "list", cur)
            return lean, env, "always"
        if k == "tstruct" or k == "ppath" or k == "pstruct":
            segs = pat[1]
            name = "::".join(segs)
            subs = pat[2] if k == "tstruct" else []
            if isinstance(sty, tuple) and sty[0] == "opt":
                if name == "Some" and len(subs) == 1:
                    sp, env, _ = self.P(subs[0], sty[1], None, env)
                    if subs[0][0] not in ("wild", "bind"):
                        self.err("nested patterns are outside the subset")
                    return f"some {sp}", env, "test"
                if name == "None":
                    return "none", env, "test"
            if sty == "selfarray" and len(segs) == 2 and segs[0] == "Variable":
                if segs[1] == "Array" and len(subs) == 1 and subs[0][0] in ("bind", "wild"):
                    if subs[0][0] == "bind":
                        env[subs[0][1]] = (sterm, "list", cur)
                    return None, env, "always"
                return None, env, "never"
            if sty == "view" and len(segs) == 2 and segs[0] == "Variable":
                for v, payload in self.ctx.view:
                    if v == segs[1]:
                        if k == "tstruct" and len(subs) != 1:
                            break
                        if payload is None:
                            if k == "tstruct" and subs[0][0] != "wild":
                                self.err(f"the payload of Variable::{v} is not observable in the view")
                            return f".{v}", env, "test"
                        if k != "tstruct":
                            break
                        if subs[0][0] == "wild":
                            return f".{v} _", env, "test"
                        if subs[0][0] == "bind":
                            b = subs[0][1]
                            lean = self.fresh(self.lname(b) + "_") if b in env else self.lname(b)
                            env[b] = (lean, payload, cur)
                            return f".{v} {lean}", env, "test"
                        break
                self.err(f"pattern `{name}` does not fit enum Variable")
            if isinstance(sty, tuple) and sty[0] == "enum" and len(segs) == 2 and segs[0] == sty[1] and k == "ppath":
                if segs[1] in [v for v, _ in self.ctx.enums[sty[1]]]:
                    return f".{segs[1]}", env, "test"
        self.err(f"pattern {pat!r} on {sty} is outside the subset")

    # -- control flow
    def needs_dup(self, e, env):
        outer = set(env)
        inner_decl = set(declared_vars(e))
        if has_kind(e, "return") or has_kind(e, "while"):
            return True
        return any(v in outer and v not in inner_decl for v in assigned_vars(e))

    def E_if(self, e, env, exp, k, tail):
        cond, then, els, line = e[1], e[2], e[3], e[4]
        ty = self.peek_ty(e, env)
        value_typed = els is not None and (then[2] is not None)
        if not tail and value_typed and not self.needs_dup(e, env):
            v = self.fresh()
            rty = [None]

            def kv(t, tty):
                if tty == "prop":
                    t, tty = self.as_bool(t, tty), "bool"
                if rty[0] not in (None, tty):
                    self.err(f"branches of `if` have types {rty[0]} and {tty}", line)
                rty[0] = tty
                return ("ret", t)
            inner = self.if_core(cond, then, els, env, exp or ty, kv)
            return ("bindc", v, lean_ty(rty[0]), inner, k(v, rty[0]))
        return self.if_core(cond, then, els, env, exp, k)

    def if_core(self, cond, then, els, env, exp, k):
        def else_comp():
            if els is None:
                return k("()", "unit")
            if els[0] == "if":
                return self.if_core(els[1], els[2], els[3], env, exp, k)
            return self.B(els, env, exp, k)
        if cond[0] == "letcond":
            pat, scrut = cond[1], cond[2]

            def ks(s, sty):
                lp, env2, kind = self.P(pat, sty, s, env)
                if kind == "always" and lp is None:
                    return self.B(then, env2, exp, k)
                if kind == "never":
                    return else_comp()
                if kind == "always":
                    return ("let", lp, None, s, self.B(then, env2, exp, k))
                return ("match", s, [(lp, self.B(then, env2, exp, k)), ("_", else_comp())])
            return self.E(scrut, env, None, ks)
        return self.E(cond, env, "bool",
                      lambda c, cty: ("if", self.as_prop(c, cty) if cty in ("prop", "bool") else
                                      self.err("condition is not a boolean"), self.B(then, env, exp, k), else_comp()))

    def E_match(self, e, env, exp, k, tail):
        scrut, arms, line = e[1], e[2], e[3]
        if not tail and not self.needs_dup(e, env):
            v = self.fresh()
            rty = [None]

            def kv(t, tty):
                if tty == "prop":
                    t, tty = self.as_bool(t, tty), "bool"
                if rty[0] not in (None, tty):
                    self.err(f"arms of `match` have types {rty[0]} and {tty}", line)
                rty[0] = tty
                return ("ret", t)
            inner = self.match_core(scrut, arms, env, exp or self.peek_ty(e, env), kv, line)
            if rty[0] == "unit":
                return self.match_core(scrut, arms, env, exp, k, line)
            return ("bindc", v, lean_ty(rty[0]), inner, k(v, rty[0]))
        return self.match_core(scrut, arms, env, exp, k, line)

    def match_core(self, scrut, arms, env, exp, k, line):
        def ks(s, sty):
            def go(arms):
                if not arms:
                    self.err("match without an irrefutable last arm and with guards is outside the subset", line)
                group, i = [], 0
                while i < len(arms):
                    pat, guard, body = arms[i]
                    pats = pat[1] if pat[0] == "or" else [pat]
                    done = False
                    for p in pats:
                        lp, env2, kind = self.P(p, sty, s, env)
                        if p[0] == "bind":
                            self.err("binding the whole scrutinee in a match arm is outside the subset", line)
                        if kind == "never":
                            continue
                        if pat[0] == "or" and pat_binders(pat):
                            self.err("or-patterns with bindings are outside the subset", line)
                        bodyc = lambda env2=env2: self.E_arm(body, env2, exp, k)
                        if guard is not None:
                            def kg(g, gty, env2=env2, bodyc=bodyc):
                                return ("if", self.as_prop(g, gty), bodyc(), go(arms[i + 1:]))
                            c = self.E(guard, env2, "bool", kg)
                            done = True
                        else:
                            c = bodyc()
                            done = kind == "always"
                        if kind == "always" and lp is None:
                            if group:
                                self.err("irrefutable view pattern after other arms", line)
                            return c
                        group.append((lp, c))
                        if done:
                            break
                    if done:
                        break
                    i += 1
                if len(group) == 1 and group[0][0] == "_":
                    return group[0][1]
                return ("match", s, group)
            return go(arms)
        return self.E(scrut, env, None, ks)

    def E_arm(self, body, env, exp, k):
        if body[0] == "if":
            return self.E_if(body, env, exp, k, tail=True)   # continuation is duplicated into the arm anyway
        if body[0] == "match":
            return self.E_match(body, env, exp, k, tail=True)
        return self.E(body, env, exp, k)

    def B(self, block, env, exp, k, depth=None):
        """block with continuation for its value"""
        stmts, tail = block[1], block[2]
        depth = (max([v[2] for v in env.values()] + [0]) + 1) if depth is None else depth

        def go(i, env):
            if i == len(stmts):
                if tail is None:
                    return k("()", "unit")
                if tail[0] == "if":
                    return self.E_if(tail, env, exp, k, tail=True)
                if tail[0] == "match":
                    return self.E_match(tail, env, exp, k, tail=True)
                return self.E(tail, env, exp, k)
            s = stmts[i]
            if s[0] == "let":
                pat, ty, init, line = s[1], s[2], s[3], s[4]
                if pat[0] != "bind":
                    self.err("only `let name` patterns are in the subset", line)
                if init is None:
                    self.err("`let` without initialiser is outside the subset", line)
                name = pat[1]
                dty = self.rust_ty(ty) if ty else None
                lean = self.lname(name)
                if name in env and env[name][2] < depth:
                    lean = self.fresh(self.lname(name) + "_")

                def kl(t, tty):
                    if tty == "prop":
                        t, tty = self.as_bool(t, tty), "bool"
                    if dty and dty != tty:
                        self.err(f"`let {name}: {dty}` initialised with {tty}", line)
                    env2 = dict(env)
                    env2[name] = (lean, tty, depth)
                    return ("let", lean, lean_ty(tty), t, go(i + 1, env2))
                return self.E(init, env, dty, kl)
            e = s[1]

            def ke(t, tty):
                return go(i + 1, env)
            if e[0] == "if":
                return self.if_core(e[1], e[2], e[3], env, "unit", ke)
            if e[0] == "match":
                return self.match_core(e[1], e[2], env, "unit", ke, e[3])
            return self.E(e, env, None, ke)
        return go(0, env)

    def E_while(self, e, env, k):
        cond, body, line, endline = e[1], e[2], e[3], e[4]
        if has_kind(body, "return") or has_kind(body, "while"):
            self.err("`return` or a nested loop inside `while` is outside the subset", line)
        inner_decl = set(declared_vars(body))
        state = []
        for v in assigned_vars(body):
            if v in env and v not in inner_decl and v not in state:
                state.append(v)
        for v in state:
            if v in inner_decl:
                self.err("loop body shadows a variable it also assigns", line)
        used = []
        for v in used_names(cond) + used_names(body):
            if v in env and v not in state and v not in used and v not in inner_decl:
                used.append(v)
        used = [v for v in env if v in used]   # declaration order: stable under rewrites of the body
        if self.self_mode:
            self.err("loops in methods are outside the subset", line)
        # variables still needed after the loop: those the (already translated) continuation mentions
        rest = k("()", "unit")
        import re as _re
        words = set(_re.findall(r"[A-Za-z_][A-Za-z0-9_']*", "\n".join(render(rest, 0, True))))
        live = [v for v in state if env[v][0] in words]
        idx = len(self.loops) + 1
        lname = f"{self.lean_name}_loop_{idx}"
        frees = [(env[v][0], env[v][1]) for v in used]
        st = [(env[v][0], env[v][1]) for v in state]
        lv = [(env[v][0], env[v][1]) for v in live]
        if len(lv) == 0:
            rty, rterm = "Unit", "()"
        elif len(lv) == 1:
            rty, rterm = lean_ty(lv[0][1]), lv[0][0]
        else:
            rty = " × ".join(atom(lean_ty(t)) for _, t in lv)
            rterm = "(" + ", ".join(n for n, _ in lv) + ")"
        call = " ".join([lname] + [n for n, _ in frees] + ["fuel"] + [n for n, _ in st])
        benv = dict(env)
        bodyc = self.B(body, benv, "unit", lambda t, ty: ("tail", call))
        loopc = simplify(self.E(cond, env, "bool", lambda c, cty: ("if", self.as_prop(c, cty), bodyc, ("ret", rterm))))
        sig = " ".join(f"({n} : {lean_ty(t)})" for n, t in frees)
        arrow = " → ".join(["Nat"] + [atom(lean_ty(t)) if " " in lean_ty(t) and not lean_ty(t).startswith("List")
                                      else lean_ty(t) for _, t in st])
        lines = [f"/-- `while` loop of `{self.fn['name']}`, {self.sf.name}:{line}-{endline}; "
                 f"state: {', '.join(state) or '-'} -/",
                 f"def {lname} {{α : Type}} {sig} : {arrow} → Except Fault {atom(rty)}",
                 "  | " + ", ".join(["0"] + ["_"] * len(st)) + " => .error .fuel",
                 "  | " + ", ".join(["fuel + 1"] + [n for n, _ in st]) + " => do"]
        lines += render(loopc, 2, True)
        self.loops.append("\n".join(lines))
        self.needs_fuel = True
        start = " ".join([lname] + [n for n, _ in frees] + ["fuel"] + [n for n, _ in st])
        pat = rterm if lv else "_"
        return ("bind", pat, start, rest)

    # -- whole function
    def gen(self, doc_extra=""):
        fn = self.fn
        self.needs_fuel = False
        env, params = {}, []
        for p, ty in fn["params"]:
            if p == "self":
                if self.self_mode == "array":
                    params.append(("self_array", "list"))
                elif self.self_mode == "view":
                    params.append(("self", "view"))
                elif self.self_mode == "opaque":
                    pass
                elif self.self_struct is not None:
                    pass
                else:
                    self.err("method outside the subset")
                continue
            t = self.param_types.get(p) or self.rust_ty(ty)
            if t == "ignored":
                continue
            if t == "opaque":
                env[p] = (self.lname(p), "opaque", 0)
                continue
            env[p] = (self.lname(p), t, 0)
            params.append((self.lname(p), t))
        body = self.B(fn["body"], env, self.ret, self.retk, depth=1) if fn["body"][2] is not None else \
            self.B(fn["body"], env, self.ret, lambda t, ty: self.retk(t, ty), depth=1)
        params = [(n, t) for n, t in self.extra_params] + params if self.self_struct is not None else \
            params + [(n, t) for n, t in self.extra_params]
        body = simplify(body)
        is_m = faults(body)
        uses_alpha = any("α" in lean_ty(t) for _, t in params) or "α" in lean_ty(self.ret)
        sig = ("{α : Type} " if uses_alpha else "") + ("(fuel : Nat) " if self.needs_fuel else "") + \
            " ".join(f"({n} : {lean_ty(t)})" for n, t in params)
        rty = lean_ty(self.ret)
        rty = f"Except Fault {atom(rty)}" if is_m else rty
        out = list(self.loops)
        lines = [f"/-- `fn {fn['name']}`, {self.sf.name}:{fn['start']}-{fn['end']}{doc_extra} -/",
                 f"def {self.lean_name} {sig.strip()} : {rty} :=" + (" do" if is_m else "")]
        lines += render(body, 1, is_m)
        out.append("\n".join(lines))
        self.ctx.fns[fn["name"]] = {"lean": self.lean_name, "params": params, "ret": self.ret, "faults": is_m,
                                    "fuel": self.needs_fuel, "method": self.self_mode == "array"}
        self.ctx.add_region(self.sf, fn["toks"][0], fn["toks"][1])
        return out


# ----------------------------------------------------------------------------------------------
# Targets
# ----------------------------------------------------------------------------------------------
PRELUDE = '''/- GENERATED by tools/rs2lean.py from the function bodies in /repo/jmespath/src — do not edit. -/
import JmesVerif.Model.Slice
namespace JmesVerif.Generated.Code
open JmesVerif (Fault I32_MAX I32_MIN)

/-! ### fixed prelude: the meaning of the Rust primitives (not generated from the source) -/

def USIZE_MAX : Nat := 18446744073709551615

/-- an `i32` result with overflow checks on: `Fault.overflow` outside [-2^31, 2^31-1] -/
def i32Check (x : Int) : Except Fault Int :=
  if I32_MIN ≤ x ∧ x ≤ I32_MAX then .ok x else .error .overflow
/-- `a + b` on `i32` -/
def i32Add (a b : Int) : Except Fault Int := i32Check (a + b)
/-- `a - b` on `i32` -/
def i32Sub (a b : Int) : Except Fault Int := i32Check (a - b)
/-- `-a` on `i32` -/
def i32Neg (a : Int) : Except Fault Int := i32Check (-a)
/-- `a.saturating_add(b)` on `i32` -/
def i32SaturatingAdd (a b : Int) : Int :=
  if a + b > I32_MAX then I32_MAX else if a + b < I32_MIN then I32_MIN else a + b
/-- `a + b` on `usize` -/
def usizeAdd (a b : Nat) : Except Fault Nat :=
  if a + b ≤ USIZE_MAX then .ok (a + b) else .error .overflow
/-- `a - b` on `usize` -/
def usizeSub (a b : Nat) : Except Fault Nat :=
  if b ≤ a then .ok (a - b) else .error .overflow
/-- `x as usize` for `x : i32` (sign-extend, wrap) -/
def castI32ToUsize (x : Int) : Nat :=
  if x ≥ 0 then x.toNat else (18446744073709551616 + x).toNat
/-- `n as i32` for `n : usize` (truncate to 32 bits, reinterpret) -/
def castUsizeToI32 (n : Nat) : Int :=
  if n % 4294967296 < 2147483648 then ((n % 4294967296 : Nat) : Int) else ((n % 4294967296 : Nat) : Int) - 4294967296
/-- `xs[i]` -/
def indexChecked {α : Type} (xs : List α) (i : Nat) : Except Fault α :=
  match xs[i]? with
  | some x => .ok x
  | none => .error .outOfBounds

/-- the Rust relational operator applied to two `Variable`s (its meaning is `impl PartialEq/PartialOrd`) -/
inductive RelOp | eq | ne | lt | le | gt | ge
  deriving DecidableEq, Repr
'''


def payload_abstraction(ty):
    """what the translated functions can observe of a `Variable` payload"""
    if ty[0] == "path" and ty[1] == "bool":
        return "bool"
    if ty[0] == "path" and ty[1] in ("String", "Vec", "BTreeMap"):
        return "container"
    return None


def generate():
    ctx = Ctx()
    out = [PRELUDE]
    var = ctx.file("variable.rs")
    ast = ctx.file("ast.rs")
    interp = ctx.file("interpreter.rs")
    funcs = ctx.file("functions.rs")

    def parse_enum(sf, name):
        if name not in sf.enums:
            raise TieError(f"cannot find `enum {name}` in {sf.name}")
        p = Parser(sf, sf.enums[name])
        a = p.i
        r = p.enum()
        ctx.add_region(sf, a, p.i)
        return r

    def parse_fn(sf, impl, name, free_only=False):
        return Parser(sf, sf.find_fn(impl, name, free_only)).fn()

    out.append("/-! ### enums re-read from the source -/")
    # plain enums
    for sf, name in ((var, "JmespathType"), (ast, "Comparator")):
        _, variants, a, b = parse_enum(sf, name)
        if any(f for _, f in variants):
            raise TieError(f"enum {name} in {sf.name} has payloads; outside the subset")
        ctx.enums[name] = variants
        out.append(f"/-- `enum {name}`, {sf.name}:{a}-{b} -/\ninductive {name}\n" +
                   "\n".join(f"  | {v}" for v, _ in variants) + "\n  deriving DecidableEq, Repr")
    # Variable view
    _, variants, a, b = parse_enum(var, "Variable")
    view = []
    for v, fields in variants:
        if len(fields) > 1:
            raise TieError(f"Variable::{v} has {len(fields)} fields; outside the subset")
        view.append((v, payload_abstraction(fields[0][1]) if fields else None))
    ctx.view = view
    lines = [f"/-- view of `enum Variable`, {var.name}:{a}-{b}: one constructor per variant; a `bool` payload is kept, a\n"
             "container payload (`String`, `Vec`, `BTreeMap`) is abstracted to the result of `.is_empty()`, other\n"
             "payloads are dropped -/", "inductive VariableView"]
    for v, pl in view:
        lines.append(f"  | {v}" + {"bool": " (b : Bool)", "container": " (is_empty : Bool)", None: ""}[pl])
    lines.append("  deriving DecidableEq, Repr")
    out.append("\n".join(lines))
    TYPES["container"] = "Bool"

    # 1. adjust_slice_endpoint, 2. slice
    out.append("/-! ### variable.rs: slices -/")
    out += FnGen(ctx, var, parse_fn(var, None, "adjust_slice_endpoint", True), "adjust_slice_endpoint").gen()
    out += FnGen(ctx, var, parse_fn(var, None, "slice", True), "slice").gen()

    # 3. get_index / get_negative_index on an array, and the Index arm of interpret
    out.append("/-! ### variable.rs / interpreter.rs: indexes (array case; `none` is the `Null` fall-through) -/")
    for name in ("get_index", "get_negative_index"):
        out += FnGen(ctx, var, parse_fn(var, "Variable", name), name, self_mode="array").gen(
            ", with `self = Variable::Array(self_array)`")
    # the type of `idx` from `enum Ast`
    _, avariants, _, _ = parse_enum(ast, "Ast")
    idx_fields = dict([v for v in avariants if v[0] == "Index"][0][1]) if any(v[0] == "Index" for v in avariants) else None
    if not idx_fields:
        raise TieError("cannot find `Ast::Index` in ast.rs")
    ifn = Parser(interp, interp.find_fn(None, "interpret", True)).fn(header_only=True)
    arm = None
    lo, hi = ifn["toks"]
    for j in range(lo, hi - 3):
        tk = interp.toks
        if tk[j].text == "Ast" and tk[j + 1].text == "::" and tk[j + 2].text == "Index" and tk[j + 3].text == "{":
            ap = Parser(interp, j)
            pat = ap.pattern()
            if not (ap.at("=>") or ap.at("if")):
                continue
            guard = ap.expr() if ap.eat("if") else None
            ap.expect("=>")
            body = ap.expr()
            if arm is not None:
                raise TieError("more than one `Ast::Index { .. }` arm in `interpret` in interpreter.rs")
            arm = (pat, guard, body, j, ap.i)
    if arm is None or arm[1] is not None:
        raise TieError("cannot find the unguarded `Ast::Index { .. }` arm of `interpret` in interpreter.rs")
    pat, _, body, lo, hi = arm
    binders = []
    for f, p in pat[2]:
        if p[0] != "bind" or f not in idx_fields:
            raise TieError("the `Ast::Index` pattern in `interpret` is outside the subset")
        binders.append((p[1], idx_fields[f]))
    data_param = ifn["params"][0][0]
    first_line, last_line = interp.toks[lo].line, interp.toks[hi - 1].line
    fake = {"name": "interpret/Ast::Index", "params": [(data_param, ("path", "Vec", [("path", "Rcvar", [])]))] +
            [(b, t) for b, t in binders], "ret": ("path", "Rcvar", []),
            "body": body if body[0] == "block" else ("block", [], body),
            "start": first_line, "end": last_line, "toks": (lo, hi)}
    g = FnGen(ctx, interp, fake, "index", ok_transparent=True)
    out += g.gen(f", the `Ast::Index` arm with `{data_param} = Variable::Array(..)`")

    # 4. validate_arity
    out.append("/-! ### functions.rs: arity check -/")
    out.append("/-- result of `validate_arity`: `Ok(())`, or the `RuntimeError` the `Err` carries -/\n"
               "inductive ArityResult\n  | ok\n  | notEnough (expected actual : Nat)\n  | tooMany (expected actual : Nat)\n"
               "  deriving DecidableEq, Repr")
    if "Signature" not in funcs.structs:
        raise TieError("cannot find `struct Signature` in functions.rs")
    sp = Parser(funcs, funcs.structs["Signature"])
    a0 = sp.i
    _, sfields, _, _ = sp.struct()
    ctx.add_region(funcs, a0, sp.i)
    sstruct = {}
    for f, t in sfields:
        if t[0] == "path" and t[1] == "Vec":
            sstruct[f] = ("olist", "β")
        elif t[0] == "path" and t[1] == "Option":
            sstruct[f] = ("oopt", "β")
        else:
            raise TieError(f"field `{f}` of struct Signature has a type outside the subset")
    cmap = {
        "Ok(())": ("ArityResult.ok", [], "arity"),
        "RuntimeError::NotEnoughArguments": ("ArityResult.notEnough", ["expected", "actual"], "arity"),
        "RuntimeError::TooManyArguments": ("ArityResult.tooMany", ["expected", "actual"], "arity"),
        "ErrorReason::Runtime": "transparent-last",
        "JmespathError::from_ctx": "transparent-last",
    }
    vfn = parse_fn(funcs, "Signature", "validate_arity")
    g = FnGen(ctx, funcs, vfn, "validate_arity", self_struct=sstruct, ret_override="arity", ctor_map=cmap)
    body = g.gen(", with `self.inputs`/`self.variadic` as parameters; `Err(JmespathError::from_ctx(ctx, "
                 "ErrorReason::Runtime(e)))` is `e`")
    out += [b.replace("def validate_arity ", "def validate_arity {β : Type} ", 1) for b in body]

    # 5. is_truthy, get_type, compare
    out.append("/-! ### variable.rs: truth, type and comparison tables -/")
    out += FnGen(ctx, var, parse_fn(var, "Variable", "is_truthy"), "is_truthy", self_mode="view").gen()
    out += FnGen(ctx, var, parse_fn(var, "Variable", "get_type"), "get_type", self_mode="view").gen()
    g = FnGen(ctx, var, parse_fn(var, "Variable", "compare"), "compare", self_mode="opaque",
              ret_override=("opt", "relop"))
    body = g.gen(", with `self.is_number()`/`value.is_number()` as parameters; `Some(*self OP *value)` is `some OP`")
    out += [b.replace("RelOp.eq self value", ".eq").replace("RelOp.ne self value", ".ne")
             .replace("RelOp.lt self value", ".lt").replace("RelOp.le self value", ".le")
             .replace("RelOp.gt self value", ".gt").replace("RelOp.ge self value", ".ge") for b in body]
    for b in out[-1:]:
        if "RelOp." in b:
            raise TieError("fn compare: a relational operator is applied to something other than `*self`, `*value`")

    out.append(f"/-- SHA-256 over the tokens of the translated regions (informational) -/\n"
               f"def sourceDigest : String := \"{ctx.digest.hexdigest()}\"")
    out.append("end JmesVerif.Generated.Code")
    return "\n\n".join(out) + "\n"


# ----------------------------------------------------------------------------------------------
# Second target: the whole `interpret` function  ->  Generated/InterpCode.lean
# ----------------------------------------------------------------------------------------------
OUT_INTERP = os.path.join(os.path.dirname(OUT), "InterpCode.lean")

INTERP_HEADER = r"""/- GENERATED by tools/rs2lean.py from `fn interpret` of /repo/jmespath/src/interpreter.rs — do not edit.

Translation scheme (trusted; `Lemmas/InterpEquiv.lean` proves the result equal to the hand model `interp`):
  * `SearchResult` with `ctx: &mut Context`: the function takes the offset register and returns it,
    `interpret … (ctx_offset : Nat) : Except EvalErr (Val × Nat)`; `e?` propagates `.error`; a read of `ctx.offset`
    is the current register, `ctx.offset = e;` rebinds it.  After a *failed* call that takes `ctx` the register is
    unknown (the model's `Except` carries no state on the error side): the translator rejects a source that reads
    `ctx.offset` (or returns `Ok`) on such a path before assigning it.
  * Fuel: `interpret` is recursive on a fuel argument; every call of `interpret` and every iteration of a `for`
    loop whose body touches `ctx` uses one unit (`.error .fuel` when exhausted).  Such a loop is its own function of
    the `mutual` block: arguments = fuel, the list iterated, the variables it reads (declaration order), the variables
    it assigns (declaration order), the register; result = the assigned variables and the register.  A `for` loop whose
    body neither touches `ctx` nor can fail is a structural recursion over the list (no fuel).
  * `match`/`if`/`if let`/`let`/blocks are translated in continuation-passing style (the rest of the block is
    duplicated into every branch), so a `Result`-typed variable is always statically `Ok(t)` or `Err(e)`.
  * API idioms, fixed table:
      Rcvar::new(Variable::Null | Bool(b) | Array(v) | Object(m) | Expref(a))  ↦  Val.null | .bool b | .arr v | .obj m | .expref a
      x.clone(), x.to_owned(), &x, *x, x.as_ref(), x.iter(), x.cloned()         ↦  x
      data.get_field(name) ↦ Val.getField data name        x.is_truthy() ↦ Val.truthy x (tied by gen_truthy_eq)
      x.is_null() ↦ Val.isNull x                             l.compare(c, r) ↦ Val.compare c l r (tied by gen_compare_gate_eq)
      o.map_or(a, |x| b) ↦ match o with | some x => b | none => a
      v.as_array() under `match`/`if let`  ↦  match v with | .arr a => … | _ => …
      match *v { Variable::Object(ref m) => …, … }  ↦  match v with | .obj m => … | …
      m.values().cloned().collect::<Vec<Rcvar>>() ↦ List.map Prod.snd m
      vec![] ↦ []      v.push(x) ↦ v ++ [x]      v.extend(it) ↦ v ++ it      it.rev() / v.reverse(); ↦ List.reverse
      BTreeMap::new() ↦ []      m.insert(k, x); ↦ insertKV k x m (Model/Value.lean)
      kvp.key, kvp.value (KeyValuePair) ↦ kvp.1, kvp.2 (the model's `String × Ast`)
      data.slice(start, stop, step) ↦ variable_slice slice_fn data start stop step (prelude below: `Variable::slice` is
          checked to be `self.as_array().map(|a| slice(a, start, stop, step))`; the free function `slice` is the parameter
          `slice_fn`, instantiated with the translated `Generated.Code.slice`, see `slice_rs`; its `Fault` is a panic)
      the `Ast::Index` arm ↦ index_arm data idx ctx_offset (prelude below: the arm as already translated to
          `Generated.Code.index` on an array, `Null` on anything else; its `Fault` is a panic)
      ctx.runtime.get_function(name) ↦ lookup name (parameter, instantiated with `rt.get`)
      f.evaluate(&args, ctx) ↦ evaluate fuel f args ctx_offset (parameter, instantiated with the model's `callFn rt`)
      ErrorReason::Runtime(r) ↦ r      RuntimeError::UnknownFunction(s) | InvalidSlice ↦ RtErr.unknownFunction s | .invalidSlice
      JmespathError::from_ctx(ctx, r) ↦ EvalErr.runtime r ctx_offset
    An idiom outside the table makes the translator exit 1 (broken tie).
-/
import JmesVerif.Generated.Code
import JmesVerif.Model.Interp
set_option linter.unusedVariables false
namespace JmesVerif.Generated.InterpCode
open JmesVerif

/-! ### fixed prelude: the meaning of the API idioms (not generated from the source) -/

/-- the free function `slice(array, start, stop, step)` of variable.rs, as a parameter -/
abbrev SliceFn := List Val → Option Int → Option Int → Int → Except Fault (List Val)

/-- the translated `slice` (Generated/Code.lean) with the fuel `len + 1` -/
def slice_rs : SliceFn := fun xs start stop step => Code.slice (xs.length + 1) xs start stop step

/-- `Variable::slice`: `self.as_array().map(|a| slice(a, start, stop, step))`; a `Fault` of `slice` is a panic -/
def variable_slice (slice_fn : SliceFn) (self : Val) (start stop : Option Int) (step : Int) :
    Except EvalErr (Option (List Val)) :=
  match self with
  | .arr a =>
    match slice_fn a start stop step with
    | .ok r => .ok (some r)
    | .error _ => .error (.panic "slice")
  | _ => .ok none

/-- the `Ast::Index` arm: on an array the translated arm `Code.index` (a `Fault` is a panic), `Null` otherwise -/
def index_arm (data : Val) (idx : Int) (ctx_offset : Nat) : ERes Val :=
  match data with
  | .arr xs =>
    match Code.index xs idx with
    | .ok r => .ok (r.getD .null, ctx_offset)
    | .error _ => .error (.panic "index")
  | _ => .ok (.null, ctx_offset)
"""

# model constructor and positional field order of every `Ast` variant (Model/Value.lean)
MODEL_AST = {
    "Comparison": ("comparison", ["offset", "comparator", "lhs", "rhs"]),
    "Condition": ("condition", ["offset", "predicate", "then"]),
    "Identity": ("identity", ["offset"]),
    "Expref": ("expref", ["offset", "ast"]),
    "Flatten": ("flatten", ["offset", "node"]),
    "Function": ("function", ["offset", "name", "args"]),
    "Field": ("field", ["offset", "name"]),
    "Index": ("index", ["offset", "idx"]),
    "Literal": ("literal", ["offset", "value"]),
    "MultiList": ("multiList", ["offset", "elements"]),
    "MultiHash": ("multiHash", ["offset", "elements"]),
    "Not": ("not", ["offset", "node"]),
    "Projection": ("projection", ["offset", "lhs", "rhs"]),
    "ObjectValues": ("objectValues", ["offset", "node"]),
    "And": ("and", ["offset", "lhs", "rhs"]),
    "Or": ("or", ["offset", "lhs", "rhs"]),
    "Slice": ("slice", ["offset", "start", "stop", "step"]),
    "Subexpr": ("subexpr", ["offset", "lhs", "rhs"]),
}
# model constructors of `Variable` usable in patterns / `Rcvar::new(Variable::X(..))`: variant -> (ctor, payload type)
MODEL_VAR = {
    "Null": ("null", None), "Bool": ("bool", "bool"), "Array": ("arr", ("list", "val")),
    "Object": ("obj", ("map", "val")), "Expref": ("expref", "ast"), "String": ("str", "string"),
    "Number": ("num", "number"),
}
ITY = {"val": "Val", "ast": "Ast", "kvp": "(String × Ast)", "string": "String", "usize": "Nat", "i32": "Int",
       "bool": "Bool", "cmp": "Cmp", "fn": "Fn", "rterr": "RtErr", "reason": "RtErr", "jerr": "EvalErr",
       "unit": "Unit", "number": "Num"}


def ity(t):
    if isinstance(t, TyVar):
        return ity(t.ty) if t.ty is not None else None
    if isinstance(t, tuple):
        if t[0] == "list":
            inner = ity(t[1])
            return None if inner is None else f"List {atom(inner)}"
        if t[0] == "map":
            return f"List (String × {ity(t[1])})"
        if t[0] == "opt":
            return f"Option {atom(ity(t[1]))}"
    if t in ITY:
        return ITY[t]
    raise TieError(f"no Lean type for {t!r}")


class TyVar:
    """element type of a `vec![]` whose type is fixed by its first use"""

    def __init__(self):
        self.ty = None

    def __eq__(self, other):
        return resolve(self) == resolve(other) if self.ty is not None else self is other

    def __hash__(self):
        return id(self)


def resolve(t):
    if isinstance(t, TyVar):
        return resolve(t.ty) if t.ty is not None else t
    if isinstance(t, tuple) and t and t[0] in ("list", "opt", "map", "iter"):
        return (t[0],) + tuple(resolve(x) for x in t[1:])
    return t


def unify(a, b):
    a, b = resolve(a), resolve(b)
    if isinstance(a, TyVar):
        a.ty = b
        return True
    if isinstance(b, TyVar):
        b.ty = a
        return True
    if isinstance(a, tuple) and isinstance(b, tuple) and a and b and a[0] == b[0] and len(a) == len(b) \
            and a[0] in ("list", "opt", "map", "iter"):
        return all(unify(x, y) for x, y in zip(a[1:], b[1:]))
    return a == b


def snake(name):
    out = ""
    for i, ch in enumerate(name):
        if ch.isupper() and i:
            out += "_"
        out += ch.lower()
    return out


def irender(c, ind):
    """IR of the second target: ("ret", text) | ("let", name, ty, term, rest) | ("match", scrut, [(pat, comp)]) |
    ("if", cond, c1, c2) — rendered as plain terms (explicit `match` on `Except`, no `do`)"""
    pad = "  " * ind
    k = c[0]
    if k == "ret":
        return [pad + c[1]]
    if k == "let":
        t = ity(c[2]) if c[2] is not None else None
        return [pad + f"let {c[1]}" + (f" : {t}" if t else "") + f" := {c[3]}"] + irender(c[4], ind)
    if k == "match":
        out = [pad + f"match {c[1]} with"]
        for p, b in c[2]:
            if b[0] == "ret" and p.startswith(".error ") and "\n" not in b[1]:
                out.append(pad + f"| {p} => {b[1]}")
                continue
            out.append(pad + f"| {p} =>")
            out += irender(b, ind + 1)
        return out
    if k == "if":
        return [pad + f"if {c[1]} then"] + irender(c[2], ind + 1) + [pad + "else"] + irender(c[3], ind + 1)
    raise AssertionError(k)


def imentions(c, name):
    import re as _re
    return _re.search(r"(?<![A-Za-z0-9_'.])" + _re.escape(name) + r"(?![A-Za-z0-9_'])", "\n".join(irender(c, 0))) is not None


def isimplify(c):
    """peepholes: drop a pure `let` nobody reads; `match m with | .error e => .error e | .ok (t, o) => .ok (t, o)` is `m`"""
    k = c[0]
    if k == "ret":
        return c
    if k == "let":
        rest = isimplify(c[4])
        if not imentions(rest, c[1]):
            return rest
        return ("let", c[1], c[2], c[3], rest)
    if k == "if":
        return ("if", c[1], isimplify(c[2]), isimplify(c[3]))
    if k == "match":
        arms = []
        import re as _re
        for p, b in c[2]:
            b = isimplify(b)
            # `| .ok (t, o) => let x : T := t; rest`  ->  `| .ok (x, o) => rest`
            if b[0] == "let" and b[3].isidentifier() and b[1].isidentifier() and b[1] != REG and \
                    _re.search(r"(?<![A-Za-z0-9_'.])" + b[3] + r"(?![A-Za-z0-9_'])", p) and \
                    not _re.search(r"(?<![A-Za-z0-9_'.])" + b[1] + r"(?![A-Za-z0-9_'])", p) and \
                    not imentions(b[4], b[3]) and _re.fullmatch(r"t[0-9]+", b[3]):
                p = _re.sub(r"(?<![A-Za-z0-9_'.])" + b[3] + r"(?![A-Za-z0-9_'])", b[1], p)
                b = b[4]
            arms.append((p, b))
        if len(arms) == 2 and arms[0][0].startswith(".error ") and arms[0][1] == ("ret", arms[0][0]) and \
                arms[1][0].startswith(".ok ") and arms[1][1] == ("ret", arms[1][0]):
            return ("ret", c[1])
        return ("match", c[1], arms)
    raise AssertionError(k)


OFF = "%off"       # env key of the offset register: lean name, or None when unknown (after a failed call)
REG = "ctx_offset"


class InterpGen:
    def __init__(self, ctx, sf, fn, ast_variants, kvp_fields):
        self.ctx, self.sf, self.fn = ctx, sf, fn
        self.ast_variants = {v: dict(fs) for v, fs in ast_variants}
        self.kvp_fields = kvp_fields
        self.tmp = 0
        self.taken = set(used_names(fn["body"])) | set(declared_vars(fn["body"])) | {p for p, _ in fn["params"]}
        for n in walk(fn["body"]):
            if n[0] in ("bind",):
                self.taken.add(n[1])
        self.taken |= {"fuel", "slice_fn", "lookup", "evaluate", REG, "e", "interpret"}
        self.loops = {}          # (arm, line) -> (name, text, mutual?)
        self.loop_order = []
        self.arm = None
        self.data_param = self.node_param = self.ctx_param = None
        self.PARAMS = "slice_fn lookup evaluate"
        self.PARAM_SIG = "(slice_fn : SliceFn) (lookup : String → Option Fn) (evaluate : Nat → Fn → List Val → Nat → ERes Val)"

    # -- helpers
    def err(self, msg, line=None):
        where = f"{self.sf.name}:{line}" if line else self.sf.name
        arm = f", arm Ast::{self.arm}" if self.arm else ""
        raise TieError(f"fn interpret ({where}{arm}): {msg}")

    def fresh(self, base="t"):
        while True:
            self.tmp += 1
            n = f"{base}{self.tmp}"
            if n not in self.taken:
                self.taken.add(n)
                return n

    def lname(self, rust):
        return rust + "_" if rust in LEAN_KEYWORDS or rust in ("e", "fuel", "slice_fn", "lookup", "evaluate", REG,
                                                               "interpret", "index_arm", "variable_slice") else rust

    @staticmethod
    def scoped(k, outer, names):
        """continuation `k` entered when control leaves the scope in which `names` were bound: they get their outer meaning back"""
        def k2(t, ty, env2):
            env3 = dict(env2)
            for n in names:
                if n in outer:
                    env3[n] = outer[n]
                else:
                    env3.pop(n, None)
            return k(t, ty, env3)
        return k2

    def rty(self, t):
        """Rust type -> type tag"""
        if t[0] == "ref":
            return self.rty(t[1])
        if t[0] == "slice":
            return ("list", self.rty(t[1]))
        if t[0] == "path":
            n, a = t[1], t[2]
            if n in ("Rcvar", "Variable"):
                return "val"
            if n == "Ast":
                return "ast"
            if n in ("Box", "Rc", "Arc") and len(a) == 1:
                return self.rty(a[0])
            if n == "Vec" and len(a) == 1:
                return ("list", self.rty(a[0]))
            if n == "Option" and len(a) == 1:
                return ("opt", self.rty(a[0]))
            if n == "BTreeMap" and len(a) == 2 and self.rty(a[0]) == "string":
                return ("map", self.rty(a[1]))
            if n in ("String", "str"):
                return "string"
            if n in ("usize", "i32", "bool"):
                return n
            if n == "Comparator":
                return "cmp"
            if n == "KeyValuePair":
                return "kvp"
        self.err(f"type {t!r} is outside the subset")

    def off(self, env, line, what):
        if env.get(OFF) is None:
            self.err(f"{what} after a failed call that takes `ctx`, before `ctx.offset` is assigned: the value of "
                     "the register is not representable in the embedding", line)
        return env[OFF]

    def bind_name(self, name, env):
        """lean name for a new Rust binding `name`"""
        ln = self.lname(name)
        if name in env and name not in self.shadow_ok:
            return self.fresh(ln + "_")
        return ln

    def ename(self, env):
        """binder for the error of a failed call: `e` unless a live value mentions it"""
        import re as _re
        for key, v in env.items():
            if key != OFF and _re.search(r"(?<![A-Za-z0-9_'.])e(?![A-Za-z0-9_'])", v[0]):
                return self.fresh("e")
        return "e"

    # -- effects
    def call_split(self, callterm, env, k, okty="val"):
        """a call returning `ERes`: split into the failing and the succeeding continuation"""
        e = self.ename(env)
        t = self.fresh()
        env_err = dict(env)
        env_err[OFF] = None
        return ("match", callterm, [(f".error {e}", k(e, ("res_err",), env_err)),
                                    (f".ok ({t}, {REG})", k(t, ("res_ok", okty), dict(env, **{OFF: REG})))])

    def pure(self, e, env, exp=None):
        """translate an expression that must not have effects; -> (term, ty)"""
        box = []

        def k(t, ty, env2):
            if env2 is not env and env2.get(OFF) != env.get(OFF):
                self.err("an operand has an effect on `ctx` where the embedding needs a pure expression")
            box.append((t, ty))
            return ("ret", "%HOLE%")
        c = self.E(e, env, k, exp)
        if c != ("ret", "%HOLE%") or len(box) != 1:
            self.err("an operand has an effect (call of `interpret`, `?`, assignment) where the embedding needs a pure "
                     "expression", e[-1] if isinstance(e[-1], int) else None)
        return box[0]

    # -- expressions
    def E(self, e, env, k, exp=None):
        kind = e[0]
        if kind == "path":
            return self.E_path(e, env, k, exp)
        if kind == "bool":
            return k("true" if e[1] else "false", "bool", env)
        if kind == "int":
            ty = e[2] or (exp if exp in ("i32", "usize") else None)
            if ty not in ("i32", "usize"):
                self.err("cannot determine the type of an integer literal", e[3])
            if e[1] > (2147483647 if ty == "i32" else 18446744073709551615):
                self.err("integer literal out of range", e[3])
            return k(str(e[1]), ty, env)
        if kind == "unit":
            return k("()", "unit", env)
        if kind == "unary":
            op = e[1]
            if op in ("&", "*"):
                return self.E(e[2], env, k, exp)
            if op == "!":
                def kn(t, ty, env2):
                    if ty == "bool":
                        return k(f"!{atom(t)}", "bool", env2)
                    if ty == "prop":
                        return k(f"¬ {atom(t)}", "prop", env2)
                    self.err("`!` on a non-boolean", e[3])
                return self.E(e[2], env, kn, "bool")
            self.err(f"unary `{op}` is outside the subset", e[3])
        if kind == "binary":
            return self.E_binary(e, env, k)
        if kind == "try":
            def kt(t, ty, env2):
                if ty == ("res_err",):
                    return ("ret", f".error {atom(t)}")
                if isinstance(ty, tuple) and ty[0] == "res_ok":
                    return k(t, ty[1], env2)
                self.err(f"`?` applied to something that is not a `Result` ({ty})", e[2])
            return self.E(e[1], env, kt)
        if kind == "call":
            return self.E_call(e, env, k, exp)
        if kind == "mcall":
            return self.E_mcall(e, env, k, exp)
        if kind == "field":
            return self.E_field(e, env, k)
        if kind == "macro":
            if e[1] == "vec" and not e[2]:
                want = resolve(exp) if exp is not None else None
                if isinstance(want, tuple) and want[0] == "list":
                    return k("[]", want, env)
                return k("[]", ("list", TyVar()), env)
            self.err(f"macro `{e[1]}!` is outside the subset", e[3])
        if kind == "assign":
            return self.E_assign(e, env, k)
        if kind == "block":
            return self.B(e, env, k, exp)
        if kind == "if":
            return self.E_if(e, env, k, exp)
        if kind == "match":
            return self.E_match(e, env, k, exp)
        if kind == "for":
            return self.E_for(e, env, k)
        if kind == "return":
            if e[1] is None:
                self.err("`return;` in a function returning a value", e[2])
            return self.E(e[1], env, self.retk, "result")
        if kind == "lit" and e[1].startswith('"') and "\\" not in e[1] and "\n" not in e[1]:
            return k(e[1], "string", env)
        if kind == "cast" or kind == "index" or kind == "while" or kind == "struct" or kind == "closure" or kind == "lit":
            self.err(f"expression kind `{kind}` is outside the subset of the `interpret` target", e[-1] if isinstance(e[-1], int) else None)
        self.err(f"expression kind `{kind}` is outside the subset")

    def E_path(self, e, env, k, exp):
        segs = e[1]
        if len(segs) == 1:
            n = segs[0]
            if n in env:
                return k(env[n][0], env[n][1], env)
            if n == "None":
                want = resolve(exp)
                if isinstance(want, tuple) and want[0] == "opt":
                    return k("none", want, env)
                self.err("cannot determine the type of `None`", e[2])
            if n == self.ctx_param:
                return k("%ctx", "ctx", env)
            self.err(f"unknown name `{n}`", e[2])
        name = "::".join(segs)
        if name == "RuntimeError::InvalidSlice":
            return k("RtErr.invalidSlice", "rterr", env)
        if len(segs) == 2 and segs[0] == "Variable" and segs[1] == "Null":
            return k("%Variable::Null", "variant", env)
        self.err(f"path `{name}` is outside the idiom table", e[2])

    def E_binary(self, e, env, k):
        op, l, r, line = e[1], e[2], e[3], e[4]
        lt, lty = self.pure(l, env, "i32" if r[0] != "int" else None) if l[0] != "int" else (None, None)
        if l[0] == "int":
            rt_, rty_ = self.pure(r, env)
            lt, lty = self.pure(l, env, rty_)
        else:
            rt_, rty_ = self.pure(r, env, lty)
        if op in ("&&", "||"):
            if lty == "bool" and rty_ == "bool":
                return k(f"{atom(lt)} {op} {atom(rt_)}", "bool", env)
            if lty in ("bool", "prop") and rty_ in ("bool", "prop"):
                a = lt if lty == "prop" else f"{atom(lt)} = true"
                b = rt_ if rty_ == "prop" else f"{atom(rt_)} = true"
                return k(f"{atom(a)} {'∧' if op == '&&' else '∨'} {atom(b)}", "prop", env)
            self.err(f"`{op}` between {lty} and {rty_}", line)
        if op in ("==", "!=", "<", ">", "<=", ">="):
            if lty != rty_ or lty not in ("i32", "usize"):
                self.err(f"`{op}` between {lty} and {rty_} is outside the subset", line)
            sym = {"==": "=", "!=": "≠", "<": "<", ">": ">", "<=": "≤", ">=": "≥"}[op]
            return k(f"{atom(lt)} {sym} {atom(rt_)}", "prop", env)
        self.err(f"operator `{op}` is outside the subset of the `interpret` target", line)

    def E_field(self, e, env, k):
        recv, f, line = e[1], e[2], e[3]
        if recv[0] == "path" and recv[1] == [self.ctx_param]:
            if f == "offset":
                return k(self.off(env, line, "`ctx.offset` is read"), "usize", env)
            if f == "runtime":
                return k("%runtime", "runtime", env)
            self.err(f"`ctx.{f}` is outside the idiom table", line)
        t, ty = self.pure(recv, env)
        if ty == "kvp" and f in self.kvp_fields:
            return k(f"{atom(t)}.{self.kvp_fields[f][0]}", self.kvp_fields[f][1], env)
        self.err(f"field access `.{f}` on {ty} is outside the idiom table", line)

    def E_assign(self, e, env, k):
        op, lhs, rhs, line = e[1], e[2], e[3], e[4]
        if op != "=":
            self.err(f"`{op}` is outside the subset of the `interpret` target", line)
        if lhs[0] == "field" and lhs[1][0] == "path" and lhs[1][1] == [self.ctx_param] and lhs[2] == "offset":
            t, ty = self.pure(rhs, env, "usize")
            if ty != "usize":
                self.err(f"assigning {ty} to `ctx.offset`", line)
            return ("let", REG, "usize", t, k("()", "unit", dict(env, **{OFF: REG})))
        if lhs[0] == "path" and len(lhs[1]) == 1 and lhs[1][0] in env:
            name = lhs[1][0]
            lean, ty = env[name][0], env[name][1]

            def ka(t, tty, env2):
                if isinstance(tty, tuple) and tty[0] in ("res_ok", "res_err"):
                    self.err("assignment of a `Result` to a variable is outside the subset", line)
                if not unify(ty, tty):
                    self.err(f"assigning {tty} to a variable of type {ty}", line)
                if not lean.isidentifier():
                    self.err(f"assignment to `{name}`, which is not a plain local", line)
                return ("let", lean, ty, t, k("()", "unit", env2))
            return self.E(rhs, env, ka, ty)
        self.err("assignment to something that is neither a local variable nor `ctx.offset`", line)

    def E_ctor_var(self, variant, args, env, k, line):
        if variant not in MODEL_VAR:
            self.err(f"`Variable::{variant}` is outside the idiom table", line)
        ctor, pty = MODEL_VAR[variant]
        if pty is None:
            if args:
                self.err(f"`Variable::{variant}` takes no payload", line)
            return k(f"Val.{ctor}", "val", env)
        if len(args) != 1:
            self.err(f"`Variable::{variant}` takes one payload", line)

        def kp(t, ty, env2):
            if isinstance(ty, tuple) and ty[0] == "iter":
                self.err("an iterator where a collection is expected (missing `.collect()`)", line)
            if ty == "prop" and pty == "bool":
                t, ty = f"decide {atom(t)}", "bool"
            if not unify(pty, ty):
                self.err(f"`Variable::{variant}` applied to {ty}", line)
            return k(f"Val.{ctor} {atom(t)}", "val", env2)
        return self.E(args[0], env, kp, pty)

    def E_call(self, e, env, k, exp):
        f, args, line = e[1], e[2], e[3]
        if f[0] != "path":
            self.err("call of a computed function is outside the subset", line)
        name = "::".join(f[1])
        if name == "Ok" and len(args) == 1:
            def ko(t, ty, env2):
                if isinstance(ty, tuple) and ty[0] in ("res_ok", "res_err"):
                    self.err("nested `Result`", line)
                return k(t, ("res_ok", ty), env2)
            return self.E(args[0], env, ko)
        if name == "Err" and len(args) == 1:
            def ke(t, ty, env2):
                if ty != "jerr":
                    self.err(f"`Err` of {ty}: only `JmespathError::from_ctx(..)` is in the idiom table", line)
                return k(t, ("res_err",), env2)
            return self.E(args[0], env, ke)
        if name == "Some" and len(args) == 1:
            return self.E(args[0], env, lambda t, ty, env2: k(f"some {atom(t)}", ("opt", ty), env2))
        if name in ("Rcvar::new", "Rc::new", "Arc::new") and len(args) == 1:
            a = args[0]
            if a[0] == "path" and len(a[1]) == 2 and a[1][0] == "Variable":
                return self.E_ctor_var(a[1][1], [], env, k, line)
            if a[0] == "call" and a[1][0] == "path" and len(a[1][1]) == 2 and a[1][1][0] == "Variable":
                return self.E_ctor_var(a[1][1][1], a[2], env, k, line)
            self.err(f"`{name}` of something that is not `Variable::X(..)`", line)
        if name == "BTreeMap::new" and not args:
            return k("[]", ("map", "val"), env)
        if name == "ErrorReason::Runtime" and len(args) == 1:
            t, ty = self.pure(args[0], env)
            if ty != "rterr":
                self.err(f"`ErrorReason::Runtime` of {ty}", line)
            return k(t, "reason", env)
        if name == "RuntimeError::UnknownFunction" and len(args) == 1:
            t, ty = self.pure(args[0], env)
            if ty != "string":
                self.err(f"`RuntimeError::UnknownFunction` of {ty}", line)
            return k(f"RtErr.unknownFunction {atom(t)}", "rterr", env)
        if name == "JmespathError::from_ctx" and len(args) == 2:
            if not (args[0][0] == "path" and args[0][1] == [self.ctx_param]):
                self.err("`JmespathError::from_ctx` whose first argument is not `ctx`", line)
            t, ty = self.pure(args[1], env)
            if ty != "reason":
                self.err(f"`JmespathError::from_ctx(ctx, r)` with r of type {ty}: only `ErrorReason::Runtime(..)` is in "
                         "the idiom table", line)
            return k(f"EvalErr.runtime {atom(t)} {self.off(env, line, '`ctx.offset` is read (from_ctx)')}", "jerr", env)
        if name == self.fn["name"] and len(args) == 3:
            if not (args[2][0] == "path" and args[2][1] == [self.ctx_param]):
                self.err("recursive call whose last argument is not `ctx`", line)
            d, dty = self.pure(args[0], env)
            n, nty = self.pure(args[1], env)
            if dty != "val" or nty != "ast":
                self.err(f"recursive call with arguments of types {dty}, {nty}", line)
            reg = self.off(env, line, "`interpret` is called")
            return self.call_split(f"interpret {self.PARAMS} fuel {atom(d)} {atom(n)} {reg}", env, k)
        self.err(f"call of `{name}` is outside the idiom table", line)

    def E_mcall(self, e, env, k, exp):
        recv, m, args, line = e[1], e[2], e[3], e[4]
        targs = e[5] if len(e) > 5 else None
        # statements on a local collection
        if m in ("push", "extend", "insert", "reverse") and recv[0] == "path" and len(recv[1]) == 1 and recv[1][0] in env:
            name = recv[1][0]
            lean, ty = env[name][0], resolve(env[name][1])
            if isinstance(ty, tuple) and ty[0] == "list" and m == "reverse" and not args:
                return ("let", lean, env[name][1], f"List.reverse {lean}", k("()", "unit", env))
            if isinstance(ty, tuple) and ty[0] == "list" and m == "push" and len(args) == 1:
                def kp(t, tty, env2):
                    if isinstance(tty, tuple) and tty[0] in ("res_ok", "res_err"):
                        self.err("pushing a `Result`", line)
                    if not unify(ty[1], tty):
                        self.err(f"pushing {tty} onto a Vec of {ty[1]}", line)
                    return ("let", lean, env[name][1], f"{lean} ++ [{t}]", k("()", "unit", env2))
                return self.E(args[0], env, kp, ty[1])
            if isinstance(ty, tuple) and ty[0] == "list" and m == "extend" and len(args) == 1:
                t, tty = self.pure(args[0], env)
                tty = resolve(tty)
                if not (isinstance(tty, tuple) and tty[0] in ("iter", "list") and unify(ty[1], tty[1])):
                    self.err(f"extending a Vec of {ty[1]} with {tty}", line)
                return ("let", lean, env[name][1], f"{lean} ++ {atom(t)}", k("()", "unit", env))
            if isinstance(ty, tuple) and ty[0] == "map" and m == "insert" and len(args) == 2:
                kt, kty = self.pure(args[0], env)
                if kty != "string":
                    self.err(f"`insert` with a key of type {kty}", line)

                def ki(t, tty, env2):
                    if not unify(ty[1], tty):
                        self.err(f"inserting {tty} into a map of {ty[1]}", line)
                    return ("let", lean, env[name][1], f"insertKV {atom(kt)} {atom(t)} {lean}", k("%insert", "discard", env2))
                return self.E(args[1], env, ki, ty[1])
        if m == "evaluate" and len(args) == 2:
            f, fty = self.pure(recv, env)
            if fty != "fn":
                self.err(f"`.evaluate` on {fty}", line)
            if not (args[1][0] == "path" and args[1][1] == [self.ctx_param]):
                self.err("`.evaluate(args, x)` whose last argument is not `ctx`", line)
            a, aty = self.pure(args[0], env)
            if not unify(aty, ("list", "val")):
                self.err(f"`.evaluate` with arguments of type {aty}", line)
            reg = self.off(env, line, "`evaluate` is called")
            return self.call_split(f"evaluate fuel {atom(f)} {atom(a)} {reg}", env, k)

        def kr(r, rty, env2):
            rty = resolve(rty)
            if rty == "runtime" and m == "get_function" and len(args) == 1:
                t, ty = self.pure(args[0], env2)
                if ty != "string":
                    self.err(f"`get_function` of {ty}", line)
                return k(f"lookup {atom(t)}", ("opt", "fn"), env2)
            if m in ("clone", "to_owned", "as_ref", "to_string") and not args and rty in ("val", "ast", "string", "cmp") \
                    and not (m == "to_string" and rty != "string"):
                return k(r, rty, env2)
            if m == "clone" and not args and isinstance(rty, tuple) and rty[0] in ("list", "map"):
                return k(r, rty, env2)
            if rty == "val":
                if m == "get_field" and len(args) == 1:
                    t, ty = self.pure(args[0], env2)
                    if ty != "string":
                        self.err(f"`get_field` of {ty}", line)
                    return k(f"Val.getField {atom(r)} {atom(t)}", "val", env2)
                if m == "is_truthy" and not args:
                    return k(f"Val.truthy {atom(r)}", "bool", env2)
                if m == "is_null" and not args:
                    return k(f"Val.isNull {atom(r)}", "bool", env2)
                if m == "compare" and len(args) == 2:
                    c, cty = self.pure(args[0], env2)
                    o, oty = self.pure(args[1], env2)
                    if cty != "cmp" or oty != "val":
                        self.err(f"`compare` with arguments of types {cty}, {oty}", line)
                    return k(f"Val.compare {atom(c)} {atom(r)} {atom(o)}", ("opt", "bool"), env2)
                if m == "as_array" and not args:
                    return k(r, ("opt_arr",), env2)
                if m == "slice" and len(args) == 3:
                    ts = []
                    for a, want in zip(args, (("opt", "i32"), ("opt", "i32"), "i32")):
                        t, ty = self.pure(a, env2, want)
                        if resolve(ty) != want:
                            self.err(f"`slice` with an argument of type {ty}", line)
                        ts.append(atom(t))
                    self.uses_variable_slice = True
                    v, e_ = self.fresh(), self.ename(env2)
                    return ("match", f"variable_slice slice_fn {atom(r)} {' '.join(ts)}",
                            [(f".error {e_}", ("ret", f".error {e_}")),
                             (f".ok {v}", k(v, ("opt", ("list", "val")), env2))])
            if isinstance(rty, tuple) and rty[0] == "opt" and m == "map_or" and len(args) == 2:
                d, dty = self.pure(args[0], env2)
                cl = args[1]
                if cl[0] != "closure" or len(cl[1]) != 1 or cl[1][0][0] != "bind":
                    self.err("`map_or` whose second argument is not a one-parameter closure", line)
                x = cl[1][0][1]
                lx = self.bind_name(x, env2)
                env3 = dict(env2)
                env3[x] = (lx, rty[1], 99)
                b, bty = self.pure(cl[2], env3)
                if not unify(dty, bty):
                    self.err(f"`map_or` with a default of type {dty} and a closure returning {bty}", line)
                return k(f"(match {r} with | some {lx} => {b} | none => {d})", bty, env2)
            if isinstance(rty, tuple) and rty[0] == "map" and m == "values" and not args:
                return k(f"List.map Prod.snd {atom(r)}", ("iter", rty[1]), env2)
            if isinstance(rty, tuple) and rty[0] == "list" and m == "iter" and not args:
                return k(r, ("iter", rty[1]), env2)
            if isinstance(rty, tuple) and rty[0] == "iter" and m == "cloned" and not args:
                return k(r, rty, env2)
            if isinstance(rty, tuple) and rty[0] == "iter" and m == "rev" and not args:
                return k(f"List.reverse {atom(r)}", rty, env2)
            if isinstance(rty, tuple) and rty[0] == "iter" and m == "collect" and not args:
                want = None
                if targs is not None and len(targs) == 1:
                    want = self.rty(targs[0]) if not (targs[0][0] == "path" and targs[0][1] == "Vec" and
                                                       targs[0][2] and targs[0][2][0] == ("path", "_", [])) else ("list", rty[1])
                elif exp is not None:
                    want = resolve(exp)
                if not (isinstance(want, tuple) and want[0] == "list" and unify(want[1], rty[1])):
                    self.err(f"`collect` of an iterator over {rty[1]} into {want}: only `Vec` is in the idiom table", line)
                return k(r, ("list", rty[1]), env2)
            self.err(f"method `.{m}` on {rty} is outside the idiom table", line)
        return self.E(recv, env, kr)

    # -- patterns: -> (lean pattern, env')
    def P(self, pat, sty, env, line):
        env = dict(env)
        sty = resolve(sty)
        k = pat[0]
        if k == "wild":
            return "_", env
        if k == "bind":
            ln = self.bind_name(pat[1], env)
            env[pat[1]] = (ln, sty, 99)
            return ln, env
        name = "::".join(pat[1]) if k in ("tstruct", "ppath", "pstruct") else None
        subs = pat[2] if k == "tstruct" else []
        if k in ("tstruct", "ppath") and isinstance(sty, tuple) and sty[0] in ("opt", "opt_arr"):
            inner = ("list", "val") if sty[0] == "opt_arr" else sty[1]
            if name == "Some" and len(subs) == 1 and subs[0][0] in ("bind", "wild"):
                sp, env = self.P(subs[0], inner, env, line)
                return (f".arr {sp}" if sty[0] == "opt_arr" else f"some {sp}"), env
            if name == "None" and k == "ppath":
                return ("%none" if sty[0] == "opt_arr" else "none"), env
        if k in ("tstruct", "ppath") and sty == "val" and len(pat[1]) == 2 and pat[1][0] == "Variable" \
                and pat[1][1] in MODEL_VAR:
            ctor, pty = MODEL_VAR[pat[1][1]]
            if pty is None and k == "ppath":
                return f".{ctor}", env
            if pty is not None and len(subs) == 1 and subs[0][0] in ("bind", "wild"):
                sp, env = self.P(subs[0], pty, env, line)
                return f".{ctor} {sp}", env
        if k == "pstruct" and sty == "ast" and len(pat[1]) == 2 and pat[1][0] == "Ast" and pat[1][1] in MODEL_AST:
            variant = pat[1][1]
            ctor, order = MODEL_AST[variant]
            ftys = self.ast_variants[variant]
            given = dict(pat[2])
            for f in given:
                if f not in ftys:
                    self.err(f"`Ast::{variant}` has no field `{f}`", line)
            if not pat[3] and set(given) != set(order):
                self.err(f"pattern `Ast::{variant} {{ .. }}` does not name every field", line)
            parts = []
            for f in order:
                if f not in given:
                    parts.append("_")
                    continue
                if given[f][0] not in ("bind", "wild"):
                    self.err("nested patterns are outside the subset", line)
                sp, env = self.P(given[f], self.rty(ftys[f]), env, line)
                parts.append(sp)
            return " ".join([f".{ctor}"] + parts), env
        self.err(f"pattern {name or pat!r} on {sty} is outside the subset", line)

    # -- control flow
    def cond(self, c, env, k):
        """condition of an `if`: -> k(lean condition text, env)"""
        t, ty = self.pure(c, env, "bool")
        if ty not in ("bool", "prop"):
            self.err(f"condition of type {ty}")
        return t

    def E_if(self, e, env, k, exp):
        cnd, then, els, line = e[1], e[2], e[3], e[4]

        def else_comp(env2):
            if els is None:
                return k("()", "unit", env2)
            if els[0] == "if":
                return self.E_if(els, env2, k, exp)
            return self.B(els, env2, k, exp)
        if cnd[0] == "letcond":
            pat, scrut = cnd[1], cnd[2]

            def ks(s, sty, env2):
                lp, env3 = self.P(pat, sty, env2, line)
                if pat[0] in ("bind", "wild"):
                    self.err("irrefutable `if let`", line)
                kthen = self.scoped(k, env2, pat_binders(pat))
                if lp == "%none":
                    return ("match", s, [(".arr _", else_comp(env2)), ("_", self.B(then, env3, kthen, exp))])
                return ("match", s, [(lp, self.B(then, env3, kthen, exp)), ("_", else_comp(env2))])
            return self.E(scrut, env, ks)
        return ("if", self.cond(cnd, env, k), self.B(then, env, k, exp), else_comp(env))

    def E_match(self, e, env, k, exp):
        scrut, arms, line = e[1], e[2], e[3]

        def ks(s, sty, env2):
            sty = resolve(sty)
            if isinstance(sty, tuple) and sty[0] in ("res_ok", "res_err"):
                self.err("`match` on a `Result` is outside the subset (use `?`)", line)
            out, wild, rest_arm = [], None, None
            for pat, guard, body in arms:
                if guard is not None:
                    self.err("match guards are outside the subset of the `interpret` target", line)
                if pat[0] == "or":
                    self.err("or-patterns are outside the subset of the `interpret` target", line)
                if pat[0] == "bind":
                    self.err("binding the whole scrutinee in a match arm is outside the subset", line)
                if wild is not None:
                    continue      # unreachable in Rust as well
                lp, env3 = self.P(pat, sty, env2, line)
                c = self.E(body, env3, self.scoped(k, env2, pat_binders(pat)), exp)
                if lp == "_":
                    wild = c
                elif lp == "%none":   # `None` of `.as_array()`: every value that is not an array
                    if rest_arm is None:
                        rest_arm = c
                else:
                    out.append((lp, c))
            if rest_arm is not None:
                out.append(("_", rest_arm))
            elif wild is not None:
                out.append(("_", wild))
            if len(out) == 1 and out[0][0] == "_":
                return out[0][1]
            return ("match", s, out)
        return self.E(scrut, env, ks)

    def B(self, block, env, k, exp=None):
        stmts, tail = block[1], block[2]
        # the block's own declarations end with it
        k = self.scoped(k, env, [s[1][1] for s in stmts if s[0] == "let" and s[1][0] == "bind"])

        def go(i, env):
            if i == len(stmts):
                if tail is None:
                    return k("()", "unit", env)
                return self.E(tail, env, k, exp)
            s = stmts[i]
            if s[0] == "let":
                pat, ty, init, line = s[1], s[2], s[3], s[4]
                if pat[0] != "bind":
                    self.err("only `let name` patterns are in the subset", line)
                if init is None:
                    self.err("`let` without initialiser is outside the subset", line)
                name = pat[1]
                dty = self.rty(ty) if ty else None

                def kl(t, tty, env2):
                    if tty in ("unit", "discard", "ctx", "runtime", "variant"):
                        self.err(f"`let {name}` bound to something that is not a value", line)
                    if dty is not None and not (isinstance(tty, tuple) and tty[0] in ("res_ok", "res_err")) \
                            and not unify(dty, tty):
                        self.err(f"`let {name}: {dty}` initialised with {tty}", line)
                    env3 = dict(env2)
                    static = isinstance(tty, tuple) and tty[0] in ("res_ok", "res_err", "opt_arr", "iter")
                    if static and all(ch.isalnum() or ch in "_'" for ch in t):
                        env3[name] = (t, tty, 1)
                        return go(i + 1, env3)
                    if tty == "prop":
                        t, tty = f"decide {atom(t)}", "bool"
                    lean = self.bind_name(name, env2) if not static else self.fresh()
                    if static:
                        lty = {"res_ok": tty[1] if tty[0] == "res_ok" else None, "res_err": "jerr",
                               "opt_arr": "val"}.get(tty[0])
                        if tty[0] == "iter":
                            lty = ("list", tty[1])
                        env3[name] = (lean, tty, 1)
                        return ("let", lean, lty, t, go(i + 1, env3))
                    env3[name] = (lean, tty, 1)
                    return ("let", lean, tty, t, go(i + 1, env3))
                return self.E(init, env, kl, dty)
            e = s[1]

            def ke(t, tty, env2):
                if isinstance(tty, tuple) and tty[0] in ("res_ok", "res_err"):
                    self.err("a `Result` is dropped without `?`", s[2])
                return go(i + 1, env2)
            return self.E(e, env, ke)
        return go(0, env)

    # -- loops
    def E_for(self, e, env, k):
        pat, it, body, line, endline = e[1], e[2], e[3], e[4], e[5]
        if pat[0] != "bind":
            self.err("`for` with a pattern other than a name is outside the subset", line)
        if has_kind(body, "return") or has_kind(body, "for") or has_kind(body, "while"):
            self.err("`return` or a nested loop inside `for` is outside the subset", line)
        itt, itty = self.pure(it, env)
        itty = resolve(itty)
        if not (isinstance(itty, tuple) and itty[0] in ("list", "iter")):
            self.err(f"`for` over {itty} is outside the subset", line)
        elty = itty[1]
        inner_decl = set(declared_vars(body)) | {pat[1]}
        state = []
        for n in walk(body):
            v = None
            if n[0] == "assign" and n[2][0] == "path" and len(n[2][1]) == 1:
                v = n[2][1][0]
            if n[0] == "mcall" and n[2] in ("push", "extend", "insert", "reverse") and n[1][0] == "path" and len(n[1][1]) == 1:
                v = n[1][1][0]
            if v is not None and v in env and v not in inner_decl and v not in state:
                state.append(v)
        state = [v for v in env if v in state]
        names = used_names(body)
        touches_ctx = self.ctx_param in names
        can_fail = has_kind(body, "try")
        frees = [v for v in env if v != OFF and v in names and v not in state and v not in inner_decl
                 and v != self.ctx_param]
        for v in frees + state:
            if not env[v][0].isidentifier():
                self.err(f"loop uses `{v}`, which is not a plain local", line)
            if isinstance(resolve(env[v][1]), tuple) and resolve(env[v][1])[0] in ("res_ok", "res_err", "opt_arr", "iter"):
                self.err(f"loop uses `{v}` of type {env[v][1]}", line)
        mutual = touches_ctx or can_fail
        lst = itt if itt.isidentifier() and itt not in [env[v][0] for v in frees + state] else self.fresh("items")
        x = self.lname(pat[1])
        if x in [env[v][0] for v in frees + state] or x == lst:
            x = self.fresh(x + "_")
        key = (self.arm, line)
        base = f"interpret_{snake(self.arm or 'body')}_loop"
        if key in self.loops:
            lname = self.loops[key][0]
        else:
            n = sum(1 for kk in self.loops if kk[0] == self.arm)
            lname = base if n == 0 else f"{base}_{n + 1}"
        sttuple = "()" if not state else (env[state[0]][0] if len(state) == 1 else
                                          "(" + ", ".join(env[v][0] for v in state) + ")")
        benv = {v: (env[v][0], env[v][1], 0) for v in frees + state}
        benv[pat[1]] = (x, elty, 1)
        if mutual:
            reg = self.off(env, line, "a loop that uses `ctx` starts")
            benv[OFF] = REG
            call = " ".join([lname, self.PARAMS, "fuel", lst] + [env[v][0] for v in frees] +
                            [env[v][0] for v in state] + [REG])

            def kend(t, ty, env2):
                if env2.get(OFF) is None:
                    self.err("the loop body ends with `ctx.offset` unknown", line)
                return ("ret", call)
            bodyc = isimplify(self.B(body, benv, kend))
            stty = "Unit" if not state else " × ".join(atom(ity(env[v][1]) or "_") for v in state)
            doc = (f"/-- `for {pat[1]} in ..` of `Ast::{self.arm}`, {self.sf.name}:{line}-{endline}; reads: "
                   f"{', '.join(frees) or '-'}; state: {', '.join(state + ['ctx.offset'])} -/")
            argtys = [f"List {atom(ity(elty))}"] + [ity(env[v][1]) for v in frees] + [ity(env[v][1]) for v in state]
            lines = [doc,
                     f"def {lname} {self.PARAM_SIG} :",
                     "    Nat → " + " → ".join(argtys + ["Nat"]) + f" → ERes {atom(stty)}",
                     "  | " + ", ".join(["0"] + ["_"] * (len(argtys) + 1)) + " => .error .fuel",
                     "  | " + ", ".join(["fuel + 1", lst] + [env[v][0] for v in frees] +
                                        [env[v][0] for v in state] + [REG]) + " =>",
                     f"    match {lst} with",
                     f"    | [] => .ok ({sttuple}, {REG})",
                     f"    | {x} :: {lst} =>"]
            lines += irender(bodyc, 3)
            text = "\n".join(lines)
            start = " ".join([lname, self.PARAMS, "fuel", atom(itt)] + [env[v][0] for v in frees] +
                             [env[v][0] for v in state] + [reg])
            ename = self.ename(env)
            after = ("match", start, [(f".error {ename}", ("ret", f".error {ename}")),
                                      (f".ok ({sttuple if state else '_'}, {REG})", k("()", "unit", dict(env, **{OFF: REG})))])
        else:
            call = " ".join([lname, lst] + [env[v][0] for v in frees] + [env[v][0] for v in state])

            def kend(t, ty, env2):
                return ("ret", call)
            bodyc = isimplify(self.B(body, benv, kend))
            stty = "Unit" if not state else " × ".join(atom(ity(env[v][1]) or "_") for v in state)
            doc = (f"/-- `for {pat[1]} in ..` of `Ast::{self.arm}`, {self.sf.name}:{line}-{endline} (the body neither uses `ctx` "
                   f"nor fails: structural recursion); reads: {', '.join(frees) or '-'}; state: {', '.join(state) or '-'} -/")
            argtys = [f"List {atom(ity(elty))}"] + [ity(env[v][1]) for v in frees] + [ity(env[v][1]) for v in state]
            lines = [doc,
                     f"def {lname} : " + " → ".join(argtys) + f" → {stty}",
                     "  | " + ", ".join(["[]"] + [env[v][0] for v in frees] + [env[v][0] for v in state]) + f" => {sttuple}",
                     "  | " + ", ".join([f"{x} :: {lst}"] + [env[v][0] for v in frees] + [env[v][0] for v in state]) + " =>"]
            lines += irender(bodyc, 2)
            text = "\n".join(lines)
            start = " ".join([lname, atom(itt)] + [env[v][0] for v in frees] + [env[v][0] for v in state])
            if not state:
                after = k("()", "unit", env)
            elif len(state) == 1:
                after = ("let", env[state[0]][0], env[state[0]][1], start, k("()", "unit", env))
            else:
                after = ("match", start, [(sttuple, k("()", "unit", env))])
        if key in self.loops:
            if self.loops[key][1] != text:
                self.err("a loop reached along two paths translates differently", line)
        else:
            self.loops[key] = (lname, text, mutual)
            self.loop_order.append(key)
        return after

    # -- results
    def retk(self, t, ty, env):
        ty = resolve(ty)
        if ty == ("res_err",):
            return ("ret", f".error {atom(t)}")
        if isinstance(ty, tuple) and ty[0] == "res_ok":
            if resolve(ty[1]) != "val":
                self.err(f"the function returns `Ok` of {ty[1]}")
            if env.get(OFF) is None:
                self.err("`Ok(..)` is returned after a failed call that takes `ctx`, before `ctx.offset` is assigned")
            return ("ret", f".ok ({t}, {env[OFF]})")
        self.err(f"the function returns {ty}, not a `SearchResult`")

    # -- the function
    def gen(self):
        fn = self.fn
        ps = fn["params"]
        if len(ps) != 3:
            self.err("expected `fn interpret(data, node, ctx)`")
        (d, dt), (n, nt), (c, ct) = ps
        if self.rty(dt) != "val" or self.rty(nt) != "ast":
            self.err("expected `fn interpret(data: &Rcvar, node: &Ast, ctx: &mut Context<'_>)`")
        if not (ct[0] == "ref" and ct[1][0] == "path" and ct[1][1] == "Context"):
            self.err("expected the third parameter to be `ctx: &mut Context<'_>`")
        rt = fn["ret"]
        if not (rt[0] == "path" and rt[1] == "SearchResult"):
            self.err("expected the return type `SearchResult`")
        self.data_param, self.node_param, self.ctx_param = d, n, c
        body = fn["body"]
        if body[1] or body[2] is None or body[2][0] != "match":
            self.err("expected the body to be a single `match *node { .. }`")
        m = body[2]
        scrut = m[1]
        while scrut[0] == "unary" and scrut[1] in ("*", "&"):
            scrut = scrut[2]
        if not (scrut[0] == "path" and scrut[1] == [n]):
            self.err("expected the body to be a single `match *node { .. }`")
        ld, ln = self.lname(d), self.lname(n)
        env0 = {d: (ld, "val", 0), n: (ln, "ast", 0), OFF: REG}
        arms_out, seen, wild = [], set(), None
        for pat, guard, abody in m[2]:
            line = None
            if guard is not None:
                self.err("guards on the arms of `match *node` are outside the subset")
            if pat[0] == "wild":
                self.arm = "_"
                self.shadow_ok = set()
                wild = isimplify(self.E(abody, env0, self.retk, "result"))
                continue
            if pat[0] != "pstruct" or len(pat[1]) != 2 or pat[1][0] != "Ast" or pat[1][1] not in MODEL_AST:
                self.err(f"arm pattern {pat!r} of `match *node` is outside the subset")
            variant = pat[1][1]
            if variant in seen:
                self.err(f"two arms for `Ast::{variant}`")
            seen.add(variant)
            self.arm = variant
            self.shadow_ok = {n, d}      # the arm is in tail position: its binders may shadow the parameters
            lp, env1 = self.P(pat, "ast", env0, None)
            self.shadow_ok = set()
            if variant == "Index":
                idx = dict(pat[2]).get("idx")
                if idx is None or idx[0] != "bind":
                    self.err("the `Ast::Index` arm does not bind `idx`")
                comp = ("ret", f"index_arm {ld} {env1[idx[1]][0]} {REG}")
            else:
                comp = isimplify(self.E(abody, env1, self.retk, "result"))
            arms_out.append((variant, lp, comp, self.sf.arm_lines.get(id(pat))))
        self.arm = None
        if wild is None and seen != set(MODEL_AST):
            self.err(f"`match *node` has no arm for {sorted(set(MODEL_AST) - seen)}")
        return ld, ln, arms_out, wild


def check_variable_slice(ctx, var):
    """`Variable::slice` must be `self.as_array().map(|a| slice(a, start, stop, step))` (the hard-mapped idiom)"""
    fn = Parser(var, var.find_fn("Variable", "slice")).fn()
    ctx.add_region(var, fn["toks"][0], fn["toks"][1])
    ok = False
    b = fn["body"]
    ps = [p for p, _ in fn["params"]]
    if not b[1] and b[2] is not None and len(ps) == 4 and ps[0] == "self":
        t = b[2]
        if t[0] == "mcall" and t[2] == "map" and len(t[3]) == 1 and t[1][0] == "mcall" and t[1][2] == "as_array" \
                and not t[1][3] and t[1][1][0] == "path" and t[1][1][1] == ["self"]:
            cl = t[3][0]
            if cl[0] == "closure" and len(cl[1]) == 1 and cl[1][0][0] == "bind":
                a = cl[1][0][1]
                c = cl[2]
                if c[0] == "call" and c[1][0] == "path" and c[1][1] == ["slice"] and \
                        [x[1] if x[0] == "path" else None for x in c[2]] == [[a], [ps[1]], [ps[2]], [ps[3]]]:
                    ok = True
    if not ok:
        raise TieError("fn Variable::slice (variable.rs) is no longer `self.as_array().map(|a| slice(a, start, stop, step))`: "
                       "the idiom `data.slice(..)` of the table is not justified")


def generate_interp():
    ctx = Ctx()
    ast = ctx.file("ast.rs")
    interp = ctx.file("interpreter.rs")
    var = ctx.file("variable.rs")
    if "Ast" not in ast.enums:
        raise TieError("cannot find `enum Ast` in ast.rs")
    p = Parser(ast, ast.enums["Ast"])
    a0 = p.i
    _, avariants, _, _ = p.enum()
    ctx.add_region(ast, a0, p.i)
    have = {v: [f for f, _ in fs] for v, fs in avariants}
    for v, (ctor, order) in MODEL_AST.items():
        if v not in have or sorted(have[v]) != sorted(order):
            raise TieError(f"`Ast::{v}` in ast.rs has fields {have.get(v)}, the model's `Ast.{ctor}` has {order}")
    for v in have:
        if v not in MODEL_AST:
            raise TieError(f"`Ast::{v}` in ast.rs has no counterpart in the model")
    if "KeyValuePair" not in ast.structs:
        raise TieError("cannot find `struct KeyValuePair` in ast.rs")
    sp = Parser(ast, ast.structs["KeyValuePair"])
    a0 = sp.i
    _, kfields, _, _ = sp.struct()
    ctx.add_region(ast, a0, sp.i)
    if [(f, t[1]) for f, t in kfields if t[0] == "path"] != [("key", "String"), ("value", "Ast")] or len(kfields) != 2:
        raise TieError("`struct KeyValuePair` is no longer `{ key: String, value: Ast }`")
    kvp = {"key": ("1", "string"), "value": ("2", "ast")}
    check_variable_slice(ctx, var)
    fn = Parser(interp, interp.find_fn(None, "interpret", True)).fn()
    ctx.add_region(interp, fn["toks"][0], fn["toks"][1])
    g = InterpGen(ctx, interp, fn, avariants, kvp)
    ld, ln, arms, wild = g.gen()
    # line ranges of the arms, for the comments
    out = [INTERP_HEADER]
    out.append(f"/-! ### interpreter.rs: `fn interpret`, lines {fn['start']}-{fn['end']} -/")
    for key in g.loop_order:
        name, text, mutual = g.loops[key]
        if not mutual:
            out.append(text)
    lines = ["mutual", "",
             f"/-- `fn interpret`, {interp.name}:{fn['start']}-{fn['end']} -/",
             f"def interpret {g.PARAM_SIG} :",
             "    Nat → Val → Ast → Nat → ERes Val",
             "  | 0, _, _, _ => .error .fuel",
             f"  | fuel + 1, {ld}, {ln}, {REG} =>",
             f"    match {ln} with"]
    for variant, lp, comp, span in arms:
        where = "" if not span else (f", {interp.name}:{span[0]}" + (f"-{span[1]}" if span[1] != span[0] else ""))
        lines.append(f"    -- `Ast::{variant}`{where}")
        lines.append(f"    | {lp} =>")
        lines += irender(comp, 3)
    if wild is not None:
        lines.append("    | _ =>")
        lines += irender(wild, 3)
    block = ["\n".join(lines)]
    for key in g.loop_order:
        name, text, mutual = g.loops[key]
        if mutual:
            block.append(text)
    block.append("end")
    out.append("\n\n".join(block))
    out.append(f"/-- SHA-256 over the tokens of the translated regions (informational) -/\n"
               f"def sourceDigest : String := \"{ctx.digest.hexdigest()}\"")
    out.append("end JmesVerif.Generated.InterpCode")
    return "\n\n".join(out) + "\n"


# ----------------------------------------------------------------------------------------------
# Third target: signature validation, the type names, equality and ordering of `Variable`  ->  Generated/ValidCode.lean
# ----------------------------------------------------------------------------------------------
OUT_VALID = os.path.join(os.path.dirname(OUT), "ValidCode.lean")

VALID_HEADER = r"""/- GENERATED by tools/rs2lean.py from functions.rs / variable.rs of /repo/jmespath/src — do not edit.

Translated bodies: the `Variable::as_*` / `is_*` accessors, `impl Display for JmespathType`, `ArgumentType::is_valid`,
`impl Display for ArgumentType`, `Signature::validate_arity` / `validate_arg` / `validate`, `float_eq`,
`impl PartialEq for Variable` (`eq`) and `impl Ord for Variable` (`cmp`).  `Lemmas/ValidEquiv.lean` proves each one equal
to the hand model (`ArgT.isValid`, `ArgT.name`, `JType.name`, `Sig.validate`, `floatEq`, `Val.beq`, `Val.cmp`).

Translation scheme (trusted):
  * types: `Rcvar`/`Variable` ↦ `Val`, `ArgumentType` ↦ `ArgT`, `JmespathType` ↦ `JType`, `Ordering` ↦ `Ordering`,
    `serde_json::Number` ↦ `Num`, `f64` ↦ `F64` (the soft-float model), `usize` ↦ `Nat`, `String`/`&str` ↦ `String`,
    `Vec<T>`/`&[T]` ↦ `List T`, `BTreeMap<String, T>` ↦ `List (String × T)` (key order), `Option<T>` ↦ `Option T`,
    `Box<T>`/`&T` ↦ `T`; constructors and patterns of the enums map to the model's constructors by a table that is
    checked against the `enum` declarations of the source (variant names, arities, payload types).
  * `&self` of `Signature` is the two parameters `self_inputs`, `self_variadic` (the struct is re-read from the source).
  * a function returning `Result<T, JmespathError>` returns `Except Fail T`: `Err(JmespathError::from_ctx(ctx, r))`
    is `.error (.err r)` (the `ctx: &Context` parameter is immutable and only feeds `from_ctx`: it is dropped, `toExcept off`
    puts `ctx.offset` back), `e?` propagates, a checked `xs[i]` that is out of bounds is `.error (.fault .outOfBounds)`,
    a `usize` `+`/`-` that overflows is `.error (.fault .overflow)`.  Nothing is totalised silently.
  * `match` with guards is compiled per constructor: the arms that can match the constructor, in source order, become an
    `if guard then body else next` chain (Rust's first-match semantics).
  * `for (k, v) in xs.iter().enumerate() { .. }` / `for v in xs { .. }` become structural recursions over the list
    (one function per loop; the counter starts at 0 and is incremented by 1: a slice has fewer than 2^63 elements).
  * `.iter().all(|x| b)` / `.any(|x| b)` / `.map(|x| b)` are `List.all` / `List.any` / `List.map`; when `b` calls the
    function being defined they are spelled as the equivalent structural recursion inside the `mutual` block (Lean's
    termination checker needs that); `.iter().zip(ys.iter()).all(|(x, y)| b)` likewise (stops at the shorter list).
  * `fn fmt(&self, fmt: &mut Formatter) -> fmt::Result` whose every path ends in one `write!(fmt, "..{}..", args)` is the
    function returning the text written; `x.to_string()` is that function (`impl Display` ⇒ `ToString`).
  * API idioms, fixed table:
      x.clone(), x.to_owned(), &x, *x, x.as_ref(), xs.iter(), it.cloned(), it.collect::<Vec<_>>()  ↦  x
      v.get_type() ↦ Val.type v (tied to the source by `gen_type_eq`, Lemmas/CodeEquiv)
      n.as_f64() (serde_json::Number, no arbitrary_precision) ↦ some (Num.toF64 n)
      o.is_some() / is_none() / unwrap_or(d) / or(o') ↦ Option.isSome / isNone / getD / or;  o.map_or(d, |x| b) ↦ match
      xs.len() ↦ List.length;  xs.get(i) ↦ xs[i]?;  xs[i] ↦ indexChecked xs i;  strs.join(s) ↦ String.intercalate s strs
      f64:  a + b, a - b, a * b, a / b ↦ F64.add / sub / mul / div (one IEEE rounding each);  a == b ↦ F64.feq;
            a < b ↦ F64.flt a b;  a > b ↦ F64.flt b a;  a <= b ↦ F64.fle a b;  a >= b ↦ F64.fle b a;
            a.abs() ↦ F64.abs;  a.min(b) ↦ F64.fmin;  a.is_normal() ↦ F64.isNormal;  a.is_nan() ↦ F64.isNaN;
            f64::EPSILON / MIN_POSITIVE / MAX ↦ F64.epsilon / minPositive / maxVal;
            a.partial_cmp(&b) ↦ f64PartialCmp a b (prelude below)
      s.cmp(t) on strings ↦ compare s t (code-point order = UTF-8 byte order)
      `==` / `!=`: on `usize` the proposition; on `bool`, `String`, `JmespathType`, `Ordering` the decidable equality;
            on `Option<T>` the derived one (`Some(x) == Some(y)` iff `x == y`, `None == None`, otherwise false);
            on `Vec<Rcvar>` / `BTreeMap<String, Rcvar>` std's (same length, pairwise `==`; for maps keys and values) —
            `eq_vec` / `eq_map`, emitted from a fixed template inside the `mutual` block of `Variable::eq` because the
            element `==` *is* `Variable::eq`; on `Rcvar` / `Variable` the translated `variable_eq`;
            on `Ast` the derived `PartialEq` ↦ the model's `Ast.beq` (the derived impl has no body to translate)
      ErrorReason::Runtime(r) ↦ r;  RuntimeError::InvalidType { .. } / NotEnoughArguments { .. } / TooManyArguments { .. }
            ↦ RtErr.invalidType / notEnough / tooMany (fields by name; the enum is re-read from errors.rs)
    Anything outside the table makes the translator exit 1 (broken tie).
-/
import JmesVerif.Generated.Code
import JmesVerif.Model.Interp
set_option linter.unusedVariables false
namespace JmesVerif.Generated.ValidCode
open JmesVerif
open JmesVerif.Generated.Code (indexChecked usizeAdd usizeSub)

/-! ### fixed prelude: the meaning of the Rust primitives and API idioms (not generated from the source) -/

/-- why a `Result<_, JmespathError>` function did not return `Ok`: a panic of the checked primitives, or
`Err(JmespathError::from_ctx(ctx, ErrorReason::Runtime(e)))` -/
inductive Fail
  | fault (f : Fault)
  | err (e : RtErr)
  deriving DecidableEq, Repr

/-- reading of a translated `Result` under a `ctx` whose `offset` is `off` (a panic is the model's `.panic`) -/
def toExcept {α : Type} (off : Nat) : Except Fail α → Except EvalErr α
  | .ok a => .ok a
  | .error (.err e) => .error (.runtime e off)
  | .error (.fault _) => .error (.panic "index out of bounds: self.inputs[k]")

/-- `a.partial_cmp(&b)` on `f64` -/
def f64PartialCmp (a b : F64) : Option Ordering :=
  if F64.flt a b then some .lt else if F64.flt b a then some .gt else if F64.feq a b then some .eq else none
"""

# enum tables: type tag -> (Rust enum name, {variant: (model constructor, payload type tag or None)})
V_ENUMS = {
    "val": ("Variable", {"Null": ("null", None), "String": ("str", "string"), "Bool": ("bool", "bool"),
                         "Number": ("num", "number"), "Array": ("arr", ("list", "val")),
                         "Object": ("obj", ("map", "val")), "Expref": ("expref", "ast")}),
    "argt": ("ArgumentType", {"Any": ("any", None), "Null": ("null", None), "String": ("string", None),
                              "Number": ("number", None), "Bool": ("bool", None), "Object": ("object", None),
                              "Array": ("array", None), "Expref": ("expref", None),
                              "TypedArray": ("typedArray", "argt"), "Union": ("union", ("list", "argt"))}),
    "jtype": ("JmespathType", {"Null": ("null", None), "String": ("string", None), "Number": ("number", None),
                               "Boolean": ("boolean", None), "Array": ("array", None), "Object": ("object", None),
                               "Expref": ("expref", None)}),
    "ordering": ("Ordering", {"Less": ("lt", None), "Equal": ("eq", None), "Greater": ("gt", None)}),
}
V_LEAN_ENUM = {"val": "Val", "argt": "ArgT", "jtype": "JType", "ordering": "Ordering"}
V_RTERR = {"InvalidType": ("invalidType", [("expected", "string"), ("actual", "string"), ("position", "usize")]),
           "NotEnoughArguments": ("notEnough", [("expected", "usize"), ("actual", "usize")]),
           "TooManyArguments": ("tooMany", [("expected", "usize"), ("actual", "usize")])}
V_ITY = {"val": "Val", "ast": "Ast", "string": "String", "usize": "Nat", "bool": "Bool", "unit": "Unit",
         "number": "Num", "argt": "ArgT", "jtype": "JType", "ordering": "Ordering", "f64": "F64", "char": "Char",
         "rterr": "RtErr", "reason": "RtErr", "jerr": "Fail"}
V_F64_CONST = {"EPSILON": "F64.epsilon", "MIN_POSITIVE": "F64.minPositive", "MAX": "F64.maxVal"}
V_DISPLAY = {"argt": "ArgumentType", "jtype": "JmespathType"}


def vatom(s):
    s = s.strip()
    if len(s) >= 2 and s[0] == '"' and s[-1] == '"' and '"' not in s[1:-1]:
        return s
    if len(s) >= 3 and s[0] == "'" and s[-1] == "'":
        return s
    return atom(s)


def vty(t):
    t = resolve(t)
    if isinstance(t, TyVar):
        return None
    if isinstance(t, tuple):
        if t[0] in ("list", "iter"):
            inner = vty(t[1])
            return None if inner is None else f"List {vatom(inner)}"
        if t[0] == "map":
            return f"List (String × {vty(t[1])})"
        if t[0] == "opt":
            inner = vty(t[1])
            return None if inner is None else f"Option {vatom(inner)}"
        if t[0] == "result":
            return f"Except Fail {vatom(vty(t[1]))}"
    if t in V_ITY:
        return V_ITY[t]
    raise TieError(f"no Lean type for {t!r}")


def vrender(c, ind):
    pad = "  " * ind
    k = c[0]
    if k == "ret":
        return [pad + c[1]]
    if k == "let":
        t = vty(c[2]) if c[2] is not None else None
        return [pad + f"let {c[1]}" + (f" : {t}" if t else "") + f" := {c[3]}"] + vrender(c[4], ind)
    if k == "match":
        out = [pad + f"match {c[1]} with"]
        for p, b in c[2]:
            if b[0] == "ret" and "\n" not in b[1] and len(b[1]) + len(p) < 90:
                out.append(pad + f"| {p} => {b[1]}")
                continue
            out.append(pad + f"| {p} =>")
            out += vrender(b, ind + 1)
        return out
    if k == "if":
        return [pad + f"if {c[1]} then"] + vrender(c[2], ind + 1) + [pad + "else"] + vrender(c[3], ind + 1)
    raise AssertionError(k)


def vmentions(c, name):
    import re as _re
    return _re.search(r"(?<![A-Za-z0-9_'.])" + _re.escape(name) + r"(?![A-Za-z0-9_'])", "\n".join(vrender(c, 0))) is not None


def vsimplify(c):
    """peepholes: drop a pure `let` nobody reads; `match m with | .error e => .error e | .ok t => .ok t` is `m`"""
    k = c[0]
    if k == "ret":
        return c
    if k == "let":
        rest = vsimplify(c[4])
        if not vmentions(rest, c[1]):
            return rest
        return ("let", c[1], c[2], c[3], rest)
    if k == "if":
        return ("if", c[1], vsimplify(c[2]), vsimplify(c[3]))
    if k == "match":
        arms = [(p, vsimplify(b)) for p, b in c[2]]
        if len(arms) == 2 and arms[0][0].startswith(".error ") and arms[0][1] == ("ret", arms[0][0]) and \
                arms[1][0].startswith(".ok ") and arms[1][1] == ("ret", arms[1][0]):
            return ("ret", c[1])
        return ("match", c[1], arms)
    raise AssertionError(k)


class TokSource:
    """a token list (the inside of a macro call) presented to `Parser` like a file"""

    def __init__(self, sf, toks, line):
        self.name = sf.name
        self.toks = list(toks) + [Tok("eof", "", line)]
        self.arm_lines = {}

    def match_close(self, i):
        return SourceFile.match_close(self, i)


class VGen:
    """translator of the third target; one instance for the whole file (the functions call each other)"""

    def __init__(self, ctx):
        self.ctx = ctx
        self.fns = {}          # key (selfty or None, rust name) -> info
        self.tmp = 0
        self.cur = None
        self.taken = set()
        self.group = set()
        self.rec_used = False
        self.auxes = []        # texts of the auxiliary recursions of the current mutual group
        self.loops = []        # texts of the loop functions of the current function
        self.need_eq_templates = False
        self.sig_fields = None

    # -- helpers
    def err(self, msg, line=None):
        where = f"{self.cur['sf'].name}:{line}" if line else self.cur["sf"].name
        raise TieError(f"fn {self.cur['rust']} ({where}): {msg}")

    def fresh(self, base="t"):
        while True:
            self.tmp += 1
            n = f"{base}{self.tmp}"
            if n not in self.taken:
                self.taken.add(n)
                return n

    def lname(self, rust):
        reserved = {"e", "f", "rest", "indexChecked", "usizeAdd", "usizeSub", "toExcept", "f64PartialCmp", "eq_vec", "eq_map"}
        reserved |= {i["lean"] for i in self.fns.values()}
        return rust + "_" if rust in LEAN_KEYWORDS or rust in reserved else rust

    def bind_name(self, name, env):
        ln = self.lname(name)
        if name in env or ln in {v[0] for v in env.values()}:
            return self.fresh(ln + "_")
        self.taken.add(ln)
        return ln

    @staticmethod
    def scoped(k, outer, names):
        def k2(t, ty, env2):
            env3 = dict(env2)
            for n in names:
                if n in outer:
                    env3[n] = outer[n]
                else:
                    env3.pop(n, None)
            return k(t, ty, env3)
        return k2

    def rty(self, t, selfty=None):
        """Rust type -> type tag"""
        if t[0] == "ref":
            return self.rty(t[1], selfty)
        if t[0] == "slice":
            return ("list", self.rty(t[1], selfty))
        if t[0] == "unit":
            return "unit"
        if t[0] == "path":
            n, a = t[1], t[2]
            if n in ("Rcvar", "Variable"):
                return "val"
            if n == "Self" and selfty is not None:
                return selfty
            simple = {"Ast": "ast", "ArgumentType": "argt", "JmespathType": "jtype", "Ordering": "ordering", "f64": "f64",
                      "usize": "usize", "bool": "bool", "String": "string", "str": "string", "Number": "number",
                      "Context": "ctx", "Formatter": "fmtr", "JmespathError": "jerr", "Error": "fmterr", "char": "char"}
            if n in simple and not (a and n not in ("Context", "Formatter")):
                return simple[n]
            if n in ("Box", "Rc", "Arc") and len(a) == 1:
                return self.rty(a[0], selfty)
            if n == "Vec" and len(a) == 1:
                return ("list", self.rty(a[0], selfty))
            if n == "Option" and len(a) == 1:
                return ("opt", self.rty(a[0], selfty))
            if n == "Result" and len(a) == 2:
                return ("result", self.rty(a[0], selfty), self.rty(a[1], selfty))
            if n == "BTreeMap" and len(a) == 2 and self.rty(a[0], selfty) == "string":
                return ("map", self.rty(a[1], selfty))
        raise TieError(f"type {t!r} is outside the subset of the validation target")

    # -- registration
    def register(self, sf, impl, rust, lean, selfty, doc, free_only=False):
        fn = Parser(sf, sf.find_fn(impl, rust, free_only)).fn()
        self.ctx.add_region(sf, fn["toks"][0], fn["toks"][1])
        params, drop = [], []
        has_self = False
        for p, t in fn["params"]:
            if p == "self":
                has_self = True
                continue
            ty = self.rty(t, selfty)
            if ty in ("ctx", "fmtr"):
                drop.append((p, ty))
            else:
                params.append((p, ty))
        ret = self.rty(fn["ret"], selfty)
        kind = "pure"
        if isinstance(ret, tuple) and ret[0] == "result":
            if ret[2] == "jerr":
                kind, ret = "result", ("result", ret[1])
            elif ret[2] == "fmterr" and ret[1] == "unit" and any(ty == "fmtr" for _, ty in drop):
                kind, ret = "fmt", "string"
            else:
                raise TieError(f"fn {rust} ({sf.name}): return type {ret} is outside the subset")
        elif any(ty == "fmtr" for _, ty in drop):
            raise TieError(f"fn {rust} ({sf.name}): a `Formatter` parameter in a function that does not return `fmt::Result`")
        if has_self and selfty is None:
            raise TieError(f"fn {rust} ({sf.name}): unexpected `self`")
        uses_self = has_self and "self" in used_names(fn["body"])
        info = {"key": (selfty if has_self else None, rust), "sf": sf, "fn": fn, "rust": rust, "lean": lean,
                "selfty": selfty if has_self else None, "params": params, "drop": drop, "ret": ret, "kind": kind,
                "uses_self": uses_self, "doc": doc}
        if info["key"] in self.fns:
            raise TieError(f"two functions `{rust}` on {selfty}")
        self.fns[info["key"]] = info
        return info

    def self_params(self, info):
        """[(lean name, type tag)] standing for `self`"""
        if info["selfty"] is None:
            return []
        if info["selfty"] == "sig":
            return [("self_inputs", ("list", "argt")), ("self_variadic", ("opt", "argt"))] if info["uses_self"] else []
        return [("self", info["selfty"])]

    def call_term(self, info, self_terms, arg_terms):
        if info["key"] in self.group:
            self.rec_used = True
        return " ".join([info["lean"]] + [vatom(t) for t in self_terms] + [vatom(t) for t in arg_terms])

    # -- effects
    def call_split(self, callterm, okty, env, k):
        e, t = self.fresh("e"), self.fresh()
        return ("match", callterm, [(f".error {e}", k(e, ("res_err",), env)), (f".ok {t}", k(t, ("res_ok", okty), env))])

    def lift_fault(self, mterm, ty, env, k, line):
        if self.cur["kind"] != "result":
            self.err("a checked operation (indexing, `usize` arithmetic) in a function that does not return `Result<_, JmespathError>` "
                     "is outside the subset", line)
        f, t = self.fresh("f"), self.fresh()
        return ("match", mterm, [(f".error {f}", ("ret", f".error (.fault {f})")), (f".ok {t}", k(t, ty, env))])

    def pure(self, e, env, exp=None):
        box = []

        def k(t, ty, env2):
            box.append((t, ty))
            return ("ret", "%HOLE%")
        c = self.E(e, env, k, exp)
        if c != ("ret", "%HOLE%") or len(box) != 1:
            self.err("an operand has an effect (`?`, a checked operation, control flow with a statement) where the embedding needs "
                     "a pure expression", e[-1] if isinstance(e[-1], int) else None)
        return box[0]

    def E_list(self, exprs, exps, env, k):
        """evaluate in order; k([(term, ty)], env)"""
        def go(i, acc, env2):
            if i == len(exprs):
                return k(acc, env2)
            return self.E(exprs[i], env2, lambda t, ty, env3: go(i + 1, acc + [(t, ty)], env3), exps[i])
        return go(0, [], env)

    @staticmethod
    def as_bool(t, ty):
        return (f"decide {vatom(t)}", "bool") if ty == "prop" else (t, ty)

    # -- expressions
    def E(self, e, env, k, exp=None):
        kind = e[0]
        if kind == "path":
            return self.E_path(e, env, k, exp)
        if kind == "bool":
            return k("true" if e[1] else "false", "bool", env)
        if kind == "int":
            ty = e[2] or (resolve(exp) if resolve(exp) == "usize" else None)
            if ty != "usize":
                self.err("cannot determine the type of an integer literal (only `usize` is in the subset)", e[3])
            if e[1] > 18446744073709551615:
                self.err("integer literal out of range", e[3])
            return k(str(e[1]), "usize", env)
        if kind == "unit":
            return k("()", "unit", env)
        if kind == "lit":
            if e[1].startswith('"') and "\\" not in e[1] and "\n" not in e[1]:
                return k(e[1], "string", env)
            if e[1].startswith("'") and e[1] in ("'\\n'", "'\\t'", "'\\r'") or (len(e[1]) == 3 and e[1][1] not in "\\'"):
                return k(e[1], "char", env)
            self.err(f"literal {e[1]} is outside the subset", e[2])
        if kind == "unary":
            op = e[1]
            if op in ("&", "*"):
                return self.E(e[2], env, k, exp)
            if op == "!":
                def kn(t, ty, env2):
                    if ty == "bool":
                        return k(f"!{vatom(t)}", "bool", env2)
                    if ty == "prop":
                        return k(f"¬ {vatom(t)}", "prop", env2)
                    self.err("`!` on a non-boolean", e[3])
                return self.E(e[2], env, kn, "bool")
            self.err(f"unary `{op}` is outside the subset of the validation target", e[3])
        if kind == "binary":
            return self.E_binary(e, env, k)
        if kind == "try":
            def kt(t, ty, env2):
                if ty == ("res_err",):
                    return ("ret", f".error {vatom(t)}")
                if isinstance(ty, tuple) and ty[0] == "res_ok":
                    return k(t, ty[1], env2)
                self.err(f"`?` applied to something that is not a `Result` ({ty})", e[2])
            if self.cur["kind"] != "result":
                self.err("`?` in a function that does not return `Result<_, JmespathError>`", e[2])
            return self.E(e[1], env, kt)
        if kind == "call":
            return self.E_call(e, env, k, exp)
        if kind == "mcall":
            return self.E_mcall(e, env, k, exp)
        if kind == "field":
            return self.E_field(e, env, k)
        if kind == "macro":
            return self.E_macro(e, env, k, exp)
        if kind == "assign":
            return self.E_assign(e, env, k)
        if kind == "block":
            return self.B(e, env, k, exp)
        if kind == "if":
            return self.E_if(e, env, k, exp)
        if kind == "match":
            return self.E_match(e, env, k, exp)
        if kind == "for":
            return self.E_for(e, env, k)
        if kind == "return":
            if e[1] is None:
                self.err("`return;` in a function returning a value", e[2])
            return self.E(e[1], env, self.retk, self.cur["ret_exp"])
        if kind == "struct":
            return self.E_struct(e, env, k)
        if kind == "index":
            return self.E_index(e, env, k)
        self.err(f"expression kind `{kind}` is outside the subset of the validation target",
                 e[-1] if isinstance(e[-1], int) else None)

    def E_path(self, e, env, k, exp):
        segs = e[1]
        if len(segs) == 1:
            n = segs[0]
            if n in env:
                return k(env[n][0], env[n][1], env)
            if n == "None":
                want = resolve(exp)
                if isinstance(want, tuple) and want[0] == "opt":
                    return k("none", want, env)
                return k("none", ("opt", TyVar()), env)
            if n in [p for p, _ in self.cur["drop"]]:
                return k("%" + n, dict(self.cur["drop"])[n], env)
            want = resolve(exp)
            if want in V_ENUMS and n in V_ENUMS[want][1] and V_ENUMS[want][1][n][1] is None:
                return k(f"{V_LEAN_ENUM[want]}.{V_ENUMS[want][1][n][0]}", want, env)
            self.err(f"unknown name `{n}`", e[2])
        if len(segs) == 2:
            for tag, (ename, table) in V_ENUMS.items():
                if segs[0] == ename and segs[1] in table and table[segs[1]][1] is None:
                    return k(f"{V_LEAN_ENUM[tag]}.{table[segs[1]][0]}", tag, env)
            if segs[0] == "f64" and segs[1] in V_F64_CONST:
                return k(V_F64_CONST[segs[1]], "f64", env)
        if len(segs) == 3 and segs[0] == "std" and segs[1] == "f64" and segs[2] in V_F64_CONST:
            return k(V_F64_CONST[segs[2]], "f64", env)
        self.err(f"path `{'::'.join(segs)}` is outside the idiom table", e[2])

    def eq_term(self, lt, rt_, ty, line, depth=0):
        """`lt == rt_` at type ty -> (term, "bool" | "prop")"""
        ty = resolve(ty)
        if ty == "usize":
            return f"{vatom(lt)} = {vatom(rt_)}", "prop"
        if ty in ("bool", "string", "jtype", "ordering", "char"):
            return f"{vatom(lt)} == {vatom(rt_)}", "bool"
        if ty == "unit":
            return "true", "bool"
        if ty == "f64":
            return f"F64.feq {vatom(lt)} {vatom(rt_)}", "bool"
        if ty == "ast":
            return f"Ast.beq {vatom(lt)} {vatom(rt_)}", "bool"
        if ty == "val":
            info = self.fns.get(("val", "eq"))
            if info is None:
                self.err("`==` on `Variable` without a translated `impl PartialEq for Variable`", line)
            return self.call_term(info, [lt], [rt_]), "bool"
        if ty in (("list", "val"), ("map", "val")):
            if ("val", "eq") not in self.group:
                self.err("`==` on a collection of `Rcvar` outside `impl PartialEq for Variable` is outside the subset", line)
            self.rec_used = True
            self.need_eq_templates = True
            return f"{'eq_vec' if ty[0] == 'list' else 'eq_map'} {vatom(lt)} {vatom(rt_)}", "bool"
        if isinstance(ty, tuple) and ty[0] == "opt":
            x, y = self.fresh("x"), self.fresh("y")
            inner, ity_ = self.eq_term(x, y, ty[1], line, depth + 1)
            inner, _ = self.as_bool(inner, ity_)
            return (f"(match {lt}, {rt_} with | some {x}, some {y} => {inner} | none, none => true | _, _ => false)", "bool")
        self.err(f"`==` on {ty} is outside the idiom table", line)

    def E_binary(self, e, env, k):
        op, l, r, line = e[1], e[2], e[3], e[4]
        if op in ("==", "!="):
            # `Some(x) == e` / `e == Some(x)`: the derived equality of `Option`, with the known side opened
            for a, b in ((l, r), (r, l)):
                if a[0] == "call" and a[1][0] == "path" and a[1][1] == ["Some"] and len(a[2]) == 1:
                    xt, xty = self.pure(a[2][0], env)
                    ot, oty = self.pure(b, env, ("opt", xty))
                    oty = resolve(oty)
                    if not (isinstance(oty, tuple) and oty[0] == "opt" and unify(oty[1], xty)):
                        self.err(f"`==` between Option<{xty}> and {oty}", line)
                    y = self.fresh("y")
                    inner, ity_ = self.eq_term(xt, y, xty, line) if a is l else self.eq_term(y, xt, xty, line)
                    inner, _ = self.as_bool(inner, ity_)
                    t = f"(match {ot} with | some {y} => {inner} | none => false)"
                    return k(t if op == "==" else f"!{t}", "bool", env)
        lt, lty = self.pure(l, env, "usize" if r[0] != "int" else None) if l[0] != "int" else (None, None)
        if l[0] == "int":
            rt_, rty_ = self.pure(r, env)
            lt, lty = self.pure(l, env, rty_)
        else:
            rt_, rty_ = self.pure(r, env, lty)
        lty, rty_ = resolve(lty), resolve(rty_)
        if op in ("&&", "||"):
            if lty == "bool" and rty_ == "bool":
                return k(f"{vatom(lt)} {op} {vatom(rt_)}", "bool", env)
            if lty in ("bool", "prop") and rty_ in ("bool", "prop"):
                a = lt if lty == "prop" else f"{vatom(lt)} = true"
                b = rt_ if rty_ == "prop" else f"{vatom(rt_)} = true"
                return k(f"{vatom(a)} {'∧' if op == '&&' else '∨'} {vatom(b)}", "prop", env)
            self.err(f"`{op}` between {lty} and {rty_}", line)
        if not unify(lty, rty_):
            self.err(f"`{op}` between {lty} and {rty_} is outside the subset", line)
        if op in ("==", "!="):
            t, ty = self.eq_term(lt, rt_, lty, line)
            if op == "!=":
                t, ty = (f"¬ {vatom(t)}", "prop") if ty == "prop" else (f"!{vatom(t)}", "bool")
            return k(t, ty, env)
        if op in ("<", ">", "<=", ">="):
            if lty == "usize":
                sym = {"<": "<", ">": ">", "<=": "≤", ">=": "≥"}[op]
                return k(f"{vatom(lt)} {sym} {vatom(rt_)}", "prop", env)
            if lty == "f64":
                f, a, b = {"<": ("F64.flt", lt, rt_), ">": ("F64.flt", rt_, lt), "<=": ("F64.fle", lt, rt_),
                           ">=": ("F64.fle", rt_, lt)}[op]
                return k(f"{f} {vatom(a)} {vatom(b)}", "bool", env)
            self.err(f"`{op}` on {lty} is outside the idiom table", line)
        if op in ("+", "-", "*", "/"):
            if lty == "f64":
                f = {"+": "F64.add", "-": "F64.sub", "*": "F64.mul", "/": "F64.div"}[op]
                return k(f"{f} {vatom(lt)} {vatom(rt_)}", "f64", env)
            if lty == "usize" and op in ("+", "-"):
                return self.lift_fault(f"{'usizeAdd' if op == '+' else 'usizeSub'} {vatom(lt)} {vatom(rt_)}", "usize", env, k, line)
        self.err(f"operator `{op}` on {lty} is outside the subset of the validation target", line)

    def E_field(self, e, env, k):
        recv, f, line = e[1], e[2], e[3]
        if recv[0] == "path" and recv[1] == ["self"] and self.cur["selfty"] == "sig":
            if f in self.sig_fields:
                return k("self_" + f, self.sig_fields[f], env)
            self.err(f"`self.{f}`: `struct Signature` has no such field", line)
        self.err(f"field access `.{f}` is outside the idiom table", line)

    def E_index(self, e, env, k):
        recv, idx, line = e[1], e[2], e[3]

        def ki(vals, env2):
            (xs, xty), (i, ity_) = vals
            xty = resolve(xty)
            if not (isinstance(xty, tuple) and xty[0] == "list"):
                self.err(f"indexing into {xty}", line)
            if ity_ != "usize":
                self.err(f"index of type {ity_}", line)
            return self.lift_fault(f"indexChecked {vatom(xs)} {vatom(i)}", xty[1], env2, k, line)
        return self.E_list([recv, idx], [None, "usize"], env, ki)

    def E_struct(self, e, env, k):
        segs, fields, line = e[1], e[2], e[3]
        if len(segs) == 2 and segs[0] == "RuntimeError" and segs[1] in V_RTERR:
            ctor, order = V_RTERR[segs[1]]
            given = dict(fields)
            if sorted(given) != sorted(f for f, _ in order) or len(fields) != len(order):
                self.err(f"`RuntimeError::{segs[1]} {{ .. }}` does not name exactly the fields {[f for f, _ in order]}", line)
            # Rust evaluates the field expressions in the order written
            def kf(vals, env2):
                m = {fields[i][0]: vals[i] for i in range(len(fields))}
                for f, fty in order:
                    if not unify(m[f][1], fty):
                        self.err(f"field `{f}` of `RuntimeError::{segs[1]}` initialised with {m[f][1]}", line)
                return k(" ".join([f"RtErr.{ctor}"] + [vatom(m[f][0]) for f, _ in order]), "rterr", env2)
            return self.E_list([x for _, x in fields], [dict(order)[f] for f, _ in fields], env, kf)
        self.err(f"struct expression `{'::'.join(segs)} {{ .. }}` is outside the idiom table", line)

    def E_assign(self, e, env, k):
        op, lhs, rhs, line = e[1], e[2], e[3], e[4]
        if not (lhs[0] == "path" and len(lhs[1]) == 1 and lhs[1][0] in env):
            self.err("assignment to something that is not a local variable", line)
        name = lhs[1][0]
        lean, ty = env[name][0], env[name][1]
        if not lean.isidentifier():
            self.err(f"assignment to `{name}`, which is not a plain local", line)
        if op != "=":
            rhs = ("binary", op[0], lhs, rhs, line)

        def ka(t, tty, env2):
            if isinstance(tty, tuple) and tty[0] in ("res_ok", "res_err"):
                self.err("assignment of a `Result` to a variable is outside the subset", line)
            t, tty = self.as_bool(t, tty)
            if not unify(ty, tty):
                self.err(f"assigning {tty} to a variable of type {ty}", line)
            return ("let", lean, ty, t, k("()", "unit", env2))
        return self.E(rhs, env, ka, ty)

    def E_call(self, e, env, k, exp):
        f, args, line = e[1], e[2], e[3]
        if f[0] != "path":
            self.err("call of a computed function is outside the subset", line)
        name = "::".join(f[1])
        if name == "Ok" and len(args) == 1:
            def ko(t, ty, env2):
                if isinstance(ty, tuple) and ty[0] in ("res_ok", "res_err"):
                    self.err("nested `Result`", line)
                return k(t, ("res_ok", ty), env2)
            return self.E(args[0], env, ko)
        if name == "Err" and len(args) == 1:
            def ke(t, ty, env2):
                if ty != "jerr":
                    self.err(f"`Err` of {ty}: only `JmespathError::from_ctx(..)` is in the idiom table", line)
                return k(t, ("res_err",), env2)
            return self.E(args[0], env, ke)
        if name == "Some" and len(args) == 1:
            want = resolve(exp)
            inner = want[1] if isinstance(want, tuple) and want[0] == "opt" else None

            def ks(t, ty, env2):
                t, ty = self.as_bool(t, ty)
                return k(f"some {vatom(t)}", ("opt", ty), env2)
            return self.E(args[0], env, ks, inner)
        if name == "ErrorReason::Runtime" and len(args) == 1:
            def kr(t, ty, env2):
                if ty != "rterr":
                    self.err(f"`ErrorReason::Runtime` of {ty}", line)
                return k(t, "reason", env2)
            return self.E(args[0], env, kr)
        if name == "JmespathError::from_ctx" and len(args) == 2:
            ctxs = [p for p, ty in self.cur["drop"] if ty == "ctx"]
            if not (args[0][0] == "path" and args[0][1] == ctxs[:1]):
                self.err("`JmespathError::from_ctx` whose first argument is not the `ctx` parameter", line)

            def kj(t, ty, env2):
                if ty != "reason":
                    self.err(f"`JmespathError::from_ctx(ctx, r)` with r of type {ty}: only `ErrorReason::Runtime(..)` is in "
                             "the idiom table", line)
                return k(f"Fail.err {vatom(t)}", "jerr", env2)
            return self.E(args[1], env, kj)
        if name in ("max", "min", "std::cmp::max", "std::cmp::min", "cmp::max", "cmp::min") and len(args) == 2:
            (a, aty), (b, bty) = self.pure(args[0], env, "usize"), self.pure(args[1], env, "usize")
            if aty == "usize" and bty == "usize":
                return k(f"{name.split('::')[-1]} {vatom(a)} {vatom(b)}", "usize", env)
        if len(f[1]) == 1 and (None, f[1][0]) in self.fns:
            return self.call_fn(self.fns[(None, f[1][0])], [], args, env, k, line)
        self.err(f"call of `{name}` is outside the idiom table", line)

    def call_fn(self, info, self_terms, args, env, k, line):
        """call of a translated function: dropped parameters (`ctx`, `fmt`) must be passed on unchanged"""
        fnparams = [(p, t) for p, t in info["fn"]["params"] if p != "self"]
        if len(args) != len(fnparams):
            self.err(f"`{info['rust']}` called with {len(args)} arguments", line)
        keep, keep_tys = [], []
        dropped = dict(info["drop"])
        for (p, _), a in zip(fnparams, args):
            if p in dropped:
                mine = [q for q, ty in self.cur["drop"] if ty == dropped[p]]
                a0 = a
                while a0[0] == "unary" and a0[1] in ("&", "*"):
                    a0 = a0[2]
                if not (a0[0] == "path" and a0[1] == mine[:1]):
                    self.err(f"`{info['rust']}` must receive the caller's own `{p}`", line)
            else:
                keep.append(a)
                keep_tys.append(dict(info["params"])[p])

        def ka(vals, env2):
            terms = []
            for (t, ty), want in zip(vals, keep_tys):
                t, ty = self.as_bool(t, ty)
                if not unify(ty, want):
                    self.err(f"`{info['rust']}` called with an argument of type {ty} where {want} is expected", line)
                terms.append(t)
            call = self.call_term(info, self_terms, terms)
            if info["kind"] == "result":
                if self.cur["kind"] != "result":
                    self.err(f"call of the fallible `{info['rust']}` in a function that cannot fail", line)
                return self.call_split(call, info["ret"][1], env2, k)
            return k(call, info["ret"], env2)
        return self.E_list(keep, keep_tys, env, ka)

    def closure1(self, cl, n, line, what):
        if cl[0] != "closure" or len(cl[1]) != n:
            self.err(f"`{what}` whose argument is not a closure with {n} parameter(s)", line)
        return cl[1], cl[2]

    def aux_recursion(self, kindname, lists, eltys, pats, body, env, line):
        """`.all` / `.any` / `.map` over one list (or `.all` over two zipped lists): inline `List.all ..` when the closure
        body does not call the group, else an auxiliary structural recursion; -> (term, type)"""
        benv = dict(env)
        xs = []
        for p, ty in zip(pats, eltys):
            if p[0] == "wild":
                xs.append("_")
            elif p[0] == "bind":
                ln = self.bind_name(p[1], benv)
                benv[p[1]] = (ln, ty)
                xs.append(ln)
            else:
                self.err("closure parameter pattern is outside the subset", line)
        saved = self.rec_used
        self.rec_used = False
        bt, bty = self.pure(body, benv, "bool" if kindname != "map" else None)
        rec = self.rec_used
        self.rec_used = saved or rec
        bt, bty = self.as_bool(bt, bty)
        if kindname != "map" and bty != "bool":
            self.err(f"closure of `.{kindname}` returns {bty}", line)
        rety = "bool" if kindname != "map" else ("list", bty)
        if not rec and len(lists) == 1:
            fn = {"all": "List.all", "any": "List.any", "map": "List.map"}[kindname]
            lam = f"(fun {xs[0]} => {bt})"
            return (f"{fn} {vatom(lists[0])} {lam}" if kindname != "map" else f"List.map {lam} {vatom(lists[0])}"), rety
        # captured variables, in environment order
        import re as _re
        binders = {b for b in xs if b != "_"}
        caps = []
        for name, (lean, ty) in env.items():
            if lean in binders or not lean.isidentifier():
                continue
            if _re.search(r"(?<![A-Za-z0-9_'.])" + _re.escape(lean) + r"(?![A-Za-z0-9_'])", bt) and lean not in [c[0] for c in caps]:
                caps.append((lean, ty))
        base = f"{self.cur['lean']}_{kindname}{'_zip' if len(lists) == 2 else ''}_"
        n = sum(1 for a in self.auxes if f"\ndef {base}" in a) + 1      # numbered per kind: independent of the order of the arms
        name = f"{base}{n}"
        capsig = "".join(f" ({c} : {vty(t)})" for c, t in caps)
        capargs = "".join(f" {c}" for c, _ in caps)
        rest = ["rest"] if len(lists) == 1 else ["rest1", "rest2"]
        for r_ in rest:
            if r_ in binders or r_ in [c for c, _ in caps]:
                self.err("name clash with the generated list binder", line)
        tys = " → ".join(f"List {vatom(vty(t))}" for t in eltys)
        doc = (f"/-- `.{'zip(..).' if len(lists) == 2 else ''}{kindname}(|..| ..)` of `fn {self.cur['rust']}`, {self.cur['sf'].name}:{line}, "
               f"as a structural recursion (the closure calls the function being defined) -/")
        if kindname == "map":
            text = "\n".join([doc, f"def {name}{capsig} : {tys} → {vty(rety)}", "  | [] => []",
                              f"  | {xs[0]} :: rest => {vatom(bt)} :: {name}{capargs} rest"])
        elif len(lists) == 1:
            op, unit = ("&&", "true") if kindname == "all" else ("||", "false")
            text = "\n".join([doc, f"def {name}{capsig} : {tys} → Bool", f"  | [] => {unit}",
                              f"  | {xs[0]} :: rest => {vatom(bt)} {op} {name}{capargs} rest"])
        else:
            if kindname != "all":
                self.err("only `.zip(..).all(..)` is in the idiom table", line)
            text = "\n".join([doc, f"def {name}{capsig} : {tys} → Bool",
                              f"  | {xs[0]} :: rest1, {xs[1]} :: rest2 => {vatom(bt)} && {name}{capargs} rest1 rest2",
                              "  | _, _ => true"])
        self.auxes.append(text)
        return f"{name}{capargs} " + " ".join(vatom(l) for l in lists), rety

    def E_mcall(self, e, env, k, exp):
        recv, m, args, line = e[1], e[2], e[3], e[4]
        targs = e[5] if len(e) > 5 else None

        def kr(r, rty, env2):
            rty = resolve(rty)
            # methods of the translated functions
            if (rty, m) in self.fns and not isinstance(rty, tuple):
                info = self.fns[(rty, m)]
                return self.call_fn(info, [r], args, env2, k, line)
            if rty == "sigself" and ("sig", m) in self.fns:
                info = self.fns[("sig", m)]
                return self.call_fn(info, [p for p, _ in self.self_params(info)], args, env2, k, line)
            if m == "to_string" and not args and rty in V_DISPLAY and (rty, "fmt") in self.fns:
                return k(self.call_term(self.fns[(rty, "fmt")], [r], []), "string", env2)
            if m in ("clone", "to_owned", "as_ref", "to_string", "as_str") and not args and \
                    (rty in ("val", "ast", "string", "argt", "jtype", "bool", "usize", "f64") or
                     (isinstance(rty, tuple) and rty[0] in ("list", "map", "opt"))) and \
                    not (m in ("to_string", "as_str") and rty != "string"):
                return k(r, rty, env2)
            if rty == "val" and m == "get_type" and not args:
                return k(f"Val.type {vatom(r)}", "jtype", env2)
            if rty == "number" and m == "as_f64" and not args:
                return k(f"some (Num.toF64 {vatom(r)})", ("opt", "f64"), env2)
            if rty == "f64":
                if m in ("abs", "is_normal", "is_nan") and not args:
                    f, ty = {"abs": ("F64.abs", "f64"), "is_normal": ("F64.isNormal", "bool"), "is_nan": ("F64.isNaN", "bool")}[m]
                    return k(f"{f} {vatom(r)}", ty, env2)
                if m in ("min", "partial_cmp") and len(args) == 1:
                    a, aty = self.pure(args[0], env2, "f64")
                    if aty != "f64":
                        self.err(f"`.{m}` with an argument of type {aty}", line)
                    if m == "min":
                        return k(f"F64.fmin {vatom(r)} {vatom(a)}", "f64", env2)
                    return k(f"f64PartialCmp {vatom(r)} {vatom(a)}", ("opt", "ordering"), env2)
            if rty == "string" and m == "cmp" and len(args) == 1:
                a, aty = self.pure(args[0], env2, "string")
                if aty != "string":
                    self.err(f"`.cmp` with an argument of type {aty}", line)
                return k(f"compare {vatom(r)} {vatom(a)}", "ordering", env2)
            if isinstance(rty, tuple) and rty[0] == "opt":
                if m in ("is_some", "is_none") and not args:
                    return k(f"Option.{'isSome' if m == 'is_some' else 'isNone'} {vatom(r)}", "bool", env2)
                if m in ("unwrap_or", "or") and len(args) == 1:
                    want = rty[1] if m == "unwrap_or" else rty
                    a, aty = self.pure(args[0], env2, want)
                    if not unify(aty, want):
                        self.err(f"`.{m}` on {rty} with an argument of type {aty}", line)
                    return k(f"Option.getD {vatom(r)} {vatom(a)}" if m == "unwrap_or" else f"Option.or {vatom(r)} {vatom(a)}",
                             want, env2)
                if m == "map_or" and len(args) == 2:
                    d, dty = self.pure(args[0], env2, exp)
                    pats, body = self.closure1(args[1], 1, line, "map_or")
                    if pats[0][0] != "bind":
                        self.err("`map_or` closure parameter is not a name", line)
                    env3 = dict(env2)
                    lx = self.bind_name(pats[0][1], env3)
                    env3[pats[0][1]] = (lx, rty[1])
                    b, bty = self.pure(body, env3, dty)
                    d, dty = self.as_bool(d, dty)
                    b, bty = self.as_bool(b, bty)
                    if not unify(dty, bty):
                        self.err(f"`map_or` with a default of type {dty} and a closure returning {bty}", line)
                    return k(f"(match {r} with | some {lx} => {b} | none => {d})", bty, env2)
            if isinstance(rty, tuple) and rty[0] == "list":
                if m == "len" and not args:
                    return k(f"List.length {vatom(r)}", "usize", env2)
                if m == "get" and len(args) == 1:
                    a, aty = self.pure(args[0], env2, "usize")
                    if aty != "usize":
                        self.err(f"`.get` with an index of type {aty}", line)
                    return k(f"{vatom(r)}[{a}]?", ("opt", rty[1]), env2)
                if m == "iter" and not args:
                    return k(r, ("iter", rty[1]), env2)
                if m == "join" and len(args) == 1 and rty[1] == "string":
                    a, aty = self.pure(args[0], env2, "string")
                    if aty != "string":
                        self.err(f"`.join` with a separator of type {aty}", line)
                    return k(f"String.intercalate {vatom(a)} {vatom(r)}", "string", env2)
            if isinstance(rty, tuple) and rty[0] == "iter":
                if m == "cloned" and not args:
                    return k(r, rty, env2)
                if m == "enumerate" and not args:
                    return k(r, ("enum", rty[1]), env2)
                if m == "zip" and len(args) == 1:
                    a, aty = self.pure(args[0], env2)
                    aty = resolve(aty)
                    if not (isinstance(aty, tuple) and aty[0] in ("iter", "list")):
                        self.err(f"`.zip` with {aty}", line)
                    return k((r, a), ("zip", rty[1], aty[1]), env2)
                if m in ("all", "any", "map") and len(args) == 1:
                    pats, body = self.closure1(args[0], 1, line, m)
                    t, ty = self.aux_recursion(m, [r], [rty[1]], pats, body, env2, line)
                    if m == "map":
                        return k(t, ("iter", ty[1]), env2)
                    return k(t, ty, env2)
                if m == "collect" and not args:
                    want = None
                    if targs is not None and len(targs) == 1:
                        tv = targs[0]
                        want = ("list", rty[1]) if (tv[0] == "path" and tv[1] == "Vec" and tv[2] and tv[2][0] == ("path", "_", [])) \
                            else self.rty(tv)
                    elif exp is not None:
                        want = resolve(exp)
                    if not (isinstance(want, tuple) and want[0] == "list" and unify(want[1], rty[1])):
                        self.err(f"`collect` of an iterator over {rty[1]} into {want}: only `Vec` is in the idiom table", line)
                    return k(r, ("list", rty[1]), env2)
            if isinstance(rty, tuple) and rty[0] == "zip" and m == "all" and len(args) == 1:
                pats, body = self.closure1(args[0], 1, line, m)
                if pats[0][0] != "tuple" or len(pats[0][1]) != 2:
                    self.err("`.zip(..).all(..)` whose closure parameter is not a pair pattern", line)
                t, ty = self.aux_recursion("all", [r[0], r[1]], [rty[1], rty[2]], pats[0][1], body, env2, line)
                return k(t, ty, env2)
            self.err(f"method `.{m}` on {rty} is outside the idiom table", line)
        if recv[0] == "path" and recv[1] == ["self"] and self.cur["selfty"] == "sig":
            return kr("%self", "sigself", env)
        return self.E(recv, env, kr)

    def E_macro(self, e, env, k, exp):
        name, inner, line = e[1], e[2], e[3]
        src = TokSource(self.cur["sf"], inner, line)
        p = Parser(src, 0)
        if name == "matches":
            scrut = p.expr()
            p.expect(",")
            pat = p.pattern()
            guard = p.expr() if p.eat("if") else None
            p.eat(",")
            if p.peek().kind != "eof":
                self.err("malformed `matches!`", line)
            arms = [(pat, guard, ("bool", True)), (("wild",), None, ("bool", False))]
            return self.E(("match", scrut, arms, line), env, k, "bool")
        if name == "write":
            items = []
            while p.peek().kind != "eof":
                items.append(p.expr())
                if not p.eat(","):
                    break
            if p.peek().kind != "eof" or len(items) < 2:
                self.err("malformed `write!`", line)
            fmts = [q for q, ty in self.cur["drop"] if ty == "fmtr"]
            if not (items[0][0] == "path" and items[0][1] == fmts[:1]):
                self.err("`write!` whose first argument is not the `Formatter` parameter", line)
            if items[1][0] != "lit" or not items[1][1].startswith('"') or "\\" in items[1][1]:
                self.err("`write!` whose format is not a plain string literal", line)
            fs = items[1][1][1:-1]
            parts, cur, i, holes = [], "", 0, 0
            while i < len(fs):
                if fs.startswith("{{", i) or fs.startswith("}}", i):
                    cur += fs[i]
                    i += 2
                elif fs.startswith("{}", i):
                    parts.append(("lit", cur))
                    parts.append(("hole", holes))
                    holes += 1
                    cur = ""
                    i += 2
                elif fs[i] in "{}":
                    self.err("format specification other than `{}` is outside the subset", line)
                else:
                    cur += fs[i]
                    i += 1
            parts.append(("lit", cur))
            if holes != len(items) - 2:
                self.err("`write!`: number of `{}` and of arguments differ", line)

            def kw(vals, env2):
                out = []
                for kind_, v in parts:
                    if kind_ == "lit":
                        if v:
                            out.append('"' + v + '"')
                        continue
                    t, ty = vals[v]
                    ty = resolve(ty)
                    if ty == "string":
                        out.append(vatom(t))
                    elif ty in V_DISPLAY and (ty, "fmt") in self.fns:
                        out.append(vatom(self.call_term(self.fns[(ty, "fmt")], [t], [])))
                    elif ty == "usize":
                        out.append(f"toString {vatom(t)}")
                    else:
                        self.err(f"`{{}}` of {ty} is outside the idiom table", line)
                return k(" ++ ".join(out) if out else '""', "written", env2)
            return self.E_list(items[2:], [None] * (len(items) - 2), env, kw)
        self.err(f"macro `{name}!` is outside the subset", line)

    # -- patterns and match
    def universe(self, sty):
        if sty in V_ENUMS:
            return {v: (f".{c}", p) for v, (c, p) in V_ENUMS[sty][1].items()}
        if isinstance(sty, tuple) and sty[0] == "opt":
            return {"Some": ("some", sty[1]), "None": ("none", None)}
        return None

    def classify(self, pat, sty, uni, line):
        """-> (variant or None for a wildcard, sub-pattern or None)"""
        k = pat[0]
        if k == "wild":
            return None, None
        if k == "bind":
            self.err("binding the whole scrutinee in a match arm is outside the subset", line)
        if k in ("ppath", "tstruct"):
            segs = pat[1]
            v = segs[-1]
            if len(segs) == 2 and not (sty in V_ENUMS and V_ENUMS[sty][0] == segs[0]):
                self.err(f"pattern `{'::'.join(segs)}` on {sty}", line)
            if len(segs) > 2 or v not in uni:
                self.err(f"pattern `{'::'.join(segs)}` on {sty} is outside the subset", line)
            payload = uni[v][1]
            subs = pat[2] if k == "tstruct" else []
            if payload is None:
                if subs:
                    self.err(f"`{v}` takes no payload", line)
                return v, None
            if len(subs) != 1:
                self.err(f"`{v}` takes one payload", line)
            if subs[0][0] not in ("bind", "wild"):
                if subs[0] == ("tuple", []) and payload == "unit":
                    return v, ("wild",)
                self.err("nested patterns are outside the subset", line)
            return v, subs[0]
        self.err(f"pattern {pat!r} on {sty} is outside the subset", line)

    def cond(self, c, env):
        t, ty = self.pure(c, env, "bool")
        if ty not in ("bool", "prop"):
            self.err(f"condition of type {ty}")
        return t if ty == "prop" else f"{vatom(t)} = true"

    def match_core(self, s, sty, arms, env, k, exp, line):
        sty = resolve(sty)
        if sty == "char":
            return self.match_char(s, arms, env, k, exp, line)
        uni = self.universe(sty)
        if uni is None:
            self.err(f"`match` on {sty} is outside the subset", line)
        cl = []
        for pat, guard, body in arms:
            alts = pat[1] if pat[0] == "or" else [pat]
            for a in alts:
                if pat[0] == "or" and pat_binders(a):
                    self.err("or-patterns with binders are outside the subset", line)
                v, sub = self.classify(a, sty, uni, line)
                cl.append((v, sub, guard, body))
        out, handled = [], []

        def chain(items, binder, payload):
            def go(i):
                if i == len(items):
                    self.err("`match` is not exhaustive as far as the translator can see (a guarded arm falls through to nothing)", line)
                v, sub, guard, body = items[i]
                env_arm = dict(env)
                names = []
                if v is not None and sub is not None and sub[0] == "bind":
                    env_arm[sub[1]] = (binder, payload)
                    names = [sub[1]]
                bc = lambda: self.E(body, env_arm, self.scoped(k, env, names), exp)
                if guard is None:
                    return bc()
                c = self.cond(guard, env_arm)
                return ("if", c, bc(), go(i + 1))
            return go(0)
        for v, sub, guard, body in cl:
            if v is None or v in handled:
                continue
            handled.append(v)
            compat = [x for x in cl if x[0] == v or x[0] is None]
            ctor, payload = uni[v]
            binder = None
            if payload is not None:
                named = [x[1][1] for x in compat if x[0] == v and x[1] is not None and x[1][0] == "bind"]
                binder = self.bind_name(named[0], env) if named else "_"
            lp = ctor if payload is None else f"{ctor} {binder}"
            out.append((lp, chain(compat, binder, payload)))
        if set(handled) != set(uni):
            wilds = [x for x in cl if x[0] is None]
            if not wilds:
                self.err(f"`match` has no arm for {sorted(set(uni) - set(handled))}", line)
            out.append(("_", chain(wilds, None, None)))
        if len(out) == 1 and out[0][0] == "_":
            return out[0][1]
        return ("match", s, out)

    def match_char(self, s, arms, env, k, exp, line):
        def go(i):
            if i == len(arms):
                self.err("`match` on a `char` without a final `_` arm", line)
            pat, guard, body = arms[i]
            if guard is not None:
                self.err("guards in a `match` on `char` are outside the subset", line)
            if pat[0] == "wild":
                return self.E(body, env, k, exp)
            if pat[0] == "lit" and pat[1].startswith("'"):
                return ("if", f"{vatom(s)} = {pat[1]}", self.E(body, env, k, exp), go(i + 1))
            self.err(f"pattern {pat!r} on `char` is outside the subset", line)
        return go(0)

    def match_tuple(self, items, arms, env, k, exp, line):
        """`match (e1, e2) { (p1, p2) => a, _ => b }` / `if let (p1, p2) = (e1, e2) { a } else { b }`"""
        if len(arms) != 2 or arms[0][0][0] != "tuple" or arms[1][0][0] != "wild" or arms[0][1] is not None or arms[1][1] is not None \
                or len(arms[0][0][1]) != len(items):
            self.err("a `match` on a tuple other than `{ (p, q) => .., _ => .. }` is outside the subset", line)
        vals = [self.pure(x, env) for x in items]
        env_arm = dict(env)
        lps, names = [], []
        for sub, (t, ty) in zip(arms[0][0][1], vals):
            ty = resolve(ty)
            uni = self.universe(ty)
            if sub[0] == "wild":
                lps.append("_")
                continue
            if uni is None:
                self.err(f"tuple component of type {ty} under a pattern is outside the subset", line)
            v, sp = self.classify(sub, ty, uni, line)
            ctor, payload = uni[v]
            if payload is None:
                lps.append(ctor)
            elif sp[0] == "bind":
                b = self.bind_name(sp[1], env_arm)
                env_arm[sp[1]] = (b, payload)
                names.append(sp[1])
                lps.append(f"{ctor} {b}")
            else:
                lps.append(f"{ctor} _")
        first = self.E(arms[0][2], env_arm, self.scoped(k, env, names), exp)
        second = self.E(arms[1][2], env, k, exp)
        return ("match", ", ".join(t for t, _ in vals), [(", ".join(lps), first), (", ".join("_" for _ in vals), second)])

    def E_match(self, e, env, k, exp):
        scrut, arms, line = e[1], e[2], e[3]
        s0 = scrut
        while s0[0] == "unary" and s0[1] in ("&", "*"):
            s0 = s0[2]
        if s0[0] == "tuple":
            return self.match_tuple(s0[1], arms, env, k, exp, line)

        def ks(s, sty, env2):
            if isinstance(resolve(sty), tuple) and resolve(sty)[0] in ("res_ok", "res_err"):
                self.err("`match` on a `Result` is outside the subset (use `?`)", line)
            return self.match_core(s, sty, arms, env2, k, exp, line)
        return self.E(scrut, env, ks)

    def E_if(self, e, env, k, exp):
        cnd, then, els, line = e[1], e[2], e[3], e[4]
        if cnd[0] == "letcond":
            pat, scrut = cnd[1], cnd[2]
            if pat[0] in ("bind", "wild"):
                self.err("irrefutable `if let`", line)
            other = els if els is not None else ("block", [], None)
            return self.E_match(("match", scrut, [(pat, None, then), (("wild",), None, other)], line), env, k, exp)

        def else_comp():
            if els is None:
                return k("()", "unit", env)
            if els[0] == "if":
                return self.E_if(els, env, k, exp)
            return self.B(els, env, k, exp)
        return ("if", self.cond(cnd, env), self.B(then, env, k, exp), else_comp())

    def B(self, block, env, k, exp=None):
        stmts, tail = block[1], block[2]
        k = self.scoped(k, env, [s[1][1] for s in stmts if s[0] == "let" and s[1][0] == "bind"])

        def go(i, env):
            if i == len(stmts):
                if tail is None:
                    return k("()", "unit", env)
                return self.E(tail, env, k, exp)
            s = stmts[i]
            if s[0] == "let":
                pat, ty, init, line = s[1], s[2], s[3], s[4]
                if pat[0] != "bind":
                    self.err("only `let name` patterns are in the subset", line)
                if init is None:
                    self.err("`let` without initialiser is outside the subset", line)
                name = pat[1]
                dty = self.rty(ty, self.cur["selfty"]) if ty else None

                def kl(t, tty, env2):
                    tty = resolve(tty)
                    if tty in ("unit", "ctx", "fmtr", "sigself", "written") or (isinstance(tty, tuple) and tty[0] in ("res_ok", "res_err", "zip", "enum")):
                        self.err(f"`let {name}` bound to {tty} is outside the subset", line)
                    t, tty = self.as_bool(t, tty)
                    if dty is not None and not unify(dty, tty) and not (isinstance(tty, tuple) and tty[0] == "iter" and unify(dty, ("list", tty[1]))):
                        self.err(f"`let {name}: {dty}` initialised with {tty}", line)
                    env3 = dict(env2)
                    lean = self.bind_name(name, env2)
                    env3[name] = (lean, tty)
                    return ("let", lean, tty, t, go(i + 1, env3))
                return self.E(init, env, kl, dty)
            e = s[1]

            def ke(t, tty, env2):
                if isinstance(tty, tuple) and tty[0] in ("res_ok", "res_err"):
                    self.err("a `Result` is dropped without `?`", s[2])
                return go(i + 1, env2)
            return self.E(e, env, ke)
        return go(0, env)

    # -- loops
    def E_for(self, e, env, k):
        pat, it, body, line, endline = e[1], e[2], e[3], e[4], e[5]
        if has_kind(body, "return") or has_kind(body, "for") or has_kind(body, "while"):
            self.err("`return` or a nested loop inside `for` is outside the subset", line)
        itt, itty = self.pure(it, env)
        itty = resolve(itty)
        if not (isinstance(itty, tuple) and itty[0] in ("list", "iter", "enum")):
            self.err(f"`for` over {itty} is outside the subset", line)
        elty = itty[1]
        benv_names = {}
        idx = None
        if itty[0] == "enum":
            if pat[0] != "tuple" or len(pat[1]) != 2 or any(p[0] not in ("bind", "wild") for p in pat[1]):
                self.err("`for` over `.enumerate()` needs a pattern `(k, v)`", line)
            ipat, xpat = pat[1]
        else:
            if pat[0] not in ("bind", "wild"):
                self.err("`for` with a pattern other than a name is outside the subset", line)
            ipat, xpat = None, pat
        inner_decl = set(declared_vars(body)) | set(pat_binders(pat))
        state = []
        for n in walk(body):
            if n[0] == "assign" and n[2][0] == "path" and len(n[2][1]) == 1:
                v = n[2][1][0]
                if v in env and v not in inner_decl and v not in state:
                    state.append(v)
        state = [v for v in env if v in state]
        names = used_names(body)
        # the fields of `self` (Signature) a body mentions are free variables of the loop
        frees = [v for v in env if v in names and v not in state and v not in inner_decl]
        selfps = self.self_params(self.cur) if "self" in names else []
        for v in frees + state:
            if not env[v][0].isidentifier():
                self.err(f"loop uses `{v}`, which is not a plain local", line)
        lname = f"{self.cur['lean']}_loop_{len(self.loops) + 1}"
        self.taken.add(lname)
        benv = {v: env[v] for v in frees + state}
        if "self" in env:
            benv["self"] = env["self"]
        x = "_"
        if xpat[0] == "bind":
            x = self.bind_name(xpat[1], benv)
            benv[xpat[1]] = (x, elty)
        if ipat is not None:
            idx = self.bind_name(ipat[1], benv) if ipat[0] == "bind" else self.fresh("k")
            if ipat[0] == "bind":
                benv[ipat[1]] = (idx, "usize")
        sttuple = "()" if not state else (env[state[0]][0] if len(state) == 1 else "(" + ", ".join(env[v][0] for v in state) + ")")
        fixed = [p for p, _ in selfps] + [env[v][0] for v in frees]
        fixed_sig = "".join(f" ({p} : {vty(t)})" for p, t in selfps) + "".join(f" ({env[v][0]} : {vty(env[v][1])})" for v in frees)
        call = " ".join([lname] + fixed + ([f"({idx} + 1)"] if idx else []) + ["rest"] + [env[v][0] for v in state])
        saved_rec, self.rec_used = self.rec_used, False

        def kend(t, ty, env2):
            return ("ret", call)
        bodyc = vsimplify(self.B(body, benv, kend))
        if self.rec_used:
            self.err("a loop body that calls the function being defined is outside the subset", line)
        self.rec_used = saved_rec
        fails = ".error " in "\n".join(vrender(bodyc, 0))
        stty = "Unit" if not state else " × ".join(vatom(vty(env[v][1])) for v in state)
        resty = f"Except Fail {vatom(stty)}" if fails else stty
        argtys = (["Nat"] if idx else []) + [f"List {vatom(vty(elty))}"] + [vty(env[v][1]) for v in state]
        doc = (f"/-- `for {'(..)' if ipat is not None else (xpat[1] if xpat[0] == 'bind' else '_')} in ..` of `fn {self.cur['rust']}`, "
               f"{self.cur['sf'].name}:{line}-{endline}; reads: {', '.join(fixed) or '-'}; state: {', '.join(state) or '-'} -/")
        done = (".ok " + vatom(sttuple)) if fails else sttuple
        lines = [doc, f"def {lname}{fixed_sig} : " + " → ".join(argtys + [resty]),
                 "  | " + ", ".join((["_"] if idx else []) + ["[]"] + [env[v][0] for v in state]) + f" => {done}",
                 "  | " + ", ".join(([idx] if idx else []) + [f"{x} :: rest"] + [env[v][0] for v in state]) + " =>"]
        lines += vrender(bodyc, 2)
        self.loops.append("\n".join(lines))
        start = " ".join([lname] + fixed + (["0"] if idx else []) + [vatom(itt)] + [env[v][0] for v in state])
        if fails:
            if self.cur["kind"] != "result":
                self.err("a loop that can fail in a function that cannot", line)
            e_ = self.fresh("e")
            return ("match", start, [(f".error {e_}", ("ret", f".error {e_}")),
                                     (f".ok {sttuple if state else '_'}", k("()", "unit", env))])
        if not state:
            return k("()", "unit", env)
        if len(state) == 1:
            return ("let", env[state[0]][0], env[state[0]][1], start, k("()", "unit", env))
        return ("match", start, [(sttuple, k("()", "unit", env))])

    # -- results
    def retk(self, t, ty, env):
        ty = resolve(ty)
        kind = self.cur["kind"]
        if kind == "result":
            if ty == ("res_err",):
                return ("ret", f".error {vatom(t)}")
            if isinstance(ty, tuple) and ty[0] == "res_ok":
                if not unify(ty[1], self.cur["ret"][1]):
                    self.err(f"the function returns `Ok` of {ty[1]}")
                return ("ret", f".ok {vatom(t)}")
            self.err(f"the function returns {ty}, not a `Result`")
        if kind == "fmt":
            if ty != "written":
                self.err("a path of `fmt` does not end in `write!(fmt, ..)`")
            return ("ret", t)
        t, ty = self.as_bool(t, ty)
        if not unify(ty, self.cur["ret"]):
            self.err(f"the function returns {ty} where {self.cur['ret']} is declared")
        return ("ret", t)

    # -- one function
    def gen_fn(self, info):
        self.cur = info
        fn = info["fn"]
        self.taken = set(used_names(fn["body"])) | set(declared_vars(fn["body"])) | {p for p, _ in fn["params"]}
        for n in walk(fn["body"]):
            if n[0] == "bind":
                self.taken.add(n[1])
        self.taken |= {"self_inputs", "self_variadic", "rest", "rest1", "rest2"}
        self.loops = []
        env = {}
        sig = []
        for p, t in self.self_params(info):
            sig.append((p, t))
        if info["selfty"] not in (None, "sig"):
            env["self"] = ("self", info["selfty"])
        for p, t in info["params"]:
            ln = self.lname(p)
            env[p] = (ln, t)
            sig.append((ln, t))
        info["ret_exp"] = {"result": "result", "fmt": "written"}.get(info["kind"], info["ret"])
        body = vsimplify(self.B(fn["body"], env, self.retk, info["ret_exp"]))
        where = f"{info['sf'].name}:{fn['start']}-{fn['end']}"
        head = f"/-- {info['doc']}, {where} -/\ndef {info['lean']}" + "".join(f" ({p} : {vty(t)})" for p, t in sig) + \
               f" : {vty(info['ret'])} :="
        return self.loops, head + "\n" + "\n".join(vrender(body, 1))

    def gen_group(self, infos, title=None):
        """functions generated together; a `mutual` block when one of them is recursive"""
        self.group = {i["key"] for i in infos}
        self.auxes = []
        self.rec_used = False
        self.need_eq_templates = False
        texts, loops = [], []
        for i in infos:
            l, t = self.gen_fn(i)
            loops += l
            texts.append(t)
        rec = self.rec_used or bool(self.auxes)
        self.group = set()
        out = list(loops)
        if rec:
            block = ["mutual"] + texts + self.auxes
            if self.need_eq_templates:
                eqn = self.fns[("val", "eq")]["lean"]
                block.append("/-- `==` on `Vec<Rcvar>` (std: same length and pairwise `==`), fixed template -/\n"
                             "def eq_vec : List Val → List Val → Bool\n  | [], [] => true\n"
                             f"  | a :: rest1, b :: rest2 => {eqn} a b && eq_vec rest1 rest2\n  | _, _ => false")
                block.append("/-- `==` on `BTreeMap<String, Rcvar>` (std: same length and pairwise `==` of the entries in key order), "
                             "fixed template -/\n"
                             "def eq_map : List (String × Val) → List (String × Val) → Bool\n  | [], [] => true\n"
                             f"  | (k1, a) :: rest1, (k2, b) :: rest2 => (k1 == k2 && {eqn} a b) && eq_map rest1 rest2\n  | _, _ => false")
            block.append("end")
            out.append("\n".join(block))
        else:
            out += texts
        return out


def check_enum(ctx, sf, name, tag, g):
    if name not in sf.enums:
        raise TieError(f"cannot find `enum {name}` in {sf.name}")
    p = Parser(sf, sf.enums[name])
    a0 = p.i
    _, variants, _, _ = p.enum()
    ctx.add_region(sf, a0, p.i)
    table = V_ENUMS[tag][1]
    have = {v: fs for v, fs in variants}
    for v, (ctor, payload) in table.items():
        if v not in have:
            raise TieError(f"`{name}::{v}` of the translator's table is not in {sf.name}")
        fs = have[v]
        if (payload is None) != (not fs) or len(fs) > 1 or (fs and fs[0][0] is not None):
            raise TieError(f"`{name}::{v}` in {sf.name} has a different shape than the model's `.{ctor}`")
        if fs and g.rty(fs[0][1]) != payload:
            raise TieError(f"`{name}::{v}` in {sf.name} carries {g.rty(fs[0][1])}, the model's `.{ctor}` carries {payload}")
    for v in have:
        if v not in table:
            raise TieError(f"`{name}::{v}` in {sf.name} has no counterpart in the model")


def generate_valid():
    ctx = Ctx()
    var = ctx.file("variable.rs")
    fun = ctx.file("functions.rs")
    errs = ctx.file("errors.rs")
    g = VGen(ctx)
    check_enum(ctx, var, "Variable", "val", g)
    check_enum(ctx, var, "JmespathType", "jtype", g)
    check_enum(ctx, fun, "ArgumentType", "argt", g)
    # RuntimeError: the three struct variants used
    if "RuntimeError" not in errs.enums:
        raise TieError("cannot find `enum RuntimeError` in errors.rs")
    p = Parser(errs, errs.enums["RuntimeError"])
    a0 = p.i
    _, rvariants, _, _ = p.enum()
    ctx.add_region(errs, a0, p.i)
    rhave = {v: fs for v, fs in rvariants}
    for v, (ctor, order) in V_RTERR.items():
        if v not in rhave or [(f, g.rty(t)) for f, t in rhave[v]] != order:
            raise TieError(f"`RuntimeError::{v}` in errors.rs is no longer {order}")
    # Signature
    if "Signature" not in fun.structs:
        raise TieError("cannot find `struct Signature` in functions.rs")
    sp = Parser(fun, fun.structs["Signature"])
    a0 = sp.i
    _, sfields, _, _ = sp.struct()
    ctx.add_region(fun, a0, sp.i)
    g.sig_fields = {f: g.rty(t) for f, t in sfields}
    if g.sig_fields != {"inputs": ("list", "argt"), "variadic": ("opt", "argt")}:
        raise TieError("`struct Signature` is no longer `{ inputs: Vec<ArgumentType>, variadic: Option<ArgumentType> }`")
    # from_ctx must be `JmespathError::new(ctx.expression, ctx.offset, reason)`
    fc = Parser(errs, errs.find_fn("JmespathError", "from_ctx")).fn()
    ctx.add_region(errs, fc["toks"][0], fc["toks"][1])
    b = fc["body"]
    ok = False
    if not b[1] and b[2] is not None and b[2][0] == "call" and b[2][1][0] == "path" and b[2][1][1] == ["JmespathError", "new"]:
        a = b[2][2]
        ps = [p_ for p_, _ in fc["params"]]
        if len(a) == 3 and len(ps) == 2 and a[0][0] == "field" and a[0][2] == "expression" and a[1][0] == "field" and \
                a[1][2] == "offset" and a[1][1] == ("path", [ps[0]], a[1][1][2]) and a[2][0] == "path" and a[2][1] == [ps[1]]:
            ok = True
    if not ok:
        raise TieError("fn JmespathError::from_ctx (errors.rs) is no longer `JmespathError::new(ctx.expression, ctx.offset, reason)`: "
                       "the reading of `from_ctx` by `toExcept` is not justified")
    R = g.register
    acc = []
    for n in ("as_array", "as_object", "as_string", "as_number", "as_boolean", "as_null", "as_expref",
              "is_array", "is_object", "is_string", "is_number", "is_boolean", "is_null", "is_expref"):
        acc.append(R(var, "Variable", n, n, "val", f"`Variable::{n}`"))
    jfmt = R(var, "JmespathType", "fmt", "jmespath_type_fmt", "jtype", "`impl Display for JmespathType` (`fmt`): the text written")
    is_valid = R(fun, "ArgumentType", "is_valid", "is_valid", "argt", "`ArgumentType::is_valid`")
    afmt = R(fun, "ArgumentType", "fmt", "argument_type_fmt", "argt", "`impl Display for ArgumentType` (`fmt`): the text written")
    varity = R(fun, "Signature", "validate_arity", "validate_arity", "sig", "`Signature::validate_arity`")
    varg = R(fun, "Signature", "validate_arg", "validate_arg", "sig", "`Signature::validate_arg`")
    validate = R(fun, "Signature", "validate", "validate", "sig", "`Signature::validate`")
    feq = R(var, None, "float_eq", "float_eq", None, "`fn float_eq`", free_only=True)
    veq = R(var, "Variable", "eq", "variable_eq", "val", "`impl PartialEq for Variable` (`eq`)")
    vcmp = R(var, "Variable", "cmp", "variable_cmp", "val", "`impl Ord for Variable` (`cmp`)")
    out = [VALID_HEADER]
    out.append("/-! ### variable.rs: accessors -/")
    for i in acc:
        out += g.gen_group([i])
    out.append("/-! ### variable.rs / functions.rs: the names of the types (`Display`) -/")
    out += g.gen_group([jfmt])
    out += g.gen_group([afmt])
    out.append("/-! ### functions.rs: `ArgumentType::is_valid` -/")
    out += g.gen_group([is_valid])
    out.append("/-! ### functions.rs: `Signature::validate` -/")
    out += g.gen_group([varity])
    out += g.gen_group([varg])
    out += g.gen_group([validate])
    out.append("/-! ### variable.rs: equality and ordering of `Variable` -/")
    out += g.gen_group([feq])
    out += g.gen_group([veq])
    out += g.gen_group([vcmp])
    out.append(f"/-- SHA-256 over the tokens of the translated regions (informational) -/\n"
               f"def sourceDigest : String := \"{ctx.digest.hexdigest()}\"")
    out.append("end JmesVerif.Generated.ValidCode")
    return "\n\n".join(out) + "\n"


def write_if_changed(path, text):
    old = None
    if os.path.exists(path):
        old = open(path, encoding="utf-8").read()
    if old != text:
        os.makedirs(os.path.dirname(path), exist_ok=True)
        with open(path, "w", encoding="utf-8") as f:
            f.write(text)


def main():
    try:
        text = generate()
        itext = generate_interp()
        vtext = generate_valid()
    except TieError as e:
        sys.stderr.write(f"rs2lean.py: broken tie: {e}\n")
        sys.exit(1)
    except (IndexError, KeyError, TypeError, ValueError, AssertionError, RecursionError, StopIteration) as e:
        sys.stderr.write(f"rs2lean.py: broken tie: the source could not be processed ({type(e).__name__}: {e})\n")
        sys.exit(1)
    write_if_changed(OUT, text)
    write_if_changed(os.environ.get("RS2LEAN_INTERP_OUT") or OUT_INTERP, itext)
    write_if_changed(os.environ.get("RS2LEAN_VALID_OUT") or OUT_VALID, vtext)


if __name__ == "__main__":
    main()
