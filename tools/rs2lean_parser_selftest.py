#!/usr/bin/env python3
"""rs2lean_parser_selftest.py — self-test of rs2lean_parser.py + Lemmas/ParserEquiv.lean against realistic edits of
jmespath/src/parser.rs (modelled on rs2lean_selftest.py).

Copies `$VERIF_REPO/jmespath/src` (default /repo) to a scratch directory, applies one edit at a time, runs
`rs2lean_parser.py` with `VERIF_SRC` pointing at the scratch copy and rebuilds `JmesVerif.Lemmas.ParserEquiv`:
  * harmless rewrites (reordered match arms, renamed locals, reflow, `if let` for `match`, early returns, the
    `if match { .. } { .. } else { .. }` idiom replaced by a plain `match`) must keep the build green;
  * semantic mutations must make the build fail, or the translator exit non-zero (broken tie);
  * "limits": semantics-preserving rewrites known to need a proof edit (reported, not counted as failures).
`Generated/ParserCode.lean` is regenerated from the unmodified source at the end and the scratch copy removed.
Usage: rs2lean_parser_selftest.py [all|harmless|semantic|limits] [--translate-only]
  --translate-only: do not run the proofs; only check that the translator accepts the edit and that the generated file
  elaborates (`lake env lean`), writing it to a scratch file instead of Generated/ParserCode.lean."""
import os, shutil, subprocess, sys, tempfile, time
HERE = os.path.dirname(os.path.abspath(__file__))
SNAP = os.path.join(os.environ.get("VERIF_REPO", "/repo"), "jmespath", "src")
MUT = os.path.join(tempfile.gettempdir(), "rs2lean_parser_selftest_src_%d" % os.getpid())
LEAN = os.environ.get("VERIF_LEAN") or os.path.join(os.path.dirname(HERE), "lean")
GEN = os.path.join(LEAN, "JmesVerif", "Generated", "ParserCode.lean")
F = "parser.rs"


def R(old, new, count=1):
    return (F, old, new, count)


HARMLESS = {
 "reorder match arms (nud, led, parse_index, parse_dot)": [
   R("            Token::At => Ok(Ast::Identity { offset }),\n            Token::Identifier(value) => Ok(Ast::Field {\n                name: value,\n                offset,\n            }),\n",
     "            Token::Identifier(value) => Ok(Ast::Field {\n                name: value,\n                offset,\n            }),\n            Token::At => Ok(Ast::Identity { offset }),\n"),
   R("            Token::Flatten => self.parse_flatten(left),\n            Token::Filter => self.parse_filter(left),\n            Token::Eq => self.parse_comparator(Comparator::Equal, left),\n            Token::Ne => self.parse_comparator(Comparator::NotEqual, left),\n",
     "            Token::Ne => self.parse_comparator(Comparator::NotEqual, left),\n            Token::Filter => self.parse_filter(left),\n            Token::Eq => self.parse_comparator(Comparator::Equal, left),\n            Token::Flatten => self.parse_flatten(left),\n"),
   R("                Token::Rbracket => break,\n                Token::Colon if pos >= 2 => {\n                    return Err(self.err(&Token::Colon, \"Too many colons in slice expr\", false));\n                }\n",
     "                Token::Colon if pos >= 2 => {\n                    return Err(self.err(&Token::Colon, \"Too many colons in slice expr\", false));\n                }\n                Token::Rbracket => break,\n"),
   R("            &Token::Lbracket => true,\n            &Token::Identifier(_)\n            | &Token::QuotedIdentifier(_)\n            | &Token::Star\n            | &Token::Lbrace\n            | &Token::Ampersand => false,\n",
     "            &Token::Star | &Token::Identifier(_) | &Token::Ampersand => false,\n            &Token::Lbracket => true,\n            &Token::Lbrace | &Token::QuotedIdentifier(_) => false,\n"),
 ],
 "rename locals and parameters": [
   R("        let mut left = self.nud();\n        while rbp < self.peek(0).lbp() {\n            left = self.led(Box::new(left?));\n        }\n        left\n",
     "        let mut acc = self.nud();\n        while rbp < self.peek(0).lbp() {\n            acc = self.led(Box::new(acc?));\n        }\n        acc\n"),
   R("                let mut pairs = vec![];\n", "                let mut kvs = vec![];\n"),
   R("                    pairs.push(self.parse_kvp()?);\n", "                    kvs.push(self.parse_kvp()?);\n"),
   R("                    elements: pairs,\n", "                    elements: kvs,\n"),
   R("    fn parse_list(&mut self, closing: Token) -> Result<Vec<Ast>, JmespathError> {\n        let mut nodes = vec![];\n        while self.peek(0) != &closing {\n            nodes.push(self.expr(0)?);",
     "    fn parse_list(&mut self, close: Token) -> Result<Vec<Ast>, JmespathError> {\n        let mut items = vec![];\n        while self.peek(0) != &close {\n            items.push(self.expr(0)?);"),
   R("                if self.peek(0) == &closing {\n", "                if self.peek(0) == &close {\n"),
   R("            } else if self.peek(0) != &closing {\n", "            } else if self.peek(0) != &close {\n"),
   R("        self.advance();\n        Ok(nodes)\n", "        self.advance();\n        Ok(items)\n"),
   R("    fn parse_filter(&mut self, lhs: Box<Ast>) -> ParseResult {\n        // Parse the LHS of the condition node.\n        let condition_lhs = Box::new(self.expr(0)?);",
     "    fn parse_filter(&mut self, source: Box<Ast>) -> ParseResult {\n        let cond = Box::new(self.expr(0)?);"),
   R("                    offset: self.offset,\n                    lhs,\n                    rhs: Box::new(Ast::Condition {\n                        offset: self.offset,\n                        predicate: condition_lhs,\n",
     "                    offset: self.offset,\n                    lhs: source,\n                    rhs: Box::new(Ast::Condition {\n                        offset: self.offset,\n                        predicate: cond,\n"),
   R("        let (offset, token) = self.advance_with_pos();\n        match token {\n            Token::At =>", "        let (start, tk) = self.advance_with_pos();\n        let offset = start;\n        match tk {\n            Token::At =>"),
 ],
 "reflow, comments, attributes": [
   R("    fn expr(&mut self, rbp: usize) -> ParseResult {\n        let mut left = self.nud();\n        while rbp < self.peek(0).lbp() {\n            left = self.led(Box::new(left?));\n        }\n        left\n    }",
     "    #[inline(never)]\n    #[allow(clippy::all)]\n    fn expr(\n        &mut self,\n        rbp: usize, // right binding power\n    ) -> ParseResult\n    {\n        /* nud first /* nested */ */\n        let mut left = self.nud();\n        while rbp<self.peek(0).lbp() { left=self.led(Box::new(left?)); }\n        left\n    }"),
   R("        let rhs = Box::new(self.projection_rhs(Token::Flatten.lbp())?);\n        Ok(Ast::Projection {\n            offset: self.offset,\n            lhs: Box::new(Ast::Flatten {\n                offset: self.offset,\n                node: lhs,\n            }),\n            rhs,\n        })",
     "        let rhs = Box::new(\n            self.projection_rhs(\n                Token::Flatten\n                    .lbp(),\n            )?,\n        ); // the right-hand side\n        Ok(Ast::Projection { offset: self.offset, lhs: Box::new(Ast::Flatten { offset: self.offset, node: lhs }), rhs: rhs })"),
 ],
 "`if let` for `match` (peek, advance_with_pos, err, led's function arm)": [
   R("        match self.token_queue.get(lookahead) {\n            Some(&(_, ref t)) => t,\n            None => &self.eof_token,\n        }",
     "        if let Some(&(_, ref t)) = self.token_queue.get(lookahead) {\n            t\n        } else {\n            &self.eof_token\n        }"),
   R("        match self.token_queue.pop_front() {\n            Some((pos, tok)) => {\n                self.offset = pos;\n                (pos, tok)\n            }\n            None => (self.offset, Token::Eof),\n        }",
     "        if let Some((pos, tok)) = self.token_queue.pop_front() {\n            self.offset = pos;\n            (pos, tok)\n        } else {\n            (self.offset, Token::Eof)\n        }"),
   R("            if let Some(&(p, _)) = self.token_queue.get(0) {\n                actual_pos = p;\n            }",
     "            match self.token_queue.get(0) {\n                Some(&(p, _)) => {\n                    actual_pos = p;\n                }\n                None => {}\n            }"),
   R("            Token::Lparen => match *left {\n                Ast::Field { name: v, .. } => Ok(Ast::Function {\n                    offset,\n                    name: v,\n                    args: self.parse_list(Token::Rparen)?,\n                }),\n                _ => Err(self.err(self.peek(0), \"Invalid function name\", true)),\n            },",
     "            Token::Lparen => {\n                if let Ast::Field { name: v, .. } = *left {\n                    Ok(Ast::Function {\n                        offset,\n                        name: v,\n                        args: self.parse_list(Token::Rparen)?,\n                    })\n                } else {\n                    Err(self.err(self.peek(0), \"Invalid function name\", true))\n                }\n            }"),
 ],
 "early returns, `let r = ..?; Ok(..)`": [
   R("                if self.peek(0) == &Token::Colon {\n                    self.advance();\n                    Ok(KeyValuePair {\n                        key: value,\n                        value: self.expr(0)?,\n                    })\n                } else {\n                    Err(self.err(self.peek(0), \"Expected ':' to follow key\", true))\n                }",
     "                if self.peek(0) != &Token::Colon {\n                    return Err(self.err(self.peek(0), \"Expected ':' to follow key\", true));\n                }\n                self.advance();\n                let v = self.expr(0)?;\n                return Ok(KeyValuePair { key: value, value: v });"),
   R("        let rhs = Box::new(self.expr(Token::Eq.lbp())?);\n        Ok(Ast::Comparison {\n            offset: self.offset,\n            comparator: cmp,\n            lhs,\n            rhs,\n        })",
     "        let r = self.expr(Token::Eq.lbp())?;\n        let node = Ast::Comparison {\n            offset: self.offset,\n            comparator: cmp,\n            lhs,\n            rhs: Box::new(r),\n        };\n        return Ok(node);"),
   R("                let result = self.expr(0)?;\n                match self.advance() {\n                    Token::Rparen => Ok(result),\n                    ref t => Err(self.err(t, \"Expected ')' to close '('\", false)),\n                }",
     "                let result = self.expr(0)?;\n                match self.advance() {\n                    Token::Rparen => {\n                        return Ok(result);\n                    }\n                    ref t => {\n                        let e = self.err(t, \"Expected ')' to close '('\", false);\n                        Err(e)\n                    }\n                }"),
 ],
 "`if match { .. } { a } else { b }` written as a plain `match` (projection_rhs, parse_dot, led `[`)": [
   R("        if match self.peek(0) {\n            &Token::Dot => true,\n            &Token::Lbracket | &Token::Filter => false,\n            t if t.lbp() < PROJECTION_STOP => {\n                return Ok(Ast::Identity {\n                    offset: self.offset,\n                });\n            }\n            t => {\n                return Err(self.err(t, \"Expected '.', '[', or '[?'\", true));\n            }\n        } {\n            self.advance();\n            self.parse_dot(lbp)\n        } else {\n            self.expr(lbp)\n        }",
     "        match self.peek(0) {\n            &Token::Dot => {\n                self.advance();\n                self.parse_dot(lbp)\n            }\n            &Token::Lbracket | &Token::Filter => self.expr(lbp),\n            t if t.lbp() < PROJECTION_STOP => Ok(Ast::Identity {\n                offset: self.offset,\n            }),\n            t => Err(self.err(t, \"Expected '.', '[', or '[?'\", true)),\n        }"),
   R("                if match self.peek(0) {\n                    &Token::Number(_) | &Token::Colon => true,\n                    &Token::Star => false,\n                    t => return Err(self.err(t, \"Expected number, ':', or '*'\", true)),\n                } {\n                    Ok(Ast::Subexpr {\n                        offset,\n                        lhs: left,\n                        rhs: Box::new(self.parse_index()?),\n                    })\n                } else {\n                    self.advance();\n                    self.parse_wildcard_index(left)\n                }",
     "                match self.peek(0) {\n                    &Token::Star => {\n                        self.advance();\n                        self.parse_wildcard_index(left)\n                    }\n                    &Token::Number(_) | &Token::Colon => {\n                        let rhs = self.parse_index()?;\n                        Ok(Ast::Subexpr {\n                            offset,\n                            lhs: left,\n                            rhs: Box::new(rhs),\n                        })\n                    }\n                    t => Err(self.err(t, \"Expected number, ':', or '*'\", true)),\n                }"),
 ],
}

SEMANTIC = {
 "expr loop: `rbp <= lbp` instead of `<`": [R("        while rbp < self.peek(0).lbp() {", "        while rbp <= self.peek(0).lbp() {")],
 "Or parses its right operand at `Token::And.lbp()`": [R("            t @ Token::Or => {\n                let offset = offset;\n                let rhs = self.expr(t.lbp())?;", "            t @ Token::Or => {\n                let offset = offset;\n                let rhs = self.expr(Token::And.lbp())?;")],
 "filter: right-hand side at `Token::Star.lbp()`": [R("self.projection_rhs(Token::Filter.lbp())?", "self.projection_rhs(Token::Star.lbp())?")],
 "Not: operand at 40": [R("                node: Box::new(self.expr(t.lbp())?),", "                node: Box::new(self.expr(40)?),")],
 "PROJECTION_STOP = 9": [R("const PROJECTION_STOP: usize = 10;", "const PROJECTION_STOP: usize = 9;")],
 "parse_dot accepts `Token::Number`": [R("            | &Token::Ampersand => false,", "            | &Token::Number(_)\n            | &Token::Ampersand => false,")],
 "slice: default step 0": [R("parts[2].unwrap_or(1)", "parts[2].unwrap_or(0)")],
 "comparator: operands swapped": [R("            comparator: cmp,\n            lhs,\n            rhs,\n", "            comparator: cmp,\n            lhs: rhs,\n            rhs: lhs,\n")],
 "projection_rhs treats `Lparen` like `Dot`": [R("            &Token::Dot => true,\n            &Token::Lbracket | &Token::Filter => false,", "            &Token::Dot | &Token::Lparen => true,\n            &Token::Lbracket | &Token::Filter => false,")],
 "Function node takes the name token's offset": [R("                Ast::Field { name: v, .. } => Ok(Ast::Function {\n                    offset,\n", "                Ast::Field { name: v, offset: o } => Ok(Ast::Function {\n                    offset: o,\n")],
 "MultiHash: roles of `}` and `,` swapped": [R("                        Token::Rbrace => break,\n                        // Skip commas as they are used to delineate kvps\n                        Token::Comma => continue,", "                        Token::Rbrace => continue,\n                        Token::Comma => break,")],
 "MultiHash: key/value swapped literally (ill-typed in Rust: must be refused)": [R("                        key: value,\n                        value: self.expr(0)?,", "                        value: value,\n                        key: self.expr(0)?,")],
 "MultiHash: key colon not required": [R("                if self.peek(0) == &Token::Colon {\n                    self.advance();\n                    Ok(KeyValuePair {", "                if self.peek(0) != &Token::Comma {\n                    self.advance();\n                    Ok(KeyValuePair {")],
 "parse_list accepts a missing comma": [R("            } else if self.peek(0) != &closing {\n                return Err(self.err(self.peek(0), \"Expected ',' or closing token\", true));\n            }", "            }")],
 "parse_list: trailing comma accepted": [R("                if self.peek(0) == &closing {\n                    return Err(self.err(self.peek(0), \"invalid token after ','\", true));\n                }\n", "")],
 "error offset: `err(.., is_peek = false)` for the end-of-input check": [R("                t => Err(self.err(t, \"Did not parse the complete expression\", true)),", "                t => Err(self.err(t, \"Did not parse the complete expression\", false)),")],
 "Projection offset read before the right-hand side (parse_flatten)": [R("        let rhs = Box::new(self.projection_rhs(Token::Flatten.lbp())?);\n        Ok(Ast::Projection {\n            offset: self.offset,\n            lhs: Box::new(Ast::Flatten {\n                offset: self.offset,",
                                                                           "        let o = self.offset;\n        let rhs = Box::new(self.projection_rhs(Token::Flatten.lbp())?);\n        Ok(Ast::Projection {\n            offset: o,\n            lhs: Box::new(Ast::Flatten {\n                offset: self.offset,")],
 "slice: `pos >= 2` check removed (a third colon panics / is accepted)": [R("                Token::Colon if pos >= 2 => {\n                    return Err(self.err(&Token::Colon, \"Too many colons in slice expr\", false));\n                }\n", "")],
 "outside the subset: `for` loop": [R("        let mut nodes = vec![];\n", "        let mut nodes = vec![];\n        for _ in 0..1 {}\n")],
 "target removed: fn projection_rhs renamed": [R("projection_rhs(", "proj_rhs(", 6)],
}

LIMITS = {
 "expr: `let mut left = self.nud()?; while .. { left = self.led(Box::new(left))?; } Ok(left)` (the loop variable is an `Ast`, no longer a `Result`: the statement about `expr_loop` changes type)": [
   R("        let mut left = self.nud();\n        while rbp < self.peek(0).lbp() {\n            left = self.led(Box::new(left?));\n        }\n        left\n",
     "        let mut left = self.nud()?;\n        while rbp < self.peek(0).lbp() {\n            left = self.led(Box::new(left))?;\n        }\n        Ok(left)\n")],
}


def fresh():
    shutil.rmtree(MUT, ignore_errors=True)
    shutil.copytree(SNAP, MUT)


def apply(edits):
    for (f, old, new, count) in edits:
        p = os.path.join(MUT, f)
        s = open(p).read()
        if s.count(old) != count:
            print("   !! edit does not apply (%d occurrences, expected %d): %r" % (s.count(old), count, old[:60]))
            return False
        open(p, "w").write(s.replace(old, new))
    return True


def run(translate_only):
    env = dict(os.environ, VERIF_SRC=MUT)
    scratch = os.path.join(tempfile.gettempdir(), "ParserCode_selftest_%d.lean" % os.getpid())
    env["RS2LEAN_PARSER_OUT"] = scratch if translate_only else GEN
    t0 = time.time()
    r = subprocess.run([sys.executable, os.path.join(HERE, "rs2lean_parser.py")], env=env, capture_output=True, text=True)
    if r.returncode != 0:
        return "translator-refused", r.stderr.strip().splitlines()[-1] if r.stderr.strip() else ""
    if translate_only:
        b = subprocess.run(["lake", "env", "lean", scratch], cwd=LEAN, capture_output=True, text=True)
    else:
        b = subprocess.run(["lake", "build", "JmesVerif.Lemmas.ParserEquiv"], cwd=LEAN, capture_output=True, text=True)
    dt = time.time() - t0
    if b.returncode == 0 and ": error" not in b.stdout:
        return "ok", "%.0fs" % dt
    first = [l for l in (b.stdout + b.stderr).splitlines() if ": error" in l or l.startswith("error")][:1]
    return "build-fails", "%.0fs %s" % (dt, (first[0][:150] if first else ""))


def main():
    args = [a for a in sys.argv[1:] if not a.startswith("--")]
    translate_only = "--translate-only" in sys.argv
    what = args[0] if args else "all"
    bad = 0
    try:
        for title, table, want in (("harmless", HARMLESS, ("ok",)), ("semantic", SEMANTIC, ("build-fails", "translator-refused")),
                                   ("limits", LIMITS, None)):
            if what not in ("all", title):
                continue
            print("== %s%s" % (title, " (translate only)" if translate_only else ""))
            for name, edits in table.items():
                fresh()
                if not apply(edits):
                    bad += 1
                    continue
                res, info = run(translate_only)
                if translate_only:
                    good = (res == "ok") if title != "semantic" else (res in ("ok", "translator-refused"))
                else:
                    good = True if want is None else res in want
                print("   [%s] %-22s %s — %s" % ("ok" if good else "UNEXPECTED", res, name, info))
                bad += 0 if good else 1
    finally:
        shutil.rmtree(MUT, ignore_errors=True)
        if not translate_only:
            env = dict(os.environ, RS2LEAN_PARSER_OUT=GEN)
            env.pop("VERIF_SRC", None)
            subprocess.run([sys.executable, os.path.join(HERE, "rs2lean_parser.py")], env=env)
    print("unexpected outcomes: %d" % bad)
    sys.exit(1 if bad else 0)


if __name__ == "__main__":
    main()
