#!/usr/bin/env python3
"""Seeded-change bookkeeping (DESIGN §11).

  seeded.py verify <srcdir> <worktree> [--features sync]   confirm in a scratch worktree: the change compiles, the existing suite passes
                                            with it, the demo fails with it and passes without it; then store it as seeded/<name>/
  seeded.py run <name> [--tier quick] [--props C01,C05]   apply seeded/<name>/patch.diff to /repo, run the owning check(s), undo straight afterwards
  seeded.py runall                          run every stored change against its owning property's quick check, print a table

Nothing is ever committed in /repo; `run` always restores the working tree (`git checkout -- .`)."""
import json
import os
import re
import shutil
import subprocess
import sys
import time

V = os.path.dirname(os.path.dirname(os.path.abspath(__file__)))
SEEDED = os.path.join(V, "seeded")
ENV = dict(os.environ, CARGO_NET_OFFLINE="true", CARGO_TERM_COLOR="never")


def sh(cmd, cwd=None, timeout=3600):
    p = subprocess.run(cmd, cwd=cwd, env=ENV, stdout=subprocess.PIPE, stderr=subprocess.STDOUT, text=True, errors="replace", timeout=timeout, shell=isinstance(cmd, str))
    return p.returncode, p.stdout


TOOLCHAIN = []


def suite(wt, features):
    cmd = ["cargo"] + TOOLCHAIN + ["test", "--offline"] + (["--features", features] if features else [])
    rc, out = sh(cmd, cwd=os.path.join(wt, "jmespath"))
    res = re.findall(r"^test result: (\w+)\. (\d+) passed; (\d+) failed", out, re.M)
    return rc == 0 and all(r[0] == "ok" for r in res), sum(int(r[1]) for r in res), out


def verify(src, wt, features=None):
    name = os.path.basename(src.rstrip("/"))
    patch = os.path.join(src, "patch.diff")
    demo_rs = os.path.join(src, "demo.rs")
    demo_sh = os.path.join(src, "demo.sh")
    assert os.path.exists(patch), patch
    rc, out = sh(["git", "-C", wt, "status", "--porcelain", "--untracked-files=no"])
    assert out.strip() == "", f"worktree {wt} not clean:\n{out}"
    rep = dict(name=name, features=features)
    tname = "demo_" + name.lower()
    tfile = os.path.join(wt, "jmespath", "tests", tname + ".rs")

    def demo():
        if os.path.exists(demo_rs):
            shutil.copy(demo_rs, tfile)
            cmd = ["cargo"] + TOOLCHAIN + ["test", "--offline", "--test", tname] + (["--features", features] if features else [])
            rc, out = sh(cmd, cwd=os.path.join(wt, "jmespath"))
            os.remove(tfile)
            return rc == 0, out[-800:]
        rc, out = sh(["bash", demo_sh, wt], cwd=wt)
        return rc == 0, out[-800:]

    try:
        ok0, o0 = demo()
        rep["demo_passes_without_change"] = ok0
        rc, out = sh(["git", "-C", wt, "apply", patch])
        assert rc == 0, out
        oks, n, so = suite(wt, None)
        rep["suite_passes_with_change"] = oks
        rep["suite_tests"] = n
        if features:
            oks2, n2, so2 = suite(wt, features)
            rep["suite_passes_with_change_" + features] = oks2
            oks = oks and oks2
        ok1, o1 = demo()
        rep["demo_fails_with_change"] = not ok1
        if "jmespath-cli" in open(patch).read():
            # the CLI's own tests, through the wrapper package the demo script creates (the repo's jmespath-cli lock file cannot be resolved offline)
            w = os.environ.get("JP_WRAPPER_DIR", "/tmp/mut/scratch/C18w")
            rc, out = sh("CARGO_TARGET_DIR=%s/target cargo test --offline 2>&1 | tail -5" % w, cwd=os.path.join(w, "jmespath-cli"))
            rep["cli_tests_pass_with_change"] = "test result: ok" in out and "FAILED" not in out
            oks = oks and rep["cli_tests_pass_with_change"]
        rep["confirmed"] = bool(ok0 and oks and not ok1)
        if not rep["confirmed"]:
            rep["logs"] = dict(without=o0, suite=so[-800:], with_=o1)
    finally:
        sh(["git", "-C", wt, "checkout", "--", "."])
        if os.path.exists(tfile):
            os.remove(tfile)
    print(json.dumps({k: v for k, v in rep.items() if k != "logs"}))
    if rep["confirmed"]:
        dst = os.path.join(SEEDED, name)
        os.makedirs(dst, exist_ok=True)
        for f in ("patch.diff", "demo.rs", "demo.sh", "notes.md"):
            if os.path.exists(os.path.join(src, f)):
                shutil.copy(os.path.join(src, f), os.path.join(dst, f))
        meta = dict(name=name, property=name.split("_")[0], features=features, confirmed=rep, checks={})
        mp = os.path.join(dst, "meta.json")
        if os.path.exists(mp):
            meta["checks"] = json.load(open(mp)).get("checks", {})
        json.dump(meta, open(mp, "w"), indent=1)
    else:
        print(json.dumps(rep.get("logs"), indent=1))
    return rep["confirmed"]


def run(name, tier="quick", props=None):
    d = os.path.join(SEEDED, name)
    meta = json.load(open(os.path.join(d, "meta.json")))
    props = props or [meta["property"]]
    rc, out = sh(["git", "-C", "/repo", "status", "--porcelain", "--untracked-files=no"])
    assert out.strip() == "", "/repo not clean:\n" + out
    res = {}
    # evidence files describe the UNCHANGED tree: keep them as they are and put them back afterwards
    saved = {p: open(os.path.join(V, "evidence", p + ".json")).read() for p in props if os.path.exists(os.path.join(V, "evidence", p + ".json"))}
    try:
        rc, out = sh(["git", "-C", "/repo", "apply", os.path.join(d, "patch.diff")])
        assert rc == 0, out
        for p in props:
            t = time.time()
            rc, out = sh([sys.executable, os.path.join(V, "tools", "check.py"), p, "--tier", tier], cwd=V)
            vio = [l for l in out.splitlines() if l.startswith("VIOLATION")]
            rp = None
            detail = None
            if vio:
                m = re.search(r"replay=(\S+)", vio[0])
                if m and os.path.exists(m.group(1)):
                    rp = json.load(open(m.group(1)))
                    detail = {k: (str(rp.get(k))[:200]) for k in ("kind", "stream", "case", "implementation", "expected", "why", "broken") if k in rp}
            res[p] = dict(exit=rc, caught=bool(rc != 0 and vio), violation=vio[0] if vio else None, n_violation_lines=len(vio),
                          no_failing_input=bool(vio and vio[0].rstrip().endswith("no-failing-input-found")), replay=detail, wall_s=round(time.time() - t, 1), tier=tier)
    finally:
        sh(["git", "-C", "/repo", "checkout", "--", "."])
        sh([sys.executable, os.path.join(V, "tools", "translate.py")], cwd=V)      # Generated/*.lean back to the unchanged source
        for p, txt in saved.items():
            open(os.path.join(V, "evidence", p + ".json"), "w").write(txt)
    meta.setdefault("checks", {}).update(res)
    json.dump(meta, open(os.path.join(d, "meta.json"), "w"), indent=1)
    for p, r in res.items():
        print(f"{name} vs {p} [{tier}]: {'CAUGHT' if r['caught'] else 'MISSED'} exit={r['exit']} {r['wall_s']}s {r['violation'] or ''}")
        if r["replay"]:
            print("    ", json.dumps(r["replay"])[:400])
    return res


def main():
    a = sys.argv[1:]
    if a[0] == "verify":
        feats = a[a.index("--features") + 1] if "--features" in a else None
        if "--toolchain" in a:
            TOOLCHAIN.append("+" + a[a.index("--toolchain") + 1])
        sys.exit(0 if verify(a[1], a[2], feats) else 1)
    if a[0] == "run":
        tier = a[a.index("--tier") + 1] if "--tier" in a else "quick"
        props = a[a.index("--props") + 1].split(",") if "--props" in a else None
        run(a[1], tier, props)
    if a[0] == "runall":
        for n in sorted(os.listdir(SEEDED)):
            if os.path.exists(os.path.join(SEEDED, n, "meta.json")):
                run(n)
    # leave the evidence files as the unchanged tree produces them is the caller's job (re-run the check afterwards)


if __name__ == "__main__":
    main()
