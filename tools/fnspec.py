"""Reference semantics of the 26 builtins, written from the JMESPath function specification over the
typed value encoding (enc.py structures), independently of the Lean model and of functions.rs.
Numbers are IEEE doubles through Python floats (the specification's arithmetic on the double image)."""
import json
import struct
from fractions import Fraction
import enc as E


class Undefined(Exception):
    """the specification leaves this call outside what we predict (e.g. non-finite results)"""


def num_to_float(tok):
    if tok[0] in "ui":
        return float(int(tok[1:]))
    return struct.unpack("<d", struct.pack("<Q", int(tok[1:], 16)))[0]


def float_tok(x):
    if x != x or x in (float("inf"), float("-inf")):
        raise Undefined("non-finite")
    return E.Num("d%016x" % struct.unpack("<Q", struct.pack("<d", x))[0])


def is_num(v):
    return isinstance(v, E.Num)


def is_str(v):
    return isinstance(v, tuple) and v[0] == "s"


def typename(v):
    if v is None:
        return "null"
    if v is True or v is False:
        return "boolean"
    if is_num(v):
        return "number"
    if is_str(v):
        return "string"
    if isinstance(v, list):
        return "array"
    if isinstance(v, dict):
        return "object"
    return "expref"


def fmt_float(x):
    """serde_json (zmij) spelling of a finite double"""
    if x == 0:
        return "-0.0" if str(x).startswith("-") else "0.0"
    r = repr(abs(x))
    if "e" in r:
        mant, ex = r.split("e")
        digits = mant.replace(".", "")
        exp = int(ex)
    else:
        ip, fp = r.split(".")
        if fp == "0":
            fp = ""
        if ip != "0":
            digits, exp = ip + fp, len(ip) - 1
        else:
            stripped = fp.lstrip("0")
            digits, exp = stripped, -(len(fp) - len(stripped) + 1)
    digits = digits.rstrip("0") or "0"
    if -5 <= exp < 16:
        if exp >= 0:
            k = exp + 1
            body = (digits + "0" * (k - len(digits)) + ".0") if len(digits) <= k else digits[:k] + "." + digits[k:]
        else:
            body = "0." + "0" * (-exp - 1) + digits
    else:
        body = (digits[0] + ("." + digits[1:] if len(digits) > 1 else "")) + "e" + ("-" if exp < 0 else "+") + str(abs(exp))
    return ("-" if x < 0 else "") + body


def json_text(v):
    if v is None:
        return "null"
    if v is True:
        return "true"
    if v is False:
        return "false"
    if is_num(v):
        return v[1:] if v[0] in "ui" else fmt_float(num_to_float(v))
    if is_str(v):
        return json_quote(v[1])
    if isinstance(v, list):
        return "[" + ",".join(json_text(x) for x in v) + "]"
    if isinstance(v, dict):
        return "{" + ",".join(json_quote(k) + ":" + json_text(v[k]) for k in sorted(v, key=lambda s: s.encode("utf-8"))) + "}"
    raise Undefined("expref text")


def json_quote(s):
    out = ['"']
    for ch in s:
        o = ord(ch)
        if ch == '"':
            out.append('\\"')
        elif ch == "\\":
            out.append("\\\\")
        elif o == 8:
            out.append("\\b")
        elif o == 12:
            out.append("\\f")
        elif ch == "\n":
            out.append("\\n")
        elif ch == "\r":
            out.append("\\r")
        elif ch == "\t":
            out.append("\\t")
        elif o < 0x20:
            out.append("\\u%04x" % o)
        else:
            out.append(ch)
    out.append('"')
    return "".join(out)


def str_key(s):
    return s.encode("utf-8")      # byte order = code point order


def sort_key(v):
    return num_to_float(v) if is_num(v) else str_key(v[1])


def stable_sorted(items, key):
    return sorted(items, key=key)          # Python's sort is stable


def values_equal(a, b):
    """deep equality with numbers by value (exact on the double image; tolerant band is C10's subject)"""
    if is_num(a) and is_num(b):
        return num_to_float(a) == num_to_float(b)
    if type(a) is not type(b) and not (is_num(a) or is_num(b)):
        if isinstance(a, bool) != isinstance(b, bool):
            return False
    if isinstance(a, list) and isinstance(b, list):
        return len(a) == len(b) and all(values_equal(x, y) for x, y in zip(a, b))
    if isinstance(a, dict) and isinstance(b, dict):
        return a.keys() == b.keys() and all(values_equal(a[k], b[k]) for k in a)
    return a == b and typename(a) == typename(b)


def to_number(s):
    """string → number or null (JSON number grammar)"""
    import re
    t = s.strip(" \t\r\n")
    if not re.fullmatch(r"-?(0|[1-9][0-9]*)(\.[0-9]+)?([eE][+-]?[0-9]+)?", t):
        return None
    if re.fullmatch(r"-?(0|[1-9][0-9]*)", t):
        n = int(t)
        if t == "-0":
            return float_tok(-0.0)
        if 0 <= n < 2 ** 64:
            return E.Num("u%d" % n)
        if -2 ** 63 <= n < 0:
            return E.Num("i%d" % n)
    digits = re.sub(r"[^0-9]", "", t.split("e")[0].split("E")[0]).lstrip("0")
    if len(digits) > 15:
        raise Undefined("beyond the exactly representable decimal range")
    x = float(t)
    if x in (float("inf"), float("-inf")):
        return None
    return float_tok(x)


def call(name, args, apply_expref):
    """args: decoded values (exprefs as ('x', text)); apply_expref(exprtext, element) → value (may raise Undefined)"""
    a = args
    if name == "abs":
        return float_tok(abs(num_to_float(a[0])))
    if name == "avg":
        if not a[0]:
            return None
        s = 0.0
        for x in a[0]:
            s += num_to_float(x)
        return float_tok(s / float(len(a[0])))
    if name == "ceil":
        import math
        x = num_to_float(a[0])
        r = float(math.ceil(x)) if abs(x) < 2 ** 53 else x
        return float_tok(math.copysign(r, x) if r == 0 else r)       # IEEE: ceil(-0.3) = -0.0
    if name == "floor":
        import math
        x = num_to_float(a[0])
        r = float(math.floor(x)) if abs(x) < 2 ** 53 else x
        return float_tok(math.copysign(r, x) if r == 0 else r)
    if name == "contains":
        if is_str(a[0]):
            return is_str(a[1]) and a[1][1] in a[0][1]
        if any(is_num(x) for x in _flat(a[0])) and any(is_num(x) for x in _flat(a[1])):
            # numeric equality near the tolerance band is C10's subject
            pass
        return any(values_equal(x, a[1]) for x in a[0])
    if name == "ends_with":
        return a[0][1].endswith(a[1][1])
    if name == "starts_with":
        return a[0][1].startswith(a[1][1])
    if name == "join":
        return ("s", a[0][1].join(x[1] for x in a[1]))
    if name == "keys":
        return [("s", k) for k in sorted(a[0], key=str_key)]
    if name == "values":
        return [a[0][k] for k in sorted(a[0], key=str_key)]
    if name == "length":
        return E.Num("u%d" % (len(a[0][1]) if is_str(a[0]) else len(a[0])))
    if name == "map":
        return [apply_expref(a[0][1], x) for x in a[1]]
    if name in ("max", "min"):
        if not a[0]:
            return None
        best = a[0][0]
        for x in a[0][1:]:
            if name == "max":
                if not sort_key(best) > sort_key(x):      # ties: the later element
                    best = x
            else:
                if sort_key(best) > sort_key(x):           # ties: the earlier element
                    best = x
        return best
    if name in ("max_by", "min_by", "sort_by"):
        xs = a[0]
        if not xs:
            return None if name != "sort_by" else []
        keys = [apply_expref(a[1][1], x) for x in xs]
        t0 = typename(keys[0])
        if t0 not in ("number", "string") or any(typename(k) != t0 for k in keys):
            raise Undefined("key type error")
        ks = [sort_key(k) for k in keys]
        if name == "sort_by":
            return [x for _, x in stable_sorted(list(zip(ks, xs)), key=lambda p: p[0])]
        idx = 0
        for i in range(1, len(xs)):
            if (name == "max_by" and ks[i] > ks[idx]) or (name == "min_by" and ks[i] < ks[idx]):
                idx = i                                        # ties: the first element
        return xs[idx]
    if name == "merge":
        out = {}
        for o in a:
            out.update(o)
        return out
    if name == "not_null":
        for x in a:
            if x is not None:
                return x
        return None
    if name == "reverse":
        return ("s", a[0][1][::-1]) if is_str(a[0]) else a[0][::-1]
    if name == "sort":
        return stable_sorted(a[0], key=sort_key)
    if name == "sum":
        s = 0.0
        for x in a[0]:
            s += num_to_float(x)
        return float_tok(s)
    if name == "to_array":
        return a[0] if isinstance(a[0], list) else [a[0]]
    if name == "to_number":
        if is_num(a[0]):
            return a[0]
        if is_str(a[0]):
            return to_number(a[0][1])
        return None
    if name == "to_string":
        return a[0] if is_str(a[0]) else ("s", json_text(a[0]))
    if name == "type":
        return ("s", typename(a[0]))
    raise Undefined(name)


def _flat(v):
    if isinstance(v, list):
        for x in v:
            yield from _flat(x)
    elif isinstance(v, dict):
        for x in v.values():
            yield from _flat(x)
    else:
        yield v


def same_value(a, b):
    """expected vs obtained: numbers must have the same kind and bits, except that a double result may be spelled as any number of equal value
    when it is an *input element returned as is* (handled by identity of tokens)"""
    return E.dump(a) == E.dump(b)
