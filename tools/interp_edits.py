"""edits of `fn interpret` (interpreter.rs) used by rs2lean_selftest.py: harmless rewrites and semantic mutations"""


def R(file, old, new, count=1):
    return (file, old, new, count)


I = "interpreter.rs"

ARM_FIELD = "        Ast::Field { ref name, .. } => Ok(data.get_field(name)),\n"
ARM_SLICE = """        Ast::Slice {
            start,
            stop,
            step,
            offset,
        } => {
            if step == 0 {
                ctx.offset = offset;
                let reason = ErrorReason::Runtime(RuntimeError::InvalidSlice);
                Err(JmespathError::from_ctx(ctx, reason))
            } else {
                match data.slice(start, stop, step) {
                    Some(array) => Ok(Rcvar::new(Variable::Array(array))),
                    None => Ok(Rcvar::new(Variable::Null)),
                }
            }
        }
"""
ARM_EXPREF = "        Ast::Expref { ref ast, .. } => Ok(Rcvar::new(Variable::Expref(*ast.clone()))),\n"
ARM_IDENTITY = "        Ast::Identity { .. } => Ok(data.clone()),\n"
ARM_LITERAL = "        Ast::Literal { ref value, .. } => Ok(value.clone()),\n"

PROJ_OLD = """        } => match interpret(data, lhs, ctx)?.as_array() {
            None => Ok(Rcvar::new(Variable::Null)),
            Some(left) => {
                let mut collected = vec![];
                for element in left {
                    let current = interpret(element, rhs, ctx)?;
                    if !current.is_null() {
                        collected.push(current);
                    }
                }
                Ok(Rcvar::new(Variable::Array(collected)))
            }
        },
"""
FLAT_OLD = """        Ast::Flatten { ref node, .. } => match interpret(data, node, ctx)?.as_array() {
            None => Ok(Rcvar::new(Variable::Null)),
            Some(a) => {
                let mut collected: Vec<Rcvar> = vec![];
                for element in a {
                    match element.as_array() {
                        Some(array) => collected.extend(array.iter().cloned()),
                        _ => collected.push(element.clone()),
                    }
                }
                Ok(Rcvar::new(Variable::Array(collected)))
            }
        },
"""
MLIST_OLD = """            if data.is_null() {
                Ok(Rcvar::new(Variable::Null))
            } else {
                let mut collected = vec![];
                for node in elements {
                    collected.push(interpret(data, node, ctx)?);
                }
                Ok(Rcvar::new(Variable::Array(collected)))
            }
"""
MHASH_OLD = """            if data.is_null() {
                Ok(Rcvar::new(Variable::Null))
            } else {
                let mut collected = BTreeMap::new();
                for kvp in elements {
                    let value = interpret(data, &kvp.value, ctx)?;
                    collected.insert(kvp.key.clone(), value);
                }
                Ok(Rcvar::new(Variable::Object(collected)))
            }
"""
FUNC_TAIL_OLD = """            let result = match ctx.runtime.get_function(name) {
                Some(f) => f.evaluate(&fn_args, ctx),
                None => {
                    let reason =
                        ErrorReason::Runtime(RuntimeError::UnknownFunction(name.to_owned()));
                    Err(JmespathError::from_ctx(ctx, reason))
                }
            };
            // Restore it, so that an enclosing call that fails later points at itself.
            ctx.offset = previous_offset;
            result
"""

INTERP_HARMLESS = {
 "interpret: arms reordered (Slice first, Field/Identity/Literal/Expref last, Or/And swapped)": [
   R(I, ARM_SLICE, ""), R(I, ARM_FIELD, ARM_SLICE), R(I, ARM_EXPREF, ARM_EXPREF + ARM_FIELD),
   R(I, ARM_IDENTITY, ""), R(I, ARM_LITERAL, ""),
   R(I, "        Ast::Slice {\n            start,\n            stop,\n            step,\n            offset,\n        } => {\n            if step == 0 {", ARM_IDENTITY + ARM_LITERAL + "        Ast::Slice {\n            start,\n            stop,\n            step,\n            offset,\n        } => {\n            if step == 0 {"),
   R(I, "        Ast::Or {\n            ref lhs, ref rhs, ..\n        } => {\n            let left = interpret(data, lhs, ctx)?;\n            if left.is_truthy() {",
        "        Ast::XX {\n            ref lhs, ref rhs, ..\n        } => {\n            let left = interpret(data, lhs, ctx)?;\n            if left.is_truthy() {"),
   R(I, "        Ast::And {\n            ref lhs, ref rhs, ..\n        } => {\n            let left = interpret(data, lhs, ctx)?;\n            if !left.is_truthy() {",
        "        Ast::Or {\n            ref lhs, ref rhs, ..\n        } => {\n            let left = interpret(data, lhs, ctx)?;\n            if left.is_truthy() {"),
   R(I, "        Ast::XX {\n            ref lhs, ref rhs, ..\n        } => {\n            let left = interpret(data, lhs, ctx)?;\n            if left.is_truthy() {",
        "        Ast::And {\n            ref lhs, ref rhs, ..\n        } => {\n            let left = interpret(data, lhs, ctx)?;\n            if !left.is_truthy() {"),
 ],
 "interpret: binders and locals renamed (field: ref x patterns, collected/current/fn_args/result/left)": [
   R(I, "        Ast::Subexpr {\n            ref lhs, ref rhs, ..\n        } => {\n            let left_result = interpret(data, lhs, ctx)?;\n            interpret(&left_result, rhs, ctx)",
        "        Ast::Subexpr {\n            lhs: ref first, rhs: ref second, offset: _\n        } => {\n            let lr = interpret(data, first, ctx)?;\n            interpret(&lr, second, ctx)"),
   R(I, "                let mut collected = vec![];\n                for element in left {\n                    let current = interpret(element, rhs, ctx)?;\n                    if !current.is_null() {\n                        collected.push(current);",
        "                let mut out = vec![];\n                for e in left {\n                    let cur = interpret(e, rhs, ctx)?;\n                    if !cur.is_null() {\n                        out.push(cur);"),
   R(I, "                    }\n                }\n                Ok(Rcvar::new(Variable::Array(collected)))\n            }\n        },\n        Ast::Flatten",
        "                    }\n                }\n                Ok(Rcvar::new(Variable::Array(out)))\n            }\n        },\n        Ast::Flatten"),
   R(I, "let mut fn_args: Vec<Rcvar> = vec![];\n            for arg in args {\n                fn_args.push(interpret(data, arg, ctx)?);", "let mut argv: Vec<Rcvar> = vec![];\n            for a in args {\n                argv.push(interpret(data, a, ctx)?);"),
   R(I, "Some(f) => f.evaluate(&fn_args, ctx),", "Some(func) => func.evaluate(&argv, ctx),"),
   R(I, "            let result = match ctx.runtime.get_function(name) {", "            let outcome = match ctx.runtime.get_function(name) {"),
   R(I, "            ctx.offset = previous_offset;\n            result\n", "            ctx.offset = previous_offset;\n            outcome\n"),
   R(I, "            let previous_offset = ctx.offset;", "            let saved = ctx.offset;"),
   R(I, "            ctx.offset = previous_offset;", "            ctx.offset = saved;"),
   R(I, "        Ast::Not { ref node, .. } => {\n            let result = interpret(data, node, ctx)?;\n            Ok(Rcvar::new(Variable::Bool(!result.is_truthy())))",
        "        Ast::Not { node: ref operand, .. } => {\n            let v = interpret(data, operand, ctx)?;\n            Ok(Rcvar::new(Variable::Bool(!v.is_truthy())))"),
   R(I, "            ref comparator,\n            ref lhs,\n            ref rhs,\n            ..\n        } => {\n            let left = interpret(data, lhs, ctx)?;\n            let right = interpret(data, rhs, ctx)?;\n            Ok(left\n                .compare(comparator, &*right)\n                .map_or(Rcvar::new(Variable::Null), |result| {\n                    Rcvar::new(Variable::Bool(result))\n                }))",
        "            comparator: ref cmp,\n            ref lhs,\n            ref rhs,\n            ..\n        } => {\n            let a = interpret(data, lhs, ctx)?;\n            let b = interpret(data, rhs, ctx)?;\n            Ok(a\n                .compare(cmp, &*b)\n                .map_or(Rcvar::new(Variable::Null), |yes| {\n                    Rcvar::new(Variable::Bool(yes))\n                }))"),
 ],
 "interpret: reflowed (one-line patterns, comments, attributes, split chains)": [
   R(I, "        Ast::Or {\n            ref lhs, ref rhs, ..\n        } => {", "        Ast::Or { ref lhs, ref rhs, .. } /* a || b */ => {"),
   R(I, "        Ast::Condition {\n            ref predicate,\n            ref then,\n            ..\n        } => {", "        Ast::Condition { ref predicate, ref then, .. } =>\n        {"),
   R(I, "                Variable::Object(ref v) => Ok(Rcvar::new(Variable::Array(\n                    v.values().cloned().collect::<Vec<Rcvar>>(),\n                ))),",
        "                Variable::Object(ref v) => {\n                    // the values in key order\n                    Ok(Rcvar::new(Variable::Array(v.values().cloned().collect::<Vec<Rcvar>>())))\n                }"),
   R(I, "            let reason =\n                        ErrorReason::Runtime(RuntimeError::UnknownFunction(name.to_owned()));\n                    Err(JmespathError::from_ctx(ctx, reason))".replace("            let reason", "                    let reason"),
        "                    let reason = ErrorReason::Runtime(\n                        RuntimeError::UnknownFunction(\n                            name.to_owned(),\n                        ),\n                    );\n                    Err(JmespathError::from_ctx(\n                        ctx, reason,\n                    ))"),
   R(I, "        Ast::Slice {\n            start,\n            stop,\n            step,\n            offset,\n        } => {", "        Ast::Slice { start, stop, step, offset } => {"),
   R(I, "pub fn interpret(data: &Rcvar, node: &Ast, ctx: &mut Context<'_>) -> SearchResult {", "#[allow(clippy::all)]\npub fn interpret(\n    data: &Rcvar,\n    node: &Ast,\n    ctx: &mut Context<'_>,\n) -> SearchResult {"),
 ],
 "interpret: `if let Some(..) = .. {} else {}` instead of `match {None, Some}` (Projection, Flatten loop, Slice)": [
   R(I, PROJ_OLD, """        } => {
            if let Some(left) = interpret(data, lhs, ctx)?.as_array() {
                let mut collected = vec![];
                for element in left {
                    let current = interpret(element, rhs, ctx)?;
                    if !current.is_null() {
                        collected.push(current);
                    }
                }
                Ok(Rcvar::new(Variable::Array(collected)))
            } else {
                Ok(Rcvar::new(Variable::Null))
            }
        }
"""),
   R(I, "                    match element.as_array() {\n                        Some(array) => collected.extend(array.iter().cloned()),\n                        _ => collected.push(element.clone()),\n                    }",
        "                    if let Some(array) = element.as_array() {\n                        collected.extend(array.iter().cloned());\n                    } else {\n                        collected.push(element.clone());\n                    }"),
   R(I, "                match data.slice(start, stop, step) {\n                    Some(array) => Ok(Rcvar::new(Variable::Array(array))),\n                    None => Ok(Rcvar::new(Variable::Null)),\n                }",
        "                if let Some(array) = data.slice(start, stop, step) {\n                    Ok(Rcvar::new(Variable::Array(array)))\n                } else {\n                    Ok(Rcvar::new(Variable::Null))\n                }"),
 ],
 "interpret: `let r = interpret(..)?; Ok(r)` spelled out (Subexpr, Or, Condition), `return` in And": [
   R(I, "            interpret(&left_result, rhs, ctx)\n", "            let r = interpret(&left_result, rhs, ctx)?;\n            Ok(r)\n"),
   R(I, "            if left.is_truthy() {\n                Ok(left)\n            } else {\n                interpret(data, rhs, ctx)\n            }", "            if left.is_truthy() {\n                Ok(left)\n            } else {\n                let right = interpret(data, rhs, ctx)?;\n                Ok(right)\n            }"),
   R(I, "            if cond_result.is_truthy() {\n                interpret(data, then, ctx)\n            } else {", "            if cond_result.is_truthy() {\n                let r = interpret(data, then, ctx)?;\n                Ok(r)\n            } else {"),
   R(I, "            if !left.is_truthy() {\n                Ok(left)\n            } else {\n                interpret(data, rhs, ctx)\n            }", "            if !left.is_truthy() {\n                return Ok(left);\n            }\n            interpret(data, rhs, ctx)"),
 ],
 "interpret: `if data.is_null()` branches swapped under a negation (MultiList, MultiHash); And/Or conditions negated": [
   R(I, MLIST_OLD, """            if !data.is_null() {
                let mut collected = vec![];
                for node in elements {
                    collected.push(interpret(data, node, ctx)?);
                }
                Ok(Rcvar::new(Variable::Array(collected)))
            } else {
                Ok(Rcvar::new(Variable::Null))
            }
"""),
   R(I, MHASH_OLD, """            if !data.is_null() {
                let mut collected = BTreeMap::new();
                for kvp in elements {
                    let value = interpret(data, &kvp.value, ctx)?;
                    collected.insert(kvp.key.clone(), value);
                }
                Ok(Rcvar::new(Variable::Object(collected)))
            } else {
                Ok(Rcvar::new(Variable::Null))
            }
"""),
   R(I, "            if !left.is_truthy() {\n                Ok(left)\n            } else {\n                interpret(data, rhs, ctx)\n            }", "            if left.is_truthy() {\n                interpret(data, rhs, ctx)\n            } else {\n                Ok(left)\n            }"),
   R(I, "                    if !current.is_null() {\n                        collected.push(current);\n                    }", "                    if current.is_null() {\n                    } else {\n                        collected.push(current);\n                    }"),
   R(I, "            if step == 0 {\n                ctx.offset = offset;\n                let reason = ErrorReason::Runtime(RuntimeError::InvalidSlice);\n                Err(JmespathError::from_ctx(ctx, reason))\n            } else {\n                match data.slice(start, stop, step) {\n                    Some(array) => Ok(Rcvar::new(Variable::Array(array))),\n                    None => Ok(Rcvar::new(Variable::Null)),\n                }\n            }",
        "            if step != 0 {\n                match data.slice(start, stop, step) {\n                    Some(array) => Ok(Rcvar::new(Variable::Array(array))),\n                    None => Ok(Rcvar::new(Variable::Null)),\n                }\n            } else {\n                ctx.offset = offset;\n                let reason = ErrorReason::Runtime(RuntimeError::InvalidSlice);\n                Err(JmespathError::from_ctx(ctx, reason))\n            }"),
 ],
 "interpret: Function arm restores ctx.offset inside each match arm": [
   R(I, FUNC_TAIL_OLD, """            match ctx.runtime.get_function(name) {
                Some(f) => {
                    let r = f.evaluate(&fn_args, ctx);
                    ctx.offset = previous_offset;
                    r
                }
                None => {
                    let reason =
                        ErrorReason::Runtime(RuntimeError::UnknownFunction(name.to_owned()));
                    let err = JmespathError::from_ctx(ctx, reason);
                    ctx.offset = previous_offset;
                    Err(err)
                }
            }
"""),
 ],
}

INTERP_SEMANTIC = {
 "Projection without the `!current.is_null()` filter": [
   R(I, "                    if !current.is_null() {\n                        collected.push(current);\n                    }", "                    collected.push(current);")],
 "Or returns `right` when left is truthy": [
   R(I, "            let left = interpret(data, lhs, ctx)?;\n            if left.is_truthy() {\n                Ok(left)\n            } else {\n                interpret(data, rhs, ctx)\n            }",
        "            let left = interpret(data, lhs, ctx)?;\n            if left.is_truthy() {\n                interpret(data, rhs, ctx)\n            } else {\n                Ok(left)\n            }")],
 "And without the `!`": [
   R(I, "            if !left.is_truthy() {\n                Ok(left)\n            } else {\n                interpret(data, rhs, ctx)\n            }", "            if left.is_truthy() {\n                Ok(left)\n            } else {\n                interpret(data, rhs, ctx)\n            }")],
 "Subexpr evaluates rhs against `data` instead of `left_result`": [
   R(I, "            interpret(&left_result, rhs, ctx)\n", "            interpret(data, rhs, ctx)\n")],
 "Flatten pushes `array` unflattened": [
   R(I, "                        Some(array) => collected.extend(array.iter().cloned()),", "                        Some(_array) => collected.push(element.clone()),")],
 "MultiList without the null check": [
   R(I, MLIST_OLD, """            let mut collected = vec![];
            for node in elements {
                collected.push(interpret(data, node, ctx)?);
            }
            Ok(Rcvar::new(Variable::Array(collected)))
""")],
 "Function does not restore `ctx.offset`": [
   R(I, "            ctx.offset = previous_offset;\n            result\n", "            result\n")],
 "Function evaluates its arguments in reverse": [
   R(I, "            for arg in args {\n                fn_args.push(interpret(data, arg, ctx)?);\n            }", "            for arg in args.iter().rev() {\n                fn_args.push(interpret(data, arg, ctx)?);\n            }\n            fn_args.reverse();")],
 "outside the table: arguments prepended with `Vec::insert(0, ..)`": [
   R(I, "            for arg in args {\n                fn_args.push(interpret(data, arg, ctx)?);\n            }", "            for arg in args {\n                fn_args.insert(0, interpret(data, arg, ctx)?);\n            }")],
 "Slice arm: `step == 0` check removed": [
   R(I, "            if step == 0 {\n                ctx.offset = offset;\n                let reason = ErrorReason::Runtime(RuntimeError::InvalidSlice);\n                Err(JmespathError::from_ctx(ctx, reason))\n            } else {\n                match data.slice(start, stop, step) {\n                    Some(array) => Ok(Rcvar::new(Variable::Array(array))),\n                    None => Ok(Rcvar::new(Variable::Null)),\n                }\n            }",
        "            match data.slice(start, stop, step) {\n                Some(array) => Ok(Rcvar::new(Variable::Array(array))),\n                None => Ok(Rcvar::new(Variable::Null)),\n            }")],
 "Condition returns `cond_result` instead of Null": [
   R(I, "                interpret(data, then, ctx)\n            } else {\n                Ok(Rcvar::new(Variable::Null))\n            }", "                interpret(data, then, ctx)\n            } else {\n                Ok(cond_result)\n            }")],
 "Comparison operands swapped": [
   R(I, "            Ok(left\n                .compare(comparator, &*right)", "            Ok(right\n                .compare(comparator, &*left)")],
 "ObjectValues on arrays too": [
   R(I, "                _ => Ok(Rcvar::new(Variable::Null)),\n            }\n        }\n        // Passes the results", "                Variable::Array(ref a) => Ok(Rcvar::new(Variable::Array(a.clone()))),\n                _ => Ok(Rcvar::new(Variable::Null)),\n            }\n        }\n        // Passes the results")],
 "Slice arm: error built before `ctx.offset = offset`": [
   R(I, "                ctx.offset = offset;\n                let reason = ErrorReason::Runtime(RuntimeError::InvalidSlice);\n                Err(JmespathError::from_ctx(ctx, reason))", "                let reason = ErrorReason::Runtime(RuntimeError::InvalidSlice);\n                let err = JmespathError::from_ctx(ctx, reason);\n                ctx.offset = offset;\n                Err(err)")],
 "Function: unknown-function error built after the offset is restored": [
   R(I, "                    Err(JmespathError::from_ctx(ctx, reason))\n                }\n            };", "                    ctx.offset = previous_offset;\n                    Err(JmespathError::from_ctx(ctx, reason))\n                }\n            };")],
 "Not without the `!`": [
   R(I, "Ok(Rcvar::new(Variable::Bool(!result.is_truthy())))", "Ok(Rcvar::new(Variable::Bool(result.is_truthy())))")],
 "MultiHash inserts under a constant key": [
   R(I, "collected.insert(kvp.key.clone(), value);", "collected.insert(\"k\".to_owned(), value);")],
 "outside the table: `data.get_field(name)` -> `data.get_index(0)`": [
   R(I, "Ok(data.get_field(name))", "Ok(data.get_index(0))")],
 "outside the table: Variable::slice no longer maps over as_array": [
   R("variable.rs", "        self.as_array().map(|a| slice(a, start, stop, step))", "        self.as_array().map(|a| slice(a, stop, start, step))")],
}
