#!/usr/bin/env python3
"""Run every registered check of one tier in sequence (what `vp check` does) and summarise."""
import json, os, subprocess, sys, time
V = os.path.dirname(os.path.dirname(os.path.abspath(__file__)))
tier = sys.argv[1] if len(sys.argv) > 1 else "quick"
only = sys.argv[2:]
m = json.load(open(os.path.join(V, "MANIFEST.json")))
bad = 0
for c in m["checks"]:
    pid = c["property_id"]
    if only and pid not in only:
        continue
    cmd = c[tier + "_cmd"] if tier + "_cmd" in c else c[tier]
    t = time.time()
    p = subprocess.run(cmd, shell=True, cwd=V, stdout=subprocess.PIPE, stderr=subprocess.STDOUT, text=True)
    lines = [l for l in p.stdout.splitlines() if l.startswith(("VIOLATION", "KNOWN-FINDING"))]
    print(f"{pid} rc={p.returncode} {time.time()-t:.1f}s " + " | ".join(l[:110] for l in lines), flush=True)
    if p.returncode != 0:
        bad += 1
        print(p.stdout[-1500:])
sys.exit(1 if bad else 0)
