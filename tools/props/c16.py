"""C16 — with the sync feature, compiled expressions are safely shareable across threads.
Theorems: lean/JmesVerif/Props/C16.lean."""
import os
import re
import common as C
import gen as G
import streams as S

ID = "C16"
MODULE = "JmesVerif.Props.C16"
THEOREMS = ["C16_step_schedule_independent", "C16_cell_value", "C16_schedule_independence"]
TRUSTED_BASE = [
    "Lean 4.33 kernel; axioms propext, Classical.choice, Quot.sound only",
    "Model/Threads.lean: interleaving model with atomic steps over shared immutable data and a once-cell; that steps ARE atomic and free of data "
    "races is delivered by Rust's Send/Sync, Arc and lazy_static, not by the model",
    "rustc: the harness built with `--features sync` contains `assert_send_sync::<Expression<'static> / Runtime / Variable / Rcvar / JmespathError>()`, "
    "so the Send + Sync obligations are re-checked by the compiler on every run",
    "the `threads` stream: real threads released together at a barrier, incl. the first use of the default runtime in a fresh process",
]
ASSUMPTIONS = TRUSTED_BASE
RULE = ("thread programs: 2, 8 or 16 threads, each a list of operations (search a shared compiled expression on a shared document; compile through "
        "the default runtime and search), over shared expressions incl. failing ones; every case runs in a fresh process so the first "
        "`compile` races on the lazy default runtime. Per-thread results are compared with a sequential re-execution in the same process and "
        "with the model. Non-trivial = distinct case with at least one compile-through-default-runtime operation on every thread.")
ERRTAIL = re.compile(r" line=\d+ col=\d+ expr=[0-9a-f]*")


def gen(ctx):
    rng = ctx.rng
    n = 60 if ctx.tier == "quick" else 7500
    eg = G.ExprGen(rng, funcs=True, maxdepth=2)
    cases = []
    for _ in range(n):
        exprs = [G.spell(rng, eg.expr()) for _ in range(3)] + ["sort_by(@, &a)", "a.", "[*].abs(@)", "length(@)"]
        docs = [G.rand_doc(rng, 3) for _ in range(3)]
        nt = rng.choice([2, 8, 16])
        progs = []
        for _ in range(rng.randrange(1, 4)):
            ops = []
            for _ in range(rng.randrange(1, 6)):
                ops.append("%s%d:%d" % (rng.choice("sc"), rng.randrange(len(exprs)), rng.randrange(len(docs))))
            if rng.random() < 0.7:
                ops[0] = "c" + ops[0][1:]          # race on first use
            progs.append(",".join(ops))
        cases.append("%d\t%s\t%s\t%s" % (nt, ",".join(C.hexs(e) for e in exprs), ";".join(docs), "|".join(progs)))
    # hot-function cases: all threads run the same builtin over the same shared data at the same time, many times (arrays of 20 .. 300 elements
    # with duplicate keys, so a thread that took a different code path under contention — another sort, a shared scratch buffer — shows)
    for _ in range(6 if ctx.tier == "quick" else 120):
        nel = rng.choice([24, 40, 65, 130, 300])
        rows = "[ " + " ".join("{ s6b u%d s6964 u%d }" % (rng.randrange(0, 4), i) for i in range(nel)) + " ]"
        nums = "[ " + " ".join("u%d" % rng.randrange(0, 5) for _ in range(nel)) + " ]"
        strs = "[ " + " ".join(G.enc_str(rng.choice(["a", "b", "é", ""])) for _ in range(nel)) + " ]"
        exprs = ["sort_by(@, &k)[*].id", "max_by(@, &k).id", "min_by(@, &k).id", "map(&id, @)", "sort(@)", "to_string(@)", "reverse(@)", "join('', @)",
                 "[*].k | sort(@)", "length(@)", "[?k == `1`].id", "merge(@[0], @[1])", "sort_by(@, &to_string(k))[*].id"]
        docs = [rows, nums, strs]
        nt = rng.choice([8, 16])
        progs = []
        for t in range(nt):
            e = rng.randrange(len(exprs)) if rng.random() < 0.3 else 0
            progs.append(",".join("%s%d:%d" % (rng.choice("ssc"), e if rng.random() < 0.8 else rng.randrange(len(exprs)), rng.randrange(3)) for _ in range(150)))
        cases.append("%d\t%s\t%s\t%s" % (nt, ",".join(C.hexs(e) for e in exprs), ";".join(docs), "|".join(progs)))
    # first-use cases: in a fresh process every thread's FIRST action is to compile (through the lazily created default runtime) and run an
    # expression that calls a builtin — a runtime visible to other threads before its builtins are registered answers "unknown function"
    for _ in range(150 if ctx.tier == "quick" else 4000):
        exprs = [rng.choice(["length(@)", "values(@)", "abs(a)", "to_string(@)", "sort_by(@, &a)", "type(@)", "keys(@)", "not_null(a, b)"]) for _ in range(2)]
        docs = ["{ s61 u1 }", "[ { s61 u2 } { s61 u1 } ]"]
        nt = 16
        progs = ["c%d:%d,c%d:%d" % (rng.randrange(2), rng.randrange(2), rng.randrange(2), rng.randrange(2)) for _ in range(4)]
        cases.append("%d\t%s\t%s\t%s" % (nt, ",".join(C.hexs(e) for e in exprs), ";".join(docs), "|".join(progs)))
    # large arrays (1024 .. 5000 elements) with several ill-typed elements in different places: whichever way an implementation splits the
    # work, the error of the FIRST failing element in document order is the result
    for _ in range(4 if ctx.tier == "quick" else 100):
        nel = rng.choice([1024, 1500, 2048, 4097, 5000])
        xs = ["u%d" % (i % 7) for i in range(nel)]
        for _k in range(rng.randrange(2, 5)):
            xs[rng.randrange(nel)] = rng.choice(["t", G.enc_str("s"), "n", "[ ]", "{ }"])
        docs = ["[ " + " ".join(xs) + " ]", "[ u1 u2 ]", "{ s61 [ " + " ".join(xs) + " ] }"]
        exprs = ["[*].abs(@)", "map(&abs(@), @)", "[?abs(@) > `0`]", "a[*].ceil(@)", "[*].abs(@) | length(@)", "sum(@)", "max(@)", "[].abs(@)", "sort_by(@, &abs(@))"]
        nt = rng.choice([2, 8])
        progs = [",".join("s%d:%d" % (rng.randrange(len(exprs)), rng.randrange(3)) for _ in range(6)) for _ in range(nt)]
        cases.append("%d\t%s\t%s\t%s" % (nt, ",".join(C.hexs(e) for e in exprs), ";".join(docs), "|".join(progs)))
    # custom-function cases: higher-order custom functions that evaluate an expression reference through the public API, nested in each other
    # and in themselves, on all threads at once (anything that serialises custom calls with a non-re-entrant lock never returns)
    for _ in range(8 if ctx.tier == "quick" else 200):
        exprs = ["ap(&length(@), @)", "ap(&ap(&length(@), @), @)", "ap(&ap2(&@, @), @)", "ap2(&ap(&@, @), @)", "cf(@, ap(&@[0], @))", "ap(&cf(@, @), @)",
                 "[*].ap(&type(@), @)", "ap(&sort_by(@, &ap2(&@, @)), @)", "map(&ap(&@, @), @)", "ap(&abs(@), @)", "ap2(&ap2(&ap2(&length(@), @), @), @)"]
        docs = ["[ u3 u1 u2 ]", "[ s62 s61 ]", "{ s61 u1 }"]
        nt = rng.choice([2, 8, 16])
        progs = [",".join("s%d:%d" % (rng.randrange(len(exprs)), rng.randrange(3)) for _ in range(rng.randrange(3, 30))) for _ in range(nt)]
        cases.append("%d\t%s\t%s\t%s" % (nt, ",".join(C.hexs(e) for e in exprs), ";".join(docs), "|".join(progs)))
    # hot custom-lookup cases: every thread resolves DIFFERENT custom function names of one shared runtime at the same time, hundreds of times
    # (a lookup memo that is not updated atomically hands one name the other's function)
    for _ in range(3 if ctx.tier == "quick" else 60):
        exprs = ["cf(@)", "ap(&@, @)", "ap2(&type(@), @)", "cf(@, @)", "[cf(@), ap(&@, @), ap2(&@, @)]", "ap(&cf(@), @)", "ap2(&cf(@, `1`), @)", "cf(ap(&@, @))",
                 "length(@)", "[*].cf(@)", "cf(ap2(&@, @), ap(&@, @))"]
        docs = ["[ u3 u1 u2 ]", "[ s62 s61 ]", "{ s61 u1 }"]
        nt = rng.choice([8, 16])
        progs = [",".join("s%d:%d" % ((t + j) % 8 if rng.random() < 0.8 else rng.randrange(len(exprs)), rng.randrange(3)) for j in range(400)) for t in range(nt)]
        cases.append("%d\t%s\t%s\t%s" % (nt, ",".join(C.hexs(e) for e in exprs), ";".join(docs), "|".join(progs)))
    # replacement cases (two phases): after the workers have searched the shared compiled expressions, each one is REPLACED IN PLACE by another
    # (same slot, same address) while the workers wait; the same workers then search the same slots again and must see the new expressions
    for _ in range(6 if ctx.tier == "quick" else 150):
        exprs = rng.sample(["a", "b", "length(@)", "keys(@)", "a || b", "[a, b]", "{x: a}", "`1`", "@", "type(a)", "sort_by(c, &@)", "c[0]", "c[?@ > `1`]", "!a", "a == b",
                            "to_string(@)", "values(@)", "c[::-1]", "not_null(z, a)", "nope(@)", "a."], 6)
        docs = ["{ s61 u1 s62 s78 s63 [ u3 u1 u2 ] }", "{ s61 n s62 t s63 [ ] }"]
        nt = rng.choice([2, 8])
        progs = [",".join("s%d:%d" % (rng.randrange(len(exprs)), rng.randrange(2)) for _ in range(rng.randrange(3, 12))) for _ in range(nt)]
        cases.append("%d\t%s\t%s\t%s\trot" % (nt, ",".join(C.hexs(e) for e in exprs), ";".join(docs), "|".join(progs)))
    # deep-evaluation cases: every thread is deep inside nested evaluations (100 .. 300 frames: nested calls, chains, parentheses, nested
    # expression references) at the same time, hundreds of times: anything counted, pooled or budgeted per RUNTIME (or per process) instead of
    # per evaluation — a recursion guard, a scratch stack — sees the sum over all threads and answers differently than a sequential run
    for _ in range(3 if ctx.tier == "quick" else 40):
        k = rng.choice([100, 150, 220, 300])
        exprs = ["not_null(" * k + "a" + ")" * k, "to_array(" * k + "@" + ")" * k + "[0]" * 3, "a" + ".a" * k, "(" * k + "a" + ")" * k, "!" * k + "a",
                 "map(&" * (k // 4) + "@" + ", @)" * (k // 4), "[" * k + "a" + "]" * k + "[0]" * 5, "a || " * k + "b", "length(" + "to_array(" * k + "a" + ")" * k + ")"]
        nested = G.enc_str("leaf")
        for _k in range(k + 2):
            nested = "{ s61 " + nested + " }"
        docs = [nested, "{ s61 u5 }", "[ [ u1 ] [ u2 ] ]"]
        nt = rng.choice([8, 16])
        progs = [",".join("%s%d:%d" % (rng.choice("ssc"), rng.randrange(len(exprs)), rng.randrange(3)) for _ in range(120)) for _ in range(nt)]
        cases.append("%d\t%s\t%s\t%s" % (nt, ",".join(C.hexs(e) for e in exprs), ";".join(docs), "|".join(progs)))
    # bulk cases: every thread compiles (through the shared default runtime) and searches thousands of DISTINCT expressions, so that anything
    # shared and size-dependent behind compile (tables that fill up, get evicted or rehashed) is exercised while other threads are inside it
    for _ in range(3 if ctx.tier == "quick" else 60):
        nd = rng.choice([1300, 2200, 3000])
        exprs = [rng.choice(["k%d", "a[%d]", "a.b%d", "`%d`", "[?a == `%d`]", "length(@) > `%d`", "k%d || a"]) % i for i in range(nd)]
        docs = [G.rand_doc(rng, 2) for _ in range(2)] + ["{ " + G.enc_str("a") + " [ u1 u2 u3 ] " + G.enc_str("k7") + " t }"]
        nt = rng.choice([8, 16])
        progs = []
        for t in range(nt):
            order = list(range(nd))
            rng.shuffle(order)
            progs.append(",".join("c%d:%d" % (e, rng.randrange(len(docs))) for e in order[:rng.choice([600, 1100])]))
        cases.append("%d\t%s\t%s\t%s" % (nt, ",".join(C.hexs(e) for e in exprs), ";".join(docs), "|".join(progs)))
    return cases


def canon_line(s):
    return ERRTAIL.sub("", s).replace(" internal", "")


def run(ctx):
    ok, out, binpath = C.cargo_build(features=["sync"], target_dir=os.path.join(C.HARNESS, "target-sync"))
    if not ok:
        # the Send + Sync obligations are part of the build: a compile error here is a broken obligation
        ctx.violation("threads", "cargo build --features sync", out[-800:], "the harness with assert_send_sync::<…>() compiles",
                      "with the sync feature, Expression / Runtime / Variable / Rcvar must be Send + Sync")
        return
    cases = [ctx.replay["case"]] if getattr(ctx, "replay", None) else gen(ctx)
    # one process per case: the first compile in each process races on the default runtime
    impl = []
    import concurrent.futures
    with concurrent.futures.ThreadPoolExecutor(max_workers=6) as ex:
        impl = list(ex.map(lambda c: C.run_exec([binpath, "threads"], [c], idle_timeout=60)[0], cases))
    model = C.run_parallel([ctx.driver, "threads"], cases, idle_timeout=60)
    nthreads = {}
    for c, i, m in zip(cases, impl, model):
        ctx.evaluations += 1
        nt = c.split("\t")[0]
        nthreads[nt] = nthreads.get(nt, 0) + 1
        if all(p.split(",")[0].startswith("c") for p in c.split("\t")[3].split("|")):
            ctx.nontrivial.add(c)
        i = i or "NONE"
        parts = i.split("\t")
        f = {p.split("=", 1)[0]: p.split("=", 1)[1] for p in parts if "=" in p}
        if "threads" not in f or parts[-1] not in ("same", "DIFF"):
            ctx.violation("threads", c[:600], i[:300], "per-thread results", "a thread panicked, the process died or hung")
            continue
        if parts[-1] != "same" or "THREAD-PANIC" in i:
            ctx.violation("threads", c[:600], "threads: " + f["threads"][:300], "sequential: " + f.get("sequential", "")[:300],
                          "concurrent results differ from a sequential execution")
            continue
        if C.hexs("ap(&") in c.split("\t")[1] or c.endswith("\trot"):
            continue          # harness-only custom functions / the two-phase replacement protocol: judged against the sequential run alone
        mm = (m or "NONE")
        if "FAULT" in mm:
            continue          # the model ran out of its evaluation fuel: no opinion (the sequential run has already been compared)
        if not mm.startswith("sequential=") or canon_line(mm[len("sequential="):]) != canon_line(f["threads"]).replace("E parse parse", "E parse parse"):
            a, b = canon_line(f["threads"]), canon_line(mm[len("sequential="):]) if mm.startswith("sequential=") else mm
            # compile errors are printed as `C E parse …` by both; normalise model's wording
            b = re.sub(r"C E parse (lex=\S+|syn) off=\d+", "C E parse", b)
            a = re.sub(r"C E parse parse off=\d+", "C E parse", a)
            if a != b:
                ctx.violation("threads", c[:600], a[:300], b[:300], "per-thread results differ from the model's schedule-independent results")
        if len(ctx.samples) < 4:
            ctx.samples.append(dict(case=c[:200], result=i[:200]))
    ctx.coverage["threads_per_case"] = nthreads
    ctx.coverage["send_sync_obligations"] = "compiled (rustc accepted assert_send_sync with --features sync)"
    ctx.coverage["streams"] = ["threads (one fresh process per case)"]
