"""C11 — evaluation is compositional.  Theorems: lean/JmesVerif/Props/C11.lean.
The oracles here use the implementation only: search(compound) vs the recombination of search(parts)."""
import re
import common as C
import gen as G
import streams as S
import enc as E

ID = "C11"
MODULE = "JmesVerif.Props.C11"
THEOREMS = ["C11_offset_irrelevant", "C11_deterministic", "C11_pipe_parse", "C11_pipe", "C11_projection", "C11_condition", "C11_flatten",
            "C11_multilist", "C11_multihash", "C11_not", "C11_and", "C11_or", "C11_comparison", "C11_objectValues", "C11_translated_interpreter"]
TRUSTED_BASE = [
    "Lean 4.33 kernel; axioms propext, Classical.choice, Quot.sound only",
    "hand-written interpreter/parser models tied to the code by the `eval` stream; the compositional laws themselves are additionally "
    "checked on the implementation alone (search of the compound vs recombination of searches of the parts, computed by the checker)",
]
ASSUMPTIONS = TRUSTED_BASE
RULE = ("tuples of sub-expressions (structured generator, with and without function calls) x documents; compound forms: (L)|(R); "
        "(L)[*].R, (L)[a:b:c].R, (L)[].R, (L)[?P].R with R a dot-headed expression; [A,B,C]; {k1:A,k2:B}; !(A); (A)&&(B); (A)||(B). "
        "Parts are evaluated separately (second and third passes feed intermediate results back as documents). Non-trivial = distinct "
        "compound whose parts all evaluate without error and whose result is not null.")


def top_level_flatten(toks):
    """a `[]` outside every bracket: it binds below a projection and would END the right-hand side (the text after it is then applied to
    the whole projection result, not per element) — such a tail is not a right-hand side, so the per-element law does not speak about it"""
    depth = 0
    for t in toks:
        if t == "[]" and depth == 0:
            return True
        if t in ("[", "[?", "(", "{"):
            depth += 1
        elif t in ("]", ")", "}"):
            depth -= 1
    return False


def dot_headed(rng, eg):
    while True:
        toks = [G.tok_ident(rng)]
        n = 0
        while rng.random() < 0.5 and n < 3:
            toks += eg.postfix(2)
            n += 1
        if not top_level_flatten(toks):
            return toks


def ident_or_quoted(k):
    import json, re as _re
    return k if _re.fullmatch(r"[A-Za-z_][A-Za-z0-9_]*", k) else json.dumps(k)


def array_paths(v, prefix="@", depth=0):
    """expressions (as text) that select arrays inside the document"""
    out = []
    if isinstance(v, list):
        out.append(prefix)
        for i, x in enumerate(v[:3]):
            out += array_paths(x, f"{prefix}[{i}]", depth + 1)
    elif isinstance(v, dict):
        for k, x in v.items():
            out += array_paths(x, f"{prefix}.{ident_or_quoted(k)}" if prefix != "@" else ident_or_quoted(k), depth + 1)
    return out


def elem_keys(v):
    ks = []
    if isinstance(v, list):
        for x in v:
            if isinstance(x, dict):
                ks += list(x.keys())
            elif isinstance(x, list):
                ks += elem_keys(x)
    return ks


def eval_path(v, path):
    return None


def gen(ctx):
    rng = ctx.rng
    eg = G.ExprGen(rng, funcs=True, maxdepth=2)
    egc = G.ExprGen(rng, funcs=False, maxdepth=2)
    n = 2500 if ctx.tier == "quick" else 300000
    out = []
    for _ in range(n):
        g = eg if rng.random() < 0.4 else egc
        sp = lambda toks: G.spell(rng, toks)
        form = rng.choice(["pipe", "wild", "slice", "flatten", "filter", "mlist", "mhash", "not", "and", "or"])
        doc = G.rand_doc(rng, rng.choice([3, 3, 4]))
        A, B, Cc = sp(g.expr(1)), sp(g.expr(1)), sp(g.expr(1))
        R = sp(dot_headed(rng, g))
        if form in ("wild", "slice", "flatten", "filter", "pipe") and rng.random() < 0.6:
            # data-aware: the left part selects an array that exists, the right part a key its elements have
            pd = E.parse(doc)
            aps = array_paths(pd)
            if aps:
                A = rng.choice(aps)
                ks = [k for k in (elem_keys(pd) or G.IDENTS) if k]
                R = ident_or_quoted(rng.choice(ks)) if ks else R
                if rng.random() < 0.3:
                    # (a filter's own right-hand side is parsed at the filter's power, so a further `[?..]` ENDS it: `x[?p].y[?q]` is `(x[?p].y)[?q]`)
                    R = R + rng.choice([".a", "[0]", ".*", "[*]", "[1:]", "[::-1]", "[:1].a"] +
                                       ([] if form == "filter" else ["[?@]", "[?a]", "[?@ > `1`]", "[?a].b", "[?@ != `null`]"]))
                elif rng.random() < 0.25:
                    # a right-hand side that maps null to something else: the per-element law must apply it to null elements too
                    R = rng.choice(["type(@)", "not_null(@, `1`)", "to_string(@)", "to_array(@)", "length(to_array(@))", "to_array(@)[0]",
                                    "type(%s)" % R, "not_null(%s, 'd')" % R])
                if form == "filter":
                    B = rng.choice([ident_or_quoted(rng.choice(ks)) if ks else "a", "@", "`true`", ident_or_quoted(rng.choice(ks)) + " == `1`" if ks else "a"])
                if form == "pipe":
                    B = rng.choice(["[0]", "length(@)", "[*]." + R, "[-1]", "sort_by(@, &" + R + ")", R])
        if form == "pipe":
            out.append((form, f"({A}) | ({B})", doc, [A, B]))
        elif form == "wild":
            out.append((form, f"({A})[*].{R}", doc, [A, R]))
        elif form == "slice":
            sl = "".join(g.slice_toks())
            out.append((form, f"({A}){sl}.{R}", doc, [A, R, sl]))
        elif form == "flatten":
            out.append((form, f"({A})[].{R}", doc, [A, R]))
        elif form == "filter":
            out.append((form, f"({A})[?{B}].{R}", doc, [A, R, B]))
        elif form == "mlist":
            out.append((form, f"[{A}, {B}, {Cc}]", doc, [A, B, Cc]))
        elif form == "mhash":
            out.append((form, f"{{k1: {A}, a: {B}, k1x: {Cc}}}", doc, [A, B, Cc]))
        elif form == "not":
            out.append((form, f"!({A})", doc, [A]))
            if rng.random() < 0.3:
                # a repeated key (also spelled differently): the members are evaluated in order and a later one replaces an earlier one —
                # the specification is silent, so this form is compared with the model of the code only
                out.append(("mhashdup", rng.choice(["{k1: %s, a: %s, k1: %s}", "{k: %s, \"k\": %s, k: %s}", "{a: %s, a: %s, b: %s}"]) % (A, B, Cc), doc, []))
        elif form == "and":
            out.append((form, f"({A}) && ({B})", doc, [A, B]))
        else:
            out.append((form, f"({A}) || ({B})", doc, [A, B]))
    # the truth table, exhaustively over one value of every kind and emptiness (including strings that are only white space, -0.0, [null], {"a": null})
    tv = ["n", "t", "f", "u0", G.f64_bits(-0.0), "u7", G.enc_str(""), G.enc_str(" "), G.enc_str("\t\n"), G.enc_str("\u00a0"), G.enc_str("a"), G.enc_str("false"),
          "[ ]", "[ n ]", "[ f ]", "{ }", "{ s61 n }"]
    for x in tv:
        d1 = "{ s61 " + x + " }"
        out.append(("not", "!(a)", d1, ["a"]))
        out.append(("filter", "(@)[?a].a", "[ " + d1 + " { s61 u1 } ]", ["@", "a", "a"]))
        for y in tv:
            d2 = "{ s61 " + x + " s62 " + y + " }"
            out.append(("and", "(a) && (b)", d2, ["a", "b"]))
            out.append(("or", "(a) || (b)", d2, ["a", "b"]))
    # what follows a multi-select applies to its RESULT: a multi-select on a null node is null (whatever its members would give there), every
    # member is evaluated (an error in a member that is not picked afterwards still surfaces), and picking comes second
    ms_docs = ["{ s61 u1 s62 s78 }", "n", "{ s6d697373696e67 n s61 u2 s62 [ u1 ] }", "[ { s61 u1 } n { s61 n } ]", "{ s61 { s61 u3 s6b u4 } }"]
    ms_L = ["missing.[`\"x\"`, a]", "missing.{k: `1`, j: a}", "[`\"x\"`, a]", "{k: `1`, j: a}", "a.[`\"x\"`, a, k]", "a.{k: k, j: `[1]`, a: a}",
            "[a, abs(b)]", "{k: a, j: abs(b)}", "[!@, a]", "{k: !@, j: `2`}", "missing.[!@, `1`]", "[0].[a, `7`]", "[1].[a, `7`]", "[2].{k: a, j: `7`}",
            "[*].[a, `7`]", "[*].{k: a, j: `7`}", "*.[a]", "@.[a, b]", "b.[@, `1`]"]
    ms_R = ["[0]", "[-1]", "[1]", "k", "j", "a", "[0][0]", "k.a", "[*]", "*", "length(@)", "type(@)", "[?@]", "[1:]", "keys(@)"]
    for d in ms_docs:
        for L in ms_L:
            for R in (ms_R if ctx.tier != "quick" else rng.sample(ms_R, 6)):
                out.append(("pipe", "(%s) | (%s)" % (L, R), d, [L, R]))
                out.append(("pipe", "%s | %s" % (L, R), d, [L, R]))
                if not L.startswith(("[*]", "*")):        # after an open projection `[0]` / `.k` would apply per element: not a composition
                    out.append(("pipe", "%s%s%s" % (L, "" if R.startswith("[") else ".", R), d, [L, R]))
    # every projection kind x every kind of continuation of its right-hand side (field then filter / index / slice / wildcard / flatten-free chains)
    pd_doc = G.json_to_enc({"a": [{"t": [1, 2, 3], "u": {"t": [4]}}, {"t": [0, 5]}, {"t": []}, {"u": 1}, None, {"t": [[2], [3, 4]]}]})
    pd_doc2 = G.json_to_enc({"a": {"p": [0, 2, 3], "q": [{"t": 1, "u": 2}, {"u": 3}, 5], "r": [], "s": "str", "v": [[1, 2], [0], []]},
                             "b": [[1, 2, 3], [{"t": 1}, {"t": 0, "u": 1}], None, [], "x", [0, 5], [[4], [5, 6]], {"t": [7]}]})
    for form, proj, extra in [("wild", "[*]", None), ("slice", "[0:2]", "[0:2]"), ("slice", "[::-1]", "[::-1]"), ("slice", "[1:]", "[1:]"), ("slice", "[:-1:2]", "[:-1:2]"),
                              ("slice", "[:4]", "[:4]"), ("slice", "[0:5]", "[0:5]"), ("slice", "[:3]", "[:3]"), ("slice", "[:5:1]", "[:5:1]"), ("slice", "[-4:]", "[-4:]"),
                              ("slice", "[:]", "[:]"), ("slice", "[::]", "[::]"), ("slice", "[::1]", "[::1]"), ("slice", "[0:]", "[0:]"),
                              ("flatten", "[]", None), ("filter", "[?t]", "t"), ("filter", "[?@]", "@")]:
        for R in ["t[?@ > `1`]", "t[?@]", "t[0]", "t[*]", "t[1:]", "t[-1]", "u.t[?@ > `1`]", "t[?@ > `1`][0]", "t[*][0]", "t[?@ > `1`] || t", "t[0] == `1`", "t && u",
                  "{k: t}.k[?@ > `2`]", "t[?@ > `1`].length(@)", "t[::2][?@ > `0`]"]:
            if form == "filter" and ("[?" in R or "||" in R or "&&" in R or "==" in R):
                continue            # a filter's right-hand side ends at a further filter / at operators (see above)
            if ("||" in R or "&&" in R or "==" in R):
                continue            # an operator ends every projection's right-hand side: not of the form proj.R
            out.append((form, "(a)%s.%s" % (proj, R), pd_doc, ["a", R] + ([extra] if extra else [])))
        # bracket-headed continuations stand directly after the projection (no dot): a further filter, index, slice or wildcard applies to each element
        for R in ["[?@ > `1`]", "[?t]", "[0]", "[-1]", "[1:]", "[*]", "[?@]", "[?u][?t]", "[?t][0]", "[*][0]", "[?t].u"]:
            out.append((form, "(a.*)%s%s" % (proj, R), pd_doc2, ["a.*", R] + ([extra] if extra else [])))
            out.append((form, "(b)%s%s" % (proj, R), pd_doc2, ["b", R] + ([extra] if extra else [])))
    # the truth table again with one operand written as a LITERAL (a parser that simplifies boolean expressions with constant operands must keep
    # `x && falsy-literal` = x-or-the-literal exactly as evaluation would: the left operand decides first)
    lits = ["`false`", "`null`", "''", "`[]`", "`{}`", "`0`", "`true`", "'a'", "`[null]`", "`\"\"`", "`{\"a\": null}`"]
    for x in tv:
        d1 = "{ s61 " + x + " }"
        for lt in lits:
            out.append(("and", "(a) && (%s)" % lt, d1, ["a", lt]))
            out.append(("and", "(%s) && (a)" % lt, d1, [lt, "a"]))
            out.append(("or", "(a) || (%s)" % lt, d1, ["a", lt]))
            out.append(("or", "(%s) || (a)" % lt, d1, [lt, "a"]))
            out.append(("and", "a && %s" % lt, d1, ["a", lt]))
            out.append(("or", "%s || a" % lt, d1, [lt, "a"]))
        out.append(("not", "!(%s)" % lits[tv.index(x) % len(lits)], d1, [lits[tv.index(x) % len(lits)]]))
    for lt in lits:
        for f in ["abs(s)", "nope(@)", "length(`1`)"]:
            out.append(("and", "(%s) && (%s)" % (f, lt), "{ s73 s78 }", [f, lt]))
            out.append(("or", "(%s) || (%s)" % (f, lt), "{ s73 s78 }", [f, lt]))
            out.append(("and", "(%s) && (%s)" % (lt, f), "{ s73 s78 }", [lt, f]))
            out.append(("or", "(%s) || (%s)" % (lt, f), "{ s73 s78 }", [lt, f]))
    # a parenthesised projection is CLOSED: what follows applies to its result as a whole (composition), not per element
    for _ in range(150 if ctx.tier == "quick" else 5000):
        A = rng.choice(["a[*]", "a[]", "a[?b]", "b.*", "a[1:]", "a[*].a", "a[?@].b", "*", "a[*].a[]"])
        R = rng.choice(["a", "b", "c", "length(@)", "[0]", "a[0]", "keys(@)", "type(@)", "*", "[*]"])
        sep = "" if R.startswith("[") else "."
        out.append(("pipe", "(%s)%s%s" % (A, sep, R), G.json_to_enc(G.table_doc(rng, 2)), [A, R]))
    # deep compositions (65 .. 300 levels; stack exhaustion — known finding F12 — starts beyond 1000): parts that work alone must compose
    for k in ([40, 66, 150] if ctx.tier == "quick" else [33, 40, 63, 64, 65, 66, 100, 129, 150, 257, 300, 600]):
        leaf = G.enc_str("leaf")
        nested = leaf
        for _ in range(2 * k + 2):
            nested = "{ s61 " + nested + " }"
        path = lambda n: "a" + ".a" * (n - 1)
        out.append(("pipe", path(k) + "." + path(k), nested, [path(k), path(k)]))
        out.append(("pipe", "(" + path(k) + ") | (" + path(k) + ")", nested, [path(k), path(k)]))
        out.append(("pipe", path(k) + " | " * 0 + "." + path(k + 2), nested, [path(k), path(k + 2)]))
        out.append(("not", "!(" + "!" * k + "a)", nested, ["!" * k + "a"]))
        out.append(("mlist", "[" + "[" * k + "a" + "]" * k + ", a, `1`]", "{ s61 u5 }", ["[" * k + "a" + "]" * k, "a", "`1`"]))
        out.append(("or", "(" + "(" * k + "b" + ")" * k + ") || (" + "to_array(" * k + "a" + ")" * k + ")", "{ s61 u5 }",
                    ["(" * k + "b" + ")" * k, "to_array(" * k + "a" + ")" * k]))
        out.append(("and", "(" + "a && " * k + "a) && (" + "a || " * k + "b)", "{ s61 u5 }", ["a && " * k + "a", "a || " * k + "b"]))
        arr = "u7"
        for _ in range(k + 1):
            arr = "[ " + arr + " ]"
        out.append(("pipe", "(" + "[0]" * k + ") | ([0])", arr, ["[0]" * k, "[0]"]))
        out.append(("wild", "(@)[*]." + "a" + ".a" * k, "[ " + nested + " " + nested + " ]", ["@", "a" + ".a" * k]))
    return out


OKV = re.compile(r"^ok (.*)$")


def val(o):
    """the value of an Ok result; an expression reference inside a value carries the offsets of the text it was compiled from, which
    differ between the compound and the separately compiled part — positions are not part of the value (C12 owns them)"""
    m = OKV.match(o or "")
    return re.sub(r" @\d+", "", m.group(1)) if m else None


def impl_eval(ctx, pairs):
    return C.run_parallel([ctx.harness, "eval"], [C.hexs(e) + "\t" + d for e, d in pairs])


def run(ctx):
    cases = gen(ctx)
    if getattr(ctx, "replay", None):
        cases = [tuple(ctx.replay["case"])]
    # pass 1: compound and every part on the document
    p1 = []
    for form, comp, doc, parts in cases:
        p1.append((comp, doc))
        if form in ("pipe",):
            p1.append((parts[0], doc))
        elif form in ("wild", "slice", "flatten", "filter"):
            p1.append((parts[0], doc))
        else:
            for p in parts:
                p1.append((p, doc))
    r1 = impl_eval(ctx, p1)
    # model correspondence on the compound
    comp_lines = [C.hexs(c[1]) + "\t" + c[2] for c in cases]
    model = C.run_parallel([ctx.driver, "eval"], comp_lines, idle_timeout=60)
    k = 0
    second = []       # (case index, expr, doc) to evaluate in pass 2
    info = []
    for ci, (form, comp, doc, parts) in enumerate(cases):
        rc = r1[k]
        k += 1
        if form in ("pipe", "wild", "slice", "flatten", "filter"):
            rl = r1[k]
            k += 1
            info.append((rc, [rl]))
        else:
            rs = r1[k:k + len(parts)]
            k += len(parts)
            info.append((rc, rs))
    forms = {}
    pend = []
    for ci, ((form, comp, doc, parts), (rc, rs)) in enumerate(zip(cases, info)):
        ctx.evaluations += 1
        vc = val(rc)
        cm = S.canon_eval(model[ci])
        if S.canon_eval(rc) != cm and not (cm.startswith("FAULT") or cm == "NONE"):
            ctx.violation("eval", [form, comp, doc, parts], S.canon_eval(rc)[:300], cm[:300], "compound: implementation differs from the model of the code")
            continue
        pv = [val(r) for r in rs]
        if any(p is None for p in pv):
            continue          # a part fails: the laws are about results of parts
        parsed = [E.parse(p) for p in pv]
        if any(E.has_expref(p) for p in parsed):
            continue
        f = forms.setdefault(form, dict(n=0, nontrivial=0))
        f["n"] += 1
        if form == "pipe":
            pend.append((ci, [(parts[1], pv[0])], "pipe"))
        elif form in ("wild", "slice", "flatten", "filter"):
            L = parsed[0]
            if form == "slice":
                # the elements the slice selects, in order, by Python's own slicing (C07's rule) — not by asking for `@[a:b:c]`, which is
                # itself a projection and would already have dropped the null elements the right-hand side must still see
                mm = re.fullmatch(r"\[\s*(-?\d+)?\s*:\s*(-?\d+)?\s*(?::\s*(-?\d+)?\s*)?\]", parts[2].strip())
                if not mm:
                    continue
                a, b, c = (int(x) if x is not None else None for x in mm.groups())
                if c == 0:
                    continue       # step 0: the compound fails (checked by correspondence)
                if not isinstance(L, list):
                    expect(ctx, cases[ci], vc, "n", f)
                else:
                    pend.append((ci, [(parts[1], E.dump(x)) for x in L[slice(a, b, c)]], "map"))
            elif not isinstance(L, list):
                expect(ctx, cases[ci], vc, "n", f)
            else:
                els = L
                if form == "flatten":
                    els = []
                    for x in L:
                        els += x if isinstance(x, list) else [x]
                if form == "filter":
                    pend.append((ci, [(parts[2], E.dump(x)) for x in els] + [(parts[1], E.dump(x)) for x in els], "filter"))
                else:
                    pend.append((ci, [(parts[1], E.dump(x)) for x in els], "map"))
        elif form == "mlist":
            expect(ctx, cases[ci], vc, "n" if E.parse(doc) is None else E.dump(parsed), f)
        elif form == "mhash":
            if E.parse(doc) is None:
                expect(ctx, cases[ci], vc, "n", f)
            else:
                expect(ctx, cases[ci], vc, E.dump({"k1": parsed[0], "a": parsed[1], "k1x": parsed[2]}), f)
        elif form == "not":
            expect(ctx, cases[ci], vc, "f" if E.truthy(parsed[0]) else "t", f)
        elif form == "and":
            expect(ctx, cases[ci], vc, pv[1] if E.truthy(parsed[0]) else pv[0], f)
        elif form == "or":
            expect(ctx, cases[ci], vc, pv[0] if E.truthy(parsed[0]) else pv[1], f)
    # pass 2
    flat = [(e, d) for _, prs, _ in pend for e, d in prs]
    r2 = impl_eval(ctx, flat)
    k = 0
    third = []
    for ci, prs, kind in pend:
        rs = r2[k:k + len(prs)]
        k += len(prs)
        form, comp, doc, parts = cases[ci]
        vc = val(info[ci][0])
        f = forms[form]
        vs = [val(r) for r in rs]
        if kind == "pipe":
            if vs[0] is None:
                # R fails on L's result: the compound must fail as well
                if vc is not None:
                    ctx.violation("eval", [form, comp, doc, parts], f"ok {vc}"[:300], S.canon_eval(rs[0])[:200], "compound succeeded although its right part fails on the left result")
                continue
            expect(ctx, cases[ci], vc, vs[0], f)
        elif kind == "map":
            if any(v is None for v in vs):
                if vc is not None:
                    ctx.violation("eval", [form, comp, doc, parts], f"ok {vc}"[:300], "an error (the right-hand side fails on an element)", "projection hid an element error")
                continue
            keep = [v for v in vs if v != "n"]
            expect(ctx, cases[ci], vc, "[ " + " ".join(keep) + " ]" if keep else "[ ]", f)
        elif kind == "filter":
            n = len(prs) // 2
            preds, maps = vs[:n], vs[n:]
            if any(p is None for p in preds):
                continue
            keep, failed = [], False
            for p, m in zip(preds, maps):
                if E.truthy(E.parse(p)):
                    if m is None:
                        failed = True
                        break
                    if m != "n":
                        keep.append(m)
            if failed:
                continue
            expect(ctx, cases[ci], vc, "[ " + " ".join(keep) + " ]" if keep else "[ ]", f)
        elif kind == "slice-elems":
            if vs[0] is None:
                continue       # step 0: the compound fails too (checked by correspondence)
            sel = E.parse(vs[0])
            if not isinstance(sel, list):
                expect(ctx, cases[ci], vc, "n", f)
            else:
                third.append((ci, [(parts[1], E.dump(x)) for x in sel]))
    flat3 = [(e, d) for _, prs in third for e, d in prs]
    r3 = impl_eval(ctx, flat3)
    k = 0
    for ci, prs in third:
        vs = [val(r) for r in r3[k:k + len(prs)]]
        k += len(prs)
        if any(v is None for v in vs):
            continue
        keep = [v for v in vs if v != "n"]
        expect(ctx, cases[ci], val(info[ci][0]), "[ " + " ".join(keep) + " ]" if keep else "[ ]", forms[cases[ci][0]])
    ctx.coverage["forms"] = forms
    ctx.coverage["streams"] = ["eval (implementation: compound, parts, parts on intermediate results)", "eval (model, compound)"]


def expect(ctx, case, got, want, f):
    if got is not None and got != "n":
        f["nontrivial"] += 1
        ctx.nontrivial.add(case[1] + "\t" + case[2])
    if got != want:
        ctx.violation("eval", list(case), ("ok " + got if got is not None else "an error")[:300], ("ok " + want)[:300],
                      f"{case[0]}: the compound's result is not the recombination of its parts' results")
    elif len(ctx.samples) < 8 and got not in (None, "n", "[ ]") and len(case[1]) < 80 and ctx.evaluations % 97 == 1:
        ctx.samples.append(dict(form=case[0], compound=case[1], document=case[2][:100], result=got[:100]))
