"""C07 — slices and negative indexes.  Theorems: lean/JmesVerif/Props/C07.lean."""
import os
import common as C
import gen as G
import streams as S

ID = "C07"
MODULE = "JmesVerif.Props.C07"
THEOREMS = ["C07_slice_eq_python", "C07_mem_pyRange", "C07_positions_in_bounds",
            "C07_pyRange_strict", "C07_index_eq_python", "C07_translated_slice_eq_python", "C07_translated_index_eq_python"]
TRUSTED_BASE = [
    "Lean 4.33 kernel; axioms propext, Classical.choice, Quot.sound only",
    "hand-written model lean/JmesVerif/Model/Slice.lean of variable.rs slice/adjust_slice_endpoint/get_index/get_negative_index, "
    "tied to the code by the `slice` correspondence stream (this run)",
    "Spec/PySlice.lean is Python's slice.indices+range written independently of the code",
    "array.len() fits i32 (hypothesis xs.length ≤ i32::MAX; a 2^31-element array is not constructible in the harness)",
]
ASSUMPTIONS = TRUSTED_BASE
RULE = ("cases = (array length, optional start, optional stop, step) and (length, index); corpus first, then boundary grid "
        "(0, ±1, ±len, ±(len±1), ±(2^31-1), i32::MIN for the direct API), then PRNG-drawn triples; thorough adds the exhaustive "
        "grid len<=6 x bounds{-8..8,±(2^31-1),none} x steps. Non-trivial = distinct case whose selected index list is non-empty "
        "or whose bounds are out of range / negative / omitted")

I32MAX = 2147483647


def fmt(o):
    return "-" if o is None else str(o)


def gen(ctx):
    rng = ctx.rng
    cases = []
    corpus = os.path.join(C.CORPUS, "C07")
    if os.path.isdir(corpus):
        for f in sorted(os.listdir(corpus)):
            for l in open(os.path.join(corpus, f)):
                l = l.rstrip("\n")
                if l and not l.startswith("#"):
                    cases.append(l)
    lens = [0, 1, 2, 3, 5, 8, 64, 65, 100, 257]
    for n in lens:
        pool = [None, 0, 1, -1, 2, -2, n, -n, n + 1, -n - 1, n - 1, I32MAX, -I32MAX, -I32MAX - 1]
        steps = [1, -1, 2, -2, 3, n + 1, -n - 1, I32MAX, -I32MAX, -I32MAX - 1]
        for a in pool:
            for b in pool:
                for s in steps:
                    if ctx.tier == "quick" and rng.random() > 0.35:
                        continue
                    cases.append(f"slice\t{n}\t{fmt(a)}\t{fmt(b)}\t{s}")
        for i in [0, 1, -1, n, -n, n - 1, -n - 1, n + 1, I32MAX, -I32MAX]:
            cases.append(f"index\t{n}\t{i}")
    nrand = 3000 if ctx.tier == "quick" else 300000
    for _ in range(nrand):
        n = rng.choice([rng.randrange(0, 12), rng.randrange(0, 60), rng.randrange(60, 300), rng.choice([63, 64, 65, 127, 128, 129, 255, 256, 257, 1000, 1025])])
        def bound():
            r = rng.random()
            if r < 0.15:
                return None
            if r < 0.6:
                return rng.randrange(-n - 3, n + 4)
            if r < 0.8:
                return rng.choice([I32MAX, -I32MAX, I32MAX - rng.randrange(0, 5), -I32MAX + rng.randrange(0, 5)])
            return rng.randrange(-I32MAX, I32MAX + 1)
        s = 0
        while s == 0:
            r = rng.random()
            s = rng.randrange(-4, 5) if r < 0.6 else (rng.choice([I32MAX, -I32MAX, I32MAX - 1, -I32MAX + 1]) if r < 0.8 else rng.randrange(-I32MAX, I32MAX + 1))
        cases.append(f"slice\t{n}\t{fmt(bound())}\t{fmt(bound())}\t{s}")
        if rng.random() < 0.2:
            cases.append(f"index\t{n}\t{rng.choice([rng.randrange(-n - 3, n + 4), rng.randrange(-I32MAX, I32MAX + 1)])}")
    if ctx.tier == "thorough":
        bnds = [None] + list(range(-8, 9)) + [I32MAX, -I32MAX]
        stps = [s for s in range(-8, 9) if s != 0] + [I32MAX, -I32MAX]
        for n in range(0, 7):
            for a in bnds:
                for b in bnds:
                    for s in stps:
                        cases.append(f"slice\t{n}\t{fmt(a)}\t{fmt(b)}\t{s}")
            for i in range(-9, 10):
                cases.append(f"index\t{n}\t{i}")
    # de-duplicate, keep order
    seen, out = set(), []
    for c in cases:
        if c not in seen:
            seen.add(c)
            out.append(c)
    return out


def fields(line):
    d = {}
    for part in line.split("\t"):
        if "=" in part:
            k, v = part.split("=", 1)
            d[k] = v
    return d


def run(ctx):
    cases = [ctx.replay["case"]] if getattr(ctx, "replay", None) else gen(ctx)
    impl = C.run_parallel([ctx.harness, "slice"], cases)
    model = C.run_parallel([ctx.driver, "slice"], cases)
    kinds = dict(slice=0, index=0, empty_result=0, extreme_bound=0, neg_step=0, omitted=0)
    for case, i, m in zip(cases, impl, model):
        ctx.evaluations += 1
        fi, fm = fields(i or ""), fields(m or "")
        parts = case.split("\t")
        kinds[parts[0]] += 1
        spec = fm.get("spec")
        mdl = fm.get("model")
        if spec is None or mdl is None:
            ctx.tie_broken("stream slice: model driver", f"case {case!r}: driver said {m!r}")
            continue
        if parts[0] == "slice":
            if "-" in parts[2:4]:
                kinds["omitted"] += 1
            if parts[4].startswith("-"):
                kinds["neg_step"] += 1
            if any(p not in ("-",) and abs(int(p)) >= I32MAX - 8 for p in parts[2:5]):
                kinds["extreme_bound"] += 1
            if spec == "ok[]":
                kinds["empty_result"] += 1
            else:
                ctx.nontrivial.add(case)
            has_min = any(p == str(-I32MAX - 1) for p in parts[2:5])
            obs = [("direct", fi.get("direct"))]
            if not has_min:   # i32::MIN cannot be written in an expression (lexer rule), only passed to the API
                obs.append(("e2e", fi.get("e2e")))
        else:
            ctx.nontrivial.add(case)
            obs = [("e2e", fi.get("e2e"))]
        if mdl != spec:
            # proven impossible (C07_slice_eq_python); reaching this means driver/model drift
            ctx.tie_broken("theorem C07_slice_eq_python / C07_index_eq_python vs driver", f"case {case!r}: model {mdl} spec {spec}")
        for name, val in obs:
            if val != spec:
                ctx.violation("slice", case, f"{name}: {val if val is not None else i}", spec,
                              "implementation differs from Python's slice/index rule (Spec.pySlice / Spec.pyIndex)")
        if len(ctx.samples) < 6 and (ctx.evaluations % 997 == 1 or len(ctx.samples) < 2):
            ctx.samples.append(dict(case=case, implementation=i, model=m))
    # the two remaining clauses, end to end: step 0 on an array (of any length, wherever the slice stands) is the invalid-value error;
    # slicing anything that is not an array yields null
    if not getattr(ctx, "replay", None) or ctx.replay.get("stream") == "eval":
        rng = ctx.rng
        ev = []
        arrs = ["[ ]", "[ u1 ]", "[ u1 u2 u3 ]", "[ [ ] [ u1 ] ]", "[ n ]"]
        nonarr = ["n", "t", "u5", G.enc_str("abc"), G.enc_str(""), "{ }", "{ " + G.enc_str("a") + " [ u1 ] }"]
        wraps = ["%s", "@%s", "a%s", "a%s.b", "a%s[0]", "%s | [0]", "a[?@ > `5`] | @%s", "[a%s, `1`]", "{k: a%s}", "a[*]%s", "length(a%s)", "a%s || `1`"]
        import itertools
        for _ in range(600 if ctx.tier == "quick" else 40000):
            a, b = (rng.choice(["", "", "0", "1", "-1", "2", "-3", "2147483647", "-2147483647"]) for _ in range(2))
            st = rng.choice(["0", "0", "0", "1", "-1", "2", ""])
            sl = "[%s:%s:%s]" % (a, b, st) if st != "" or rng.random() < 0.5 else "[%s:%s]" % (a, b)
            w = rng.choice(wraps)
            base = rng.choice(arrs + nonarr)
            doc = base if w in ("%s", "@%s", "%s | [0]") else "{ " + G.enc_str("a") + " " + base + " }"
            ev.append((w % sl, doc, sl, w, base))
        # an index or a slice applied to arrays that are not read from the document: literals, multi-select lists, function results,
        # parenthesised expressions — judged by Python's own indexing / slicing
        import json as _json
        bases = [("`%s`", None), ("(@)", "@"), ("to_array(@)", "@"), ("[@][0]", "@"), ("(a)", "a"), ("a", "a"), ("@", "@"), ("reverse(reverse(@))", "@")]
        ix = []
        for _ in range(500 if ctx.tier == "quick" else 30000):
            n = rng.choice([0, 1, 2, 3, 5, 70])
            arr = list(range(10, 10 + n))
            tmpl, src = rng.choice(bases)
            if rng.random() < 0.5:
                i = rng.choice([0, 1, -1, n, -n, n - 1, -n - 1, 2, -2])
                sel, want = "[%d]" % i, (arr[i] if -n <= i < n else None)
            else:
                a, b = (rng.choice([None, 0, 1, -1, 2, -2, n, -n, -n - 1, n + 1]) for _ in range(2))
                st = rng.choice([None, 1, -1, 2, -2, 3])
                sel = "[%s:%s%s]" % ("" if a is None else a, "" if b is None else b, "" if st is None else ":%d" % st)
                want = arr[slice(a, b, st)]
            if rng.random() < 0.3:
                # zero-padded spellings of non-negative numbers (`[007]`, `[00000000003:]`) are the same numbers
                import re as _re
                sel = _re.sub(r"(?<![-0-9])(\d+)", lambda mm: "0" * rng.choice([1, 2, 9, 10, 11, 15, 30]) + mm.group(1), sel)
            base = tmpl % _json.dumps(arr) if src is None else tmpl
            doc = "n" if src is None else G.json_to_enc(arr if src == "@" else {"a": arr})
            ix.append((base + sel, doc, G.json_to_enc(want)))
        if getattr(ctx, "replay", None) and len(ctx.replay["case"]) == 3:
            ix, ev = [tuple(ctx.replay["case"])], []
        ii, mi = S.eval_run(ctx, [(e, d) for e, d, _ in ix])
        kinds["eval_index_bases"] = len(ix)
        for (e, d, want), i, m in zip(ix, ii, mi):
            ctx.evaluations += 1
            ci, cm = S.canon_eval(i), S.canon_eval(m)
            if ci != "ok " + want:
                ctx.violation("eval", [e, d, want], ci[:200], "ok " + want[:200], "index / slice result differs from Python's list[i] / list[a:b:c] (null when out of range)")
            elif ci != cm:
                ctx.violation("eval", [e, d, want], ci[:200], cm[:200], "index / slice differs from the model of the code")
        if getattr(ctx, "replay", None) and len(ctx.replay["case"]) != 3:
            ev = [tuple(ctx.replay["case"])]
        im2, mo2 = S.eval_run(ctx, [(e, d) for e, d, *_ in ev])
        kinds["eval_step0_array"] = kinds["eval_nonarray"] = 0
        for (e, d, sl, w, base), i, m in zip(ev, im2, mo2):
            ctx.evaluations += 1
            ci, cm = S.canon_eval(i), S.canon_eval(m)
            zero = sl.count(":") == 2 and sl.endswith(":0]")
            direct = w in ("%s", "@%s", "a%s", "%s | [0]", "[a%s, `1`]", "{k: a%s}", "a%s || `1`", "length(a%s)", "a%s.b", "a%s[0]")
            if zero and direct and base in arrs:
                kinds["eval_step0_array"] += 1
                if "invalid-slice" not in ci:
                    ctx.violation("eval", [e, d, sl, w, base], ci[:200], "the invalid-slice (invalid value) error", "step 0 must be an error on every array, also an empty one")
                    continue
            if not zero and base in nonarr and w in ("%s", "@%s", "a%s"):
                kinds["eval_nonarray"] += 1
                if ci != "ok n":
                    ctx.violation("eval", [e, d, sl, w, base], ci[:200], "ok n", "slicing a value that is not an array yields null")
                    continue
            if ci != cm:
                ctx.violation("eval", [e, d, sl, w, base], ci[:200], cm[:200], "slice evaluation differs from the model of the code")
    ctx.coverage["case_kinds"] = kinds
    ctx.coverage["exhaustive"] = False
    ctx.coverage["streams"] = ["slice", "eval"]
