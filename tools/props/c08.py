"""C08 — JSON data passes through unchanged: identity query and text round-trip.
Theorems: lean/JmesVerif/Props/C08.lean."""
import json
import sys
sys.setrecursionlimit(20000)
import math
import re
import struct
from fractions import Fraction
import common as C
import gen as G
import streams as S
import enc as E
import fnspec as F

ID = "C08"
MODULE = "JmesVerif.Props.C08"
THEOREMS = ["C08_identity_query", "C08_parse_print", "C08_parse_print_pretty", "C08_parse_print_noFloat", "C08_string_roundtrip", "C08_value_roundtrip", "C08_parser_exact_domain", "C08_float_roundtrip_exact_domain", "C08_parse_print_exact_domain", "C08_float_roundtrip_counterexample"]
TRUSTED_BASE = [
    "Lean 4.33 kernel; axioms propext, Classical.choice, Quot.sound only",
    "Model/JsonText.lean and Model/JsonPrint.lean model serde_json 1.0.151 (default features) — the decimal<->double algorithms are serde_json's, "
    "modelled and validated by the `json` stream of this run, not verified; the float printer enters theorems only through the hypothesis "
    "`FloatRoundTrips` (parse (print f) = f)",
    "the checker's own oracle (Python json / exact rational arithmetic) for: integer identity and spelling, exactness for <= 15 significant "
    "digits and |exponent| <= 22, 2-ulp bound otherwise, code points of strings, last-duplicate-wins, print/re-parse and Value round trips",
]
ASSUMPTIONS = TRUSTED_BASE
RULE = ("JSON texts: corpus; random documents with whitespace, escapes (\\uXXXX, surrogate pairs), duplicate keys, integers across and beyond "
        "i64/u64, decimals inside and outside the exact domain (many digits, exponents up to +-400, subnormals), nesting up to the parser's "
        "limit; plus malformed texts (must be rejected by both). Non-trivial = distinct valid text that is not a bare literal.")

WS = ["", "", " ", "\n", "\t", "\r ", "  "]


def rnd_string(rng):
    parts = []
    if rng.random() < 0.04:
        import json as _j
        return _j.dumps(rng.choice(G.LONG_STRS), ensure_ascii=rng.random() < 0.5)
    for _ in range(rng.randrange(0, 6) if rng.random() < 0.95 else rng.choice([40, 70, 130, 300])):
        r = rng.random()
        if r < 0.4:
            parts.append(rng.choice(["a", "b", "é", "😀", "ß", " ", "/", "0", "`", "'"]))
        elif r < 0.6:
            parts.append(rng.choice(['\\"', "\\\\", "\\/", "\\b", "\\f", "\\n", "\\r", "\\t"]))
        elif r < 0.8:
            parts.append("\\u%04x" % rng.choice([0x41, 0xe9, 0x0, 0x1f, 0x7f, 0x2028, 0xffff, 0xd7ff, 0xe000]))
        else:
            parts.append("\\ud83d\\ude00" if rng.random() < 0.8 else "\\uD834\\uDD1E")
    return '"' + "".join(parts) + '"'


INTS = [0, 1, -1, 2 ** 31, 2 ** 53, 2 ** 53 + 1, 2 ** 63 - 1, 2 ** 63, 2 ** 63 + 1, 2 ** 64 - 1, 2 ** 64, 2 ** 64 + 1, -2 ** 63, -2 ** 63 - 1,
        10 ** 19, 10 ** 20, 10 ** 25, 12345678901234567890, -12345678901234567890123]


def rnd_number(rng):
    r = rng.random()
    if r < 0.08:
        # doubles that are exactly representable in single precision (their shortest f32 spelling is shorter — and a different double)
        x = struct.unpack("<f", struct.pack("<I", rng.choice([rng.randrange(0x30000000, 0x4f000000), rng.randrange(0x00800000, 0x7f000000)])))[0]
        return repr(x if rng.random() < 0.8 else -x)
    if r < 0.3:
        k = rng.random()
        n = rng.choice(INTS) if k < 0.45 else (rng.choice(G.BAND_NUMS) + rng.choice([0, 1, -1]) if k < 0.65 else rng.randrange(-10 ** 6, 10 ** 6))
        return str(n)
    if r < 0.35:
        return rng.choice(["-0", "0", "-0.0", "0e5", "0.0e-5", "-0e0"])
    nd = rng.choice([1, 2, 5, 10, 15, 15, 16, 17, 20, 25, 40])
    digits = str(rng.randrange(1, 10)) + "".join(str(rng.randrange(10)) for _ in range(nd - 1))
    point = rng.randrange(0, nd + 1)
    ip, fp = digits[:point] or "0", digits[point:]
    if len(ip) > 1 and ip[0] == "0":
        ip = ip.lstrip("0") or "0"
    s = ("-" if rng.random() < 0.3 else "") + ip + ("." + fp if fp else "")
    if rng.random() < 0.6:
        e = rng.choice([0, 1, -1, 5, -5, 22, -22, 23, -23, 100, -100, 300, -300, 308, -308, 309, -320, -330, 400, -400, rng.randrange(-30, 30)])
        s += rng.choice(["e", "E"]) + rng.choice(["", "+"] if e >= 0 else [""]) + str(e)
    return s


def rnd_rows(rng):
    """an array of objects (4-6 members) in which neighbouring rows differ only by the SPELLING or the last bits of a number:
    1 / 1.0 / 1e0, 2^53+1 / 2^53, 0.0 / -0.0, 0.3 / 0.30000000000000004 — equal for a tolerant ==, different as JSON"""
    groups = [["1", "1.0", "1e0", "10e-1"], ["9007199254740993", "9007199254740992", "9007199254740992.0"], ["0", "0.0", "-0.0", "-0"],
              ["0.3", "0.30000000000000004"], ["18446744073709551615", "18446744073709551614", "1.8446744073709552e19"],
              ["-9223372036854775808", "-9223372036854775807"], ["100", "1e2", "100.0"], ["0.71", "0.7100000000000002"]]
    keys = rng.sample(["id", "a", "b", "c", "name", "k", "v", "w"], rng.randrange(4, 7))
    g = rng.choice(groups)
    var = rng.choice(keys)
    rows = []
    fixed = {k: rng.choice(["1", "\"x\"", "null", "[1,2]", "{\"z\":0}", "true", "2.5"]) for k in keys}
    for _ in range(rng.randrange(2, 6)):
        vals = dict(fixed)
        vals[var] = rng.choice(g)
        if rng.random() < 0.3:
            vals[var] = "[%s]" % rng.choice(g)
        rows.append("{" + ",".join("\"%s\":%s" % (k, vals[k]) for k in keys) + "}")
    return rng.choice(["[%s]", "{\"rows\":[%s]}", "[[%s]]"]) % ",".join(rows)


def rnd_keylike(rng):
    """objects whose member names look like numbers, keywords or nothing at all; empty containers at every position"""
    names = rng.sample(["2024", "0", "-7", "1.5", "1e3", "true", "null", "", " ", "00", "9223372036854775808", "-0", "a", "[]", "{}"], rng.randrange(1, 6))
    vals = [rng.choice(["[]", "{}", "null", "[[]]", "{\"0\":[]}", "1", "\"\"", "[{}]", "[null]"]) for _ in names]
    return rng.choice(["%s", "[%s]", "{\"k\":%s}"]) % ("{" + ",".join("\"%s\":%s" % kv for kv in zip(names, vals)) + "}")


def rnd_big_object(rng):
    """objects with 21 .. 70 members, some names repeated (the last one counts), in random order"""
    n = rng.choice([21, 22, 25, 33, 50, 70])
    names = ["k%02d" % i for i in range(n)]
    members = [(k, str(rng.randrange(0, 9))) for k in names]
    for _ in range(rng.randrange(1, 6)):
        members.insert(rng.randrange(0, len(members) + 1), (rng.choice(names), str(rng.randrange(1000, 2000))))
    if rng.random() < 0.5:
        rng.shuffle(members)
    return "{" + ",".join("\"%s\":%s" % kv for kv in members) + "}"


def rnd_json(rng, depth=3):
    w = lambda: rng.choice(WS)
    r = rng.random()
    if depth <= 0 or r < 0.4:
        k = rng.random()
        if k < 0.15:
            return rng.choice(["null", "true", "false"])
        if k < 0.55:
            return rnd_number(rng)
        return rnd_string(rng)
    if r < 0.7:
        n = rng.randrange(0, 5)
        return "[" + w() + ("," + w()).join(rnd_json(rng, depth - 1) + w() for _ in range(n)) + "]"
    n = rng.randrange(0, 5)
    keys = [rng.choice(['"a"', '"b"', '"a"', '"\\u0061"', '"é"', '""', rnd_string(rng)]) for _ in range(n)]
    return "{" + w() + ("," + w()).join(k + w() + ":" + w() + rnd_json(rng, depth - 1) + w() for k in keys) + "}"


def malformed(rng):
    base = rnd_json(rng, 2)
    ops = [lambda s: s[:-1], lambda s: s + ",", lambda s: s.replace(":", " ", 1), lambda s: s.replace('"', "'", 1), lambda s: "[" + s,
           lambda s: s + "x", lambda s: s.replace("e", "e+e", 1), lambda s: "01" + s, lambda s: s.replace("\\u", "\\ud800", 1),
           lambda s: s.replace('"', '"\x01', 1), lambda s: "[" * 130 + "]" * 130, lambda s: "-" + s, lambda s: s + "\x00", lambda s: "1e999",
           lambda s: "\\ud800", lambda s: '"\\ud800"', lambda s: '"\\udc00\\ud800"', lambda s: "[1 2]", lambda s: "{\"a\" 1}", lambda s: "tru", lambda s: ""]
    return rng.choice(ops)(base)


NUMRE = re.compile(r"-?(0|[1-9][0-9]*)(\.[0-9]+)?([eE][+-]?[0-9]+)?")


def expected_number(tok):
    """typed token(s) the specification admits for a numeral: exact kind for integers in range; for decimals the exact double inside the
    exact domain, else the set of doubles within 2 ulp of the true value"""
    if re.fullmatch(r"-?(0|[1-9][0-9]*)", tok):
        n = int(tok)
        if tok == "-0":
            return ("exact", G.f64_bits(-0.0))
        if 0 <= n < 2 ** 64:
            return ("exact", "u%d" % n)
        if -2 ** 63 <= n < 0:
            return ("exact", "i%d" % n)
    m = re.fullmatch(r"(-?)([0-9]+)(?:\.([0-9]+))?(?:[eE]([+-]?[0-9]+))?", tok)
    sign, ip, fp, ex = m.group(1), m.group(2), m.group(3) or "", int(m.group(4) or 0)
    digits = (ip + fp).lstrip("0")
    sig = len(digits.rstrip("0")) if digits else 0
    e10 = ex - len(fp)
    val = Fraction(int(ip + fp or "0")) * (Fraction(10) ** e10)
    if sign:
        val = -val
    try:
        x = float(val)        # correctly rounded
        if x == 0 and sign:
            x = -0.0
    except OverflowError:
        return ("overflow", None)
    if math.isinf(x):
        return ("overflow", None)
    # exact domain: <= 15 significant digits and |decimal exponent| <= 22 (significand and power of ten both exact doubles)
    lead = (ip + fp).lstrip("0")
    e_sig = e10 + (len(lead) - len(lead.rstrip("0")))
    written = len(digits)      # every digit as written (trailing zeros count: "written with at most 15 significant digits")
    if written <= 15 and abs(e10) <= 22:
        return ("exact", G.f64_bits(x))
    return ("near", x)


def ulp_dist(a, b):
    ia = struct.unpack("<q", struct.pack("<d", a))[0]
    ib = struct.unpack("<q", struct.pack("<d", b))[0]
    if ia < 0:
        ia = -(ia & 0x7fffffffffffffff)
    if ib < 0:
        ib = -(ib & 0x7fffffffffffffff)
    return abs(ia - ib)


class NumTok(str):
    pass


REJECT = object()


def within_ulps(a, b, n):
    """two typed encodings equal except that doubles may differ by at most n units in the last place"""
    ta, tb = a.split(" "), b.split(" ")
    if len(ta) != len(tb):
        return False
    for x, y in zip(ta, tb):
        if x == y:
            continue
        if x[0] == "d" and y[0] == "d" and ulp_dist(F.num_to_float(x), F.num_to_float(y)) <= n:
            continue
        return False
    return True


def py_expected(text):
    """decode with Python's json keeping numerals as tokens; REJECT if Python rejects"""
    def lone(sv):
        return isinstance(sv, str) and not isinstance(sv, NumTok) and re.search(r"[\ud800-\udfff]", sv)

    def pairs(ps):
        for k, x in ps:
            if lone(k) or lone(x) or (isinstance(x, list) and any(lone(y) for y in x)):
                raise ValueError("lone surrogate: not a Unicode string")
        return dict(ps)

    def numeral(tok):
        if expected_number(tok)[0] == "overflow":
            raise ValueError("number out of range")      # rejected even if a later duplicate key would drop it
        return NumTok(tok)
    if re.search(r"[\ud800-\udfff]", text):
        return REJECT
    try:
        v = json.loads(text, parse_int=numeral, parse_float=numeral, parse_constant=lambda c: (_ for _ in ()).throw(ValueError(c)),
                          object_pairs_hook=pairs)
        if has_lone(v):
            return REJECT
        return v
    except (ValueError, RecursionError):
        return REJECT


def has_lone(v):
    if isinstance(v, NumTok):
        return False
    if isinstance(v, str):
        return re.search(r"[\ud800-\udfff]", v) is not None
    if isinstance(v, list):
        return any(has_lone(x) for x in v)
    if isinstance(v, dict):
        return any(has_lone(k) or has_lone(x) for k, x in v.items())
    return False


def compare(exp, got, path, bad):
    """exp: python structure with NumTok numerals; got: enc structure"""
    if isinstance(exp, NumTok):
        if not isinstance(got, E.Num):
            bad.append(f"{path}: expected a number")
            return
        kind, v = expected_number(str(exp))
        if kind == "exact":
            if str(got) != v:
                bad.append(f"{path}: numeral {exp} became {got}, expected {v}")
        elif kind == "near":
            if got[0] != "d" or ulp_dist(F.num_to_float(got), v) > 2:
                bad.append(f"{path}: numeral {exp} became {got}, more than 2 ulp from {v!r}")
        return
    if isinstance(exp, str):
        if got != ("s", exp):
            bad.append(f"{path}: string differs")
        return
    if isinstance(exp, list):
        if not isinstance(got, list) or len(got) != len(exp):
            bad.append(f"{path}: array shape differs")
            return
        for i, (a, b) in enumerate(zip(exp, got)):
            compare(a, b, f"{path}[{i}]", bad)
        return
    if isinstance(exp, dict):
        if not isinstance(got, dict) or set(got) != set(exp):
            bad.append(f"{path}: object keys differ")
            return
        for k in exp:
            compare(exp[k], got[k], f"{path}.{k}", bad)
        return
    if exp is None and got is None:
        return
    if exp is True and got is True or exp is False and got is False:
        return
    bad.append(f"{path}: {exp!r} vs {got!r}")


def has_overflow(exp):
    if isinstance(exp, NumTok):
        return expected_number(str(exp))[0] == "overflow"
    if isinstance(exp, list):
        return any(has_overflow(x) for x in exp)
    if isinstance(exp, dict):
        return any(has_overflow(x) for x in exp.values())
    return False


def depth_of(v):
    if isinstance(v, list):
        return 1 + max([depth_of(x) for x in v], default=0)
    if isinstance(v, dict):
        return 1 + max([depth_of(x) for x in v.values()], default=0)
    return 0


def run(ctx):
    rng = ctx.rng
    q = ctx.tier == "quick"
    texts = [S.corpus_expr(l) for l in S.load_corpus("C08")]
    texts += [rnd_json(rng, rng.choice([1, 2, 3, 4])) for _ in range(4000 if q else 600000)]
    texts += [rnd_number(rng) for _ in range(3000 if q else 400000)]
    texts += [rnd_rows(rng) for _ in range(600 if q else 60000)]
    texts += [rnd_big_object(rng) for _ in range(300 if q else 30000)]
    texts += [rnd_keylike(rng) for _ in range(400 if q else 40000)]
    texts += [rnd_string(rng) for _ in range(500 if q else 50000)]
    texts += [malformed(rng) for _ in range(1000 if q else 150000)]
    texts += ["[" * d + "1" + "]" * d for d in (1, 64, 126, 127, 128, 129, 500)]
    # nesting by objects, and by objects and arrays in turn, up to the parser's limit (a limit that counts one kind of container twice, or only
    # one kind, shows between 43 and 127 levels)
    for d in (43, 63, 64, 65, 85, 86, 100, 126, 127, 128):
        texts.append('{"a":' * d + "1" + "}" * d)
        texts.append("".join('{"k":' if i % 2 == 0 else "[" for i in range(d)) + "1.5" + "".join("}" if i % 2 == 0 else "]" for i in reversed(range(d))))
        texts.append("".join("[" if i % 3 else '{"":' for i in range(d)) + '"x"' + "".join("]" if i % 3 else "}" for i in reversed(range(d))))
    if getattr(ctx, "replay", None):
        texts = [ctx.replay["case"]]
    lines = [C.hexs(t) for t in texts]
    impl, model = S.run_both(ctx, "json", lines)
    stats = dict(valid=0, rejected=0, exact_numbers=0, near_numbers=0)
    for t, i, m in zip(texts, impl, model):
        ctx.evaluations += 1
        i, m = i or "NONE", m or "NONE"
        fi = i.split("\t")
        ok = fi[0].startswith("ok ")
        exp = py_expected(t)
        py_ok = exp is not REJECT and not has_overflow(exp) and depth_of(exp) < 128
        if fi[0] not in ("E",) and not ok:
            ctx.violation("json", t, i[:200], "Ok or Err", "from_json neither parsed nor rejected")
            continue
        if ok != py_ok:
            ctx.violation("json", t, fi[0][:200], "a value" if py_ok else "rejection (not valid JSON / number out of range / nesting beyond the limit)",
                          "validity verdict differs from the JSON grammar")
            continue
        if ok:
            stats["valid"] += 1
            if len(t) > 6:
                ctx.nontrivial.add(t)
            got = E.parse(fi[0][3:])
            bad = []
            compare(exp, got, "$", bad)
            kv = S.kv_fields(fi[1:])
            if kv.get("id") != "same":
                bad.append("searching with `@` does not return the parsed value unchanged")
            if kv.get("value") != "same":
                bad.append("conversion to/from serde_json::Value is not lossless: " + str(kv.get("value")))
            if kv.get("deser") not in ("same", None):
                bad.append("decoding the value into serde_json::Value (Variable as a Deserializer) does not give the JSON it serialises to: " + str(kv.get("deser")))
            rp = kv.get("reparse", "")
            if rp != "same" and not (rp.startswith("DIFF:") and within_ulps(rp[5:], fi[0][3:], 2)):
                bad.append("printing and re-parsing does not yield an equal value (beyond the parser's documented 2-ulp accuracy)")
            # printed text: integers keep their spelling, the whole text re-reads (by Python) to the same structure
            printed = C.unhexs(kv.get("text", ""))
            try:
                back = json.loads(printed, parse_int=NumTok, parse_float=NumTok)
                b2 = []
                compare_printed(got, back, "$", b2)
                bad += b2
            except ValueError:
                bad.append("printed text is not valid JSON")
            if bad:
                ctx.violation("json", t, i[:300], "; ".join(bad[:4]))
                continue
        else:
            stats["rejected"] += 1
        mf = m.split("\t")
        if mf[0] != fi[0] or (ok and S.kv_fields(mf[1:]).get("text") != S.kv_fields(fi[1:]).get("text")) or \
                (ok and S.kv_fields(mf[1:]).get("reparse") != S.kv_fields(fi[1:]).get("reparse")):
            # model of serde_json's text layer differs from the implementation on an input the oracle accepts: model drift
            ctx.tie_broken("stream json: model of the JSON text layer vs implementation", f"{t!r}: impl {i[:160]} model {m[:160]}")
        if len(ctx.samples) < 6 and ctx.evaluations % 1303 == 1:
            ctx.samples.append(dict(text=t[:100], parsed=fi[0][:100]))
    ctx.coverage["stats"] = stats
    ctx.coverage["streams"] = ["json"]


def compare_printed(val, back, path, bad):
    """val: enc structure; back: python json of the printed text (numerals as tokens)"""
    if isinstance(val, E.Num):
        if not isinstance(back, NumTok):
            bad.append(f"{path}: printed number is not a numeral")
        elif val[0] in "ui":
            if str(back) != val[1:]:
                bad.append(f"{path}: integer {val} printed as {back}")
        elif not re.search(r"[.eE]", str(back)):
            bad.append(f"{path}: double {val} printed in integer spelling {back}")
        elif F.float_tok(float(str(back))) != val and not (float(str(back)) == 0 and F.num_to_float(val) == 0):
            bad.append(f"{path}: double {val} printed as {back}, which denotes another double")
        return
    if isinstance(val, tuple):
        if back != val[1]:
            bad.append(f"{path}: string printed differently")
        return
    if isinstance(val, list):
        if not isinstance(back, list) or len(back) != len(val):
            bad.append(f"{path}: array printed differently")
            return
        for k, (a, b) in enumerate(zip(val, back)):
            compare_printed(a, b, f"{path}[{k}]", bad)
        return
    if isinstance(val, dict):
        if not isinstance(back, dict) or set(back) != set(val):
            bad.append(f"{path}: object printed differently")
            return
        for k in val:
            compare_printed(val[k], back[k], f"{path}.{k}", bad)
        return
    if val is None and back is None or val is True and back is True or val is False and back is False:
        return
    bad.append(f"{path}: {val!r} printed as {back!r}")
