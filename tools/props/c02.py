"""C02 — every built-in function computes the value the specification defines.
Theorems: lean/JmesVerif/Props/C02.lean.  Oracle: tools/fnspec.py (written from the function specification)."""
import common as C
import gen as G
import streams as S
import enc as E
import fnspec as F

ID = "C02"
MODULE = "JmesVerif.Props.C02"
THEOREMS = ["C02_sort", "C02_sort_perm", "C02_sort_sorted", "C02_sort_stable", "C02_sort_by", "C02_max_by", "C02_min_by", "C02_max", "C02_min",
            "C02_merge", "C02_length_codepoints", "C02_reverse_codepoints", "C02_keys_values", "C02_to_number", "C02_avg_empty", "C02_avg",
            "C02_map_length", "C02_expref_once_per_element", "C02_not_null", "C02_contains", "C02_starts_with", "C02_ends_with", "C02_join", "C02_abs", "C02_floor", "C02_ceil", "C02_add_ieee", "C02_div_ieee", "C02_int_exact", "C02_sum_ints", "C02_avg_ints", "C02_sum_step",
            "C02_every_builtin_meets_spec", "C02_every_pure_builtin_meets_spec", "C02_evalRef_is_interp", "C02_valid_call_outcomes",
            "C02_valid_call_outcomes_wellformed", "C02_to_number_padded_deviation"]
TRUSTED_BASE = [
    "Lean 4.33 kernel; axioms propext, Classical.choice, Quot.sound only",
    "hand-written model of the 26 builtins (Model/Interp.lean; slice::sort modelled as a stable merge sort) tied to the code by the `eval` stream of this run",
    "Spec/Functions.lean: the JMESPath function specification as one relation over all 26 builtins (relational for sort/sort_by/max/min/max_by/"
    "min_by/merge/keys/values/map/sum/avg/contains/…, written independently of the model's function bodies), the statement C02_every_builtin_meets_spec is about",
    "tools/fnspec.py: reference semantics of the builtins written from the JMESPath function specification (arithmetic on IEEE doubles via "
    "Python floats), the independent oracle for every generated call",
]
ASSUMPTIONS = TRUSTED_BASE
RULE = ("well-typed calls of all 26 builtins: arguments drawn per declared parameter type (arrays of 0-64 elements with duplicate keys, strings over "
        "all Unicode planes, objects, negative / fractional / huge numbers), expression references (&@, &key, &key.key, &g(@)), direct calls, "
        "calls mapped inside projections, and calls nested in other calls. Each result is compared with the reference semantics and with "
        "the model. Non-trivial = distinct call whose result is not null.")

STRS = ["", "a", "b", "ab", "abc", "ba", "é", "éa", "😀", "a😀b", "Z", "z", "aa", "10", "9", "ß", "\U0001F600\U0001F601", "x y", "A", "é́"]
NUMS = ["u0", "u1", "u2", "u3", "u10", "i-1", "i-7", G.f64_bits(1.5), G.f64_bits(-2.5), G.f64_bits(0.1), G.f64_bits(1.0), G.f64_bits(1e300),
        G.f64_bits(-1e-300), "u9007199254740993", "u18446744073709551615", "i-9223372036854775808", G.f64_bits(2.0), G.f64_bits(-0.0),
        G.f64_bits(0.30000000000000004), G.f64_bits(123456.789)]


def rs(rng):
    r = rng.random()
    if r < 0.06:
        return ("s", rng.choice(G.LONG_STRS))
    if r < 0.12:
        # composed strings: repeats, shared prefixes / suffixes, case and normalisation variants
        a, b = rng.choice(STRS), rng.choice(STRS)
        return ("s", rng.choice([a + b, a * rng.choice([2, 3, 17, 33]), a.upper(), b + a + b, a + " " + b, a[::-1]]))
    return ("s", rng.choice(STRS))


def rn(rng):
    r = rng.random()
    if r < 0.08:
        v = rng.choice(G.BAND_NUMS) + rng.choice([0, 0, 1, -1])
        if -2 ** 63 <= v < 0:
            return E.Num("i%d" % v)
        if 0 <= v < 2 ** 64:
            return E.Num("u%d" % v)
    if r < 0.12:
        return E.Num(G.f64_bits(float(rng.choice(G.BAND_NUMS)) + rng.choice([0.5, -0.5, 0.25, 0.999999, 1e-9])))
    return E.Num(rng.choice(NUMS))


def near_cluster(rng):
    """distinct numbers that lie within a few units in the last place of each other (what a tolerant comparison would call equal), in random order"""
    import math
    r = rng.random()
    if r < 0.5:
        x = rng.choice([0.3, 0.1 + 0.2, 1.0, 2251799813685249.0, 1e-300, 123456.789, -0.7, 1e300, 4503599627370497.5])
        xs = {x}
        for _ in range(rng.randrange(1, 6)):
            y = x
            for _ in range(rng.randrange(1, 4)):
                y = math.nextafter(y, math.inf if rng.random() < 0.5 else -math.inf)
            xs.add(y)
        out = [E.Num(G.f64_bits(v)) for v in xs]
    elif r < 0.8:
        b = rng.choice([2 ** 53, 2 ** 60, 2 ** 63 - 4096, 2 ** 63 + 4096, 2 ** 64 - 8192])
        out = [E.Num("u%d" % (b + 2048 * k)) for k in rng.sample(range(0, 4), rng.randrange(2, 5))]
    else:
        b = rng.choice([-(2 ** 53), -(2 ** 60), -(2 ** 63) + 8192])
        out = [E.Num("i%d" % (b - 2048 * k)) for k in rng.sample(range(0, 4), rng.randrange(2, 5))]
    rng.shuffle(out)
    return out


def arr_n(rng):
    if rng.random() < 0.12:
        return near_cluster(rng)
    n = rng.choice([0, 1, 2, 3, 5, 8, 21, 40, 64]) if rng.random() < 0.93 else rng.choice([33, 65, 129, 257, 300])
    pool = [rn(rng) for _ in range(max(1, n // 3 + 1))]
    return [rng.choice(pool) if rng.random() < 0.6 else rn(rng) for _ in range(n)]


def arr_s(rng):
    n = rng.choice([0, 1, 2, 3, 5, 8, 21, 40, 64]) if rng.random() < 0.93 else rng.choice([33, 65, 129, 257, 300])
    return [rs(rng) for _ in range(n)]


def arr_obj(rng, keytype):
    n = rng.choice([0, 1, 2, 3, 5, 8, 22, 40]) if rng.random() < 0.93 else rng.choice([33, 65, 129, 257])
    out = []
    for i in range(n):
        k = E.Num("u%d" % rng.randrange(0, 4)) if keytype == "n" else ("s", rng.choice(["a", "b", "é", ""]))
        out.append({"k": k, "id": E.Num("u%d" % i), "o": {"k": k}})
    return out


def any_val(rng):
    return E.parse(G.rand_doc(rng, 2))


def obj(rng):
    return {rng.choice(["a", "b", "c", "é", "k1", "", "z"]): any_val(rng) for _ in range(rng.randrange(0, 5))}


# mini expression trees: ("field", name) | ("cur",) | ("call", name, [args]) | ("expref", body) | ("str", s)

def text(t):
    if t[0] == "field":
        return t[1]
    if t[0] == "path":
        return t[1] + "." + t[2]
    if t[0] == "cur":
        return "@"
    if t[0] == "str":
        return "'" + t[1].replace("\\", "\\\\").replace("'", "\\'") + "'" if False else "`" + F.json_quote(t[1]).replace("`", "\\`") + "`"
    if t[0] == "expref":
        return "&" + text(t[1])
    if t[0] == "call":
        return t[1] + "(" + ", ".join(text(a) for a in t[2]) + ")"
    if t[0] == "proj":
        return t[1] + "[*]." + text(t[2])
    raise ValueError(t)


def ev(t, cur):
    if t[0] == "field":
        return cur.get(t[1]) if isinstance(cur, dict) else None
    if t[0] == "path":
        x = cur.get(t[1]) if isinstance(cur, dict) else None
        return x.get(t[2]) if isinstance(x, dict) else None
    if t[0] == "cur":
        return cur
    if t[0] == "str":
        return ("s", t[1])
    if t[0] == "expref":
        return ("x", t[1])
    if t[0] == "call":
        args = [ev(a, cur) for a in t[2]]
        return F.call(t[1], args, lambda body, el: ev(body, el))
    if t[0] == "proj":
        xs = cur.get(t[1]) if isinstance(cur, dict) else None
        if not isinstance(xs, list):
            return None
        return [y for y in (ev(t[2], x) for x in xs) if y is not None]
    raise ValueError(t)


def gen_case(rng):
    """(tree, document)"""
    f = rng.choice(G.BUILTINS)
    A0, A1 = ("field", "a0"), ("field", "a1")
    d = {}
    r = rng.random()
    if f in ("abs", "ceil", "floor"):
        if r < 0.3:
            d["xs"] = arr_n(rng)
            return ("proj", "xs", ("call", f, [("cur",)])), d
        if r < 0.45:
            d["a0"] = arr_n(rng)
            return ("call", "map", [("expref", ("call", f, [("cur",)])), A0]), d
        d["a0"] = rn(rng)
        return ("call", f, [A0]), d
    if f in ("avg", "sum", "max", "min", "sort"):
        d["a0"] = arr_n(rng) if (f in ("avg", "sum") or rng.random() < 0.5) else arr_s(rng)
        t = ("call", f, [A0])
        if f == "sort" and r < 0.3:
            t = ("call", rng.choice(["reverse", "length", "to_string"]), [t])
        return t, d
    if f == "contains":
        if r < 0.10:
            # numbers are contained BY VALUE: an integer finds the float of the same value and the other way round (well-separated numbers only:
            # the tolerance band of == is C10's subject)
            def num(k, asfloat):
                return E.Num(G.f64_bits(float(k))) if asfloat else E.Num(("u%d" % k) if k >= 0 else ("i%d" % k))
            ks = [rng.randrange(-5, 40) for _ in range(rng.randrange(1, 6))]
            d["a0"] = [num(k, rng.random() < 0.5) if rng.random() < 0.8 else rs(rng) for k in ks]
            k = rng.choice(ks) if rng.random() < 0.7 else rng.randrange(41, 60)
            d["a1"] = num(k, rng.random() < 0.5) if rng.random() < 0.85 else E.Num(G.f64_bits(k + 0.5))
            if rng.random() < 0.3:
                d["a1"] = [d["a1"]]
                d["a0"] = [[x] for x in d["a0"]]
            return ("call", f, [A0, A1]), d
        if r < 0.12:
            # a string subject searched for something that is not a string (a number, null, an array …): simply not contained
            d["a0"], d["a1"] = rs(rng), rng.choice([rn(rng), None, True, [rs(rng)], {}, []])
            return ("call", f, [A0, A1]), d
        if r < 0.5:
            d["a0"], d["a1"] = rs(rng), rs(rng)
            if rng.random() < 0.5 and d["a0"][1]:
                s = d["a0"][1]
                i = rng.randrange(len(s))
                d["a1"] = ("s", s[i:i + rng.randrange(0, 3)])
        else:
            d["a0"] = rng.choice([arr_s(rng), [any_val(rng) for _ in range(rng.randrange(0, 6))]])
            d["a1"] = rng.choice(d["a0"]) if d["a0"] and rng.random() < 0.6 else any_val(rng)
            if any(F.is_num(x) for x in F._flat(d["a0"])) or any(F.is_num(x) for x in F._flat(d["a1"])):
                d["a0"], d["a1"] = arr_s(rng), rs(rng)
        return ("call", f, [A0, A1]), d
    if f in ("ends_with", "starts_with"):
        d["a0"] = rs(rng)
        s = d["a0"][1]
        d["a1"] = ("s", (s[:rng.randrange(0, len(s) + 1)] if f == "starts_with" else s[rng.randrange(0, len(s) + 1):])) if rng.random() < 0.6 else rs(rng)
        return ("call", f, [A0, A1]), d
    if f == "join":
        d["a0"], d["a1"] = rs(rng), arr_s(rng)
        return ("call", f, [A0, A1]), d
    if f in ("keys", "values"):
        d["a0"] = obj(rng)
        t = ("call", f, [A0])
        if r < 0.3:
            t = ("call", "length", [t])
        return t, d
    if f == "length":
        d["a0"] = rng.choice([rs(rng), arr_s(rng), obj(rng)])
        if r < 0.3:
            d["xs"] = arr_s(rng)
            return ("proj", "xs", ("call", "length", [("cur",)])), d
        return ("call", f, [A0]), d
    if f == "map":
        d["a0"] = rng.choice([arr_obj(rng, "n"), arr_n(rng), [any_val(rng) for _ in range(rng.randrange(0, 6))]])
        if r < 0.4:
            # null ELEMENTS: the expression reference is applied to them like to any other element (`type(null)` is "null", not null)
            d["a0"] = [None if rng.random() < 0.4 else x for x in d["a0"]] + [None]
            rng.shuffle(d["a0"])
            body = rng.choice([("call", "type", [("cur",)]), ("call", "to_array", [("cur",)]), ("call", "to_string", [("cur",)]), ("call", "not_null", [("cur",), ("field", "zz")]),
                               ("call", "type", [("field", "k")]), ("cur",)])
            return ("call", "map", [("expref", body), A0]), d
        body = rng.choice([("cur",), ("field", "k"), ("path", "o", "k"), ("call", "type", [("cur",)]), ("call", "to_array", [("cur",)])])
        return ("call", "map", [("expref", body), A0]), d
    if f in ("max_by", "min_by", "sort_by"):
        kt = rng.choice(["n", "s"])
        d["a0"] = arr_obj(rng, kt)
        body = rng.choice([("field", "k"), ("path", "o", "k")])
        t = ("call", f, [A0, ("expref", body)])
        if f == "sort_by" and r < 0.3:
            t = ("call", "map", [("expref", ("field", "id")), t])
        return t, d
    if f == "merge":
        n = rng.randrange(1, 4)
        for i in range(n):
            d["a%d" % i] = obj(rng)
        return ("call", f, [("field", "a%d" % i) for i in range(n)]), d
    if f == "not_null":
        n = rng.randrange(1, 5)
        for i in range(n):
            d["a%d" % i] = None if rng.random() < 0.6 else any_val(rng)
        return ("call", f, [("field", "a%d" % i) for i in range(n)]), d
    if f == "reverse":
        d["a0"] = rng.choice([rs(rng), arr_s(rng), arr_n(rng)])
        return ("call", f, [A0]), d
    if f in ("to_array", "type", "to_string"):
        d["a0"] = any_val(rng)
        if r < 0.3:
            d["xs"] = [any_val(rng) for _ in range(rng.randrange(0, 6))]
            return ("proj", "xs", ("call", f, [("cur",)])), d
        return ("call", f, [A0]), d
    if f == "to_number":
        if rng.random() < 0.5:
            # composed numeric spellings and their near-misses: sign x integer part x fraction x exponent x padding
            body = (rng.choice(["", "", "-", "-", "+", "--", "+-"]) + rng.choice(["0", "7", "12", "007", "", "9007199254740993", "1"])
                    + rng.choice(["", "", ".", ".5", ".50", ".0"]) + rng.choice(["", "", "e2", "E-2", "e", "e+", "e+03", "E308", "e400"]))
            body = rng.choice(["", "", " ", "\t", "\n", "\r", "\x0c", "\u00a0"]) + body + rng.choice(["", "", " ", "\n", "\x0b", ","])
            if rng.random() < 0.1:
                body = rng.choice(["Infinity", "-Infinity", "NaN", "inf", "1_0", "٣", "１", "0x1", "1,5", "0b1", "+", "-", ".", "e1"])
            d["a0"] = ("s", body)
            return ("call", f, [A0]), d
        d["a0"] = rng.choice([rn(rng), ("s", rng.choice(["1", "-1", "1.5", "-0", "0", "1e2", "1E+2", " 7 ", "007", "0x1", "", "true", "null",
                                                       "[1]", "\"1\"", "12345678901234567890", "-9223372036854775808", "1.", ".5", "1e", "3.25e-2"])),
                              any_val(rng)])
        return ("call", f, [A0]), d
    raise ValueError(f)


def run(ctx):
    rng = ctx.rng
    n = 5000 if ctx.tier == "quick" else 750000
    trees = []
    for l in S.load_corpus("C02"):
        e, d = l.split("\t", 1)
        trees.append((None, e, d))
    for _ in range(n):
        t, d = gen_case(rng)
        trees.append((t, text(t), E.dump(d)))
    if getattr(ctx, "replay", None):
        trees = [(None, ctx.replay["case"][0], ctx.replay["case"][1])]
    cases = [(e, d) for _, e, d in trees]
    impl, model = S.eval_run(ctx, cases)
    per_fn = {}
    undefined = 0
    for (t, e, d), i, m in zip(trees, impl, model):
        ctx.evaluations += 1
        ci, cm = S.canon_eval(i), S.canon_eval(m)
        fn = e.split("(")[0].split(".")[-1] if t is None else (t[1] if t[0] == "call" else t[2][1])
        st = per_fn.setdefault(fn, dict(n=0, checked=0))
        st["n"] += 1
        if ci != cm:
            ctx.violation("eval", [e, d], ci[:300], cm[:300], "implementation differs from the model of the builtin")
            continue
        if t is None:
            continue
        try:
            want = "ok " + E.dump(ev(t, E.parse(d)))
        except F.Undefined:
            undefined += 1
            continue
        st["checked"] += 1
        if ci != want:
            ctx.violation("eval", [e, d], ci[:400], want[:400], "result differs from the value the function specification defines (tools/fnspec.py)")
            continue
        if ci != "ok n":
            ctx.nontrivial.add((e, d))
        if len(ctx.samples) < 8 and ctx.evaluations % 613 == 1:
            ctx.samples.append(dict(call=e, document=d[:120], result=ci[:120]))
    ctx.coverage["per_function"] = per_fn
    ctx.coverage["outside_reference_semantics"] = undefined
    ctx.coverage["streams"] = ["eval"]
