"""C09 — raw strings, JSON literals and quoted identifiers denote exactly their value.
Theorems: lean/JmesVerif/Props/C09.lean."""
import json
import common as C
import gen as G
import streams as S
import enc as E
import fnspec as F

ID = "C09"
MODULE = "JmesVerif.Props.C09"
THEOREMS = ["C09_raw_roundtrip", "C09_raw_unspellable", "C09_quoted_roundtrip", "C09_literal_roundtrip", "C09_quoted_selects",
            "C09_raw_evaluates", "C09_literal_evaluates"]
TRUSTED_BASE = [
    "Lean 4.33 kernel; axioms propext, Classical.choice, Quot.sound only",
    "hand-written lexer model (Model/Lexer.lean: consume_inside, the two `replace` un-escapings) and JSON text model, tied to the code by the "
    "`eval` stream of this run on spelled values",
    "Spec/Spelling.lean: the spelling functions (raw string = quotes escaped; literal = JSON text with backticks escaped; quoted identifier "
    "= JSON string) and `rawSpellable` (no odd backslash run before a quote or at the end) as the domain in which a raw spelling exists",
    "C09_literal_roundtrip assumes the JSON text of the value parses back (C08); doubles rely on serde_json's printer/parser (2-ulp accuracy)",
]
ASSUMPTIONS = TRUSTED_BASE
RULE = ("strings (as raw-string contents and as member names) and JSON values (as literal contents) built from a delimiter-dense alphabet: "
        "backslashes, single/double quotes, backticks, \\u escapes, control characters, astral code points, brackets; thorough adds every "
        "string of length <= 4 over {\\, ', `, \", a}. The checker spells each value itself, evaluates the spelling with the implementation "
        "and compares with the value; malformed quoted forms must be rejected. Non-trivial = distinct value containing a delimiter or backslash.")

ALPH = ["\\", "\\", "'", "`", '"', "a", "b", " ", "é", "😀", "\n", "\t", "\x01", "u", "0", "[", "{", ":", ",",
        "\r", "\r\n", "\n\r", "\x00", "\x7f", "\u0301", "\u200b", "\ufeff", "\x0c", "\u2028", "\U0010ffff", "n", "\\n",
        "\u2018", "\u2019", "\u201c", "\u201d", "\u00b4", "\uff07", "\uff02", "\u02bc", "users", "\\u", "\\users", "x" * 40]


def raw_spellable(s):
    odd = False
    for ch in s:
        if ch == "\\":
            odd = not odd
        elif ch == "'":
            if odd:
                return False
            odd = False
        else:
            odd = False
    return not odd


def raw_spell(s):
    return "'" + s.replace("'", "\\'") + "'"


def lit_spell(text):
    return "`" + text.replace("`", "\\`") + "`"


def rnd_str(rng, n=None):
    n = rng.randrange(0, 8) if n is None else n
    return "".join(rng.choice(ALPH) for _ in range(n))


def rnd_value(rng, depth=2):
    r = rng.random()
    if depth <= 0 or r < 0.5:
        k = rng.random()
        if k < 0.5:
            return rnd_str(rng)
        if k < 0.7:
            return rng.choice([0, 1, -1, 2 ** 53 + 1, 18446744073709551615, -9223372036854775808])
        if k < 0.85:
            return rng.choice([1.5, -0.25, 1e21, 1e-7, 0.1])
        return rng.choice([None, True, False])
    if r < 0.75:
        return [rnd_value(rng, depth - 1) for _ in range(rng.randrange(0, 4))]
    return {rnd_str(rng, rng.randrange(0, 4)): rnd_value(rng, depth - 1) for _ in range(rng.randrange(0, 4))}


def run(ctx):
    rng = ctx.rng
    q = ctx.tier == "quick"
    cases = []       # (kind, expression, doc, expected-enc or None for "must be rejected")
    strs = [rnd_str(rng) for _ in range(3000 if q else 300000)]
    if not q:
        import itertools
        for n in range(0, 5):
            for t in itertools.product(["\\", "'", "`", '"', "a"], repeat=n):
                strs.append("".join(t))
    for s in strs:
        if raw_spellable(s):
            cases.append(("raw", raw_spell(s), "n", E.dump(("s", s))))
        else:
            cases.append(("raw-unspellable", raw_spell(s), "n", "≠" + E.dump(("s", s))))
        # as a member name
        key = json.dumps(s, ensure_ascii=rng.random() < 0.5)
        member = "u%d" % rng.randrange(1, 99)
        other = s + "x"
        cases.append(("quoted", key, E.dump({s: E.Num(member), other: E.Num("u0")}), member))
        cases.append(("quoted-sub", "a." + key + " | @", E.dump({"a": {s: E.Num(member)}}), member))
    for _ in range(2000 if q else 200000):
        v = rnd_value(rng, rng.choice([0, 1, 2, 3]))
        text = json.dumps(v, ensure_ascii=rng.random() < 0.3, separators=rng.choice([(",", ":"), (", ", ": ")]))
        cases.append(("literal", lit_spell(text), "n", G.json_to_enc(v)))
    # names that look like something else: JSON keywords, builtin names, operator words — an unquoted identifier is always a member name
    for ident in G.IDENTS + ["_", "a1_B", "Z9", "null", "true", "false", "and", "or", "not", "NaN", "Infinity", "e1", "E", "_0", "__proto__"] + G.BUILTINS:
        cases.append(("unquoted", ident, E.dump({ident: E.Num("u7"), ident + "x": E.Num("u0"), "x" + ident: E.Num("u1")}), "u7"))
        cases.append(("unquoted", "a." + ident, E.dump({"a": {ident: E.Num("u7"), ident + "x": E.Num("u0")}}), "u7"))
        cases.append(("unquoted", "[*]." + ident + "|[0]", E.dump([{ident: E.Num("u7")}]), "u7"))
        cases.append(("unquoted", "[?" + ident + " == `7`] | length(@)", E.dump([{ident: E.Num("u7")}, {ident + "x": E.Num("u7")}]), "u1"))
        cases.append(("unquoted", "{" + ident + ": " + ident + "}." + ident, E.dump({ident: E.Num("u7")}), "u7"))
    # a quoted identifier is a NAME, whatever it looks like: it selects the member with exactly that name and nothing else
    for key, doc, want in [("a.b", {"a": {"b": 2}}, None), ("a.b", {"a.b": 7, "a": {"b": 2}}, 7), ("a[0]", {"a": [5]}, None), ("a | b", {"a": {"b": 1}}, None),
                           ("*", {"x": 1}, None), ("@", {"x": 1}, None), (" a", {"a": 1}, None), ("a ", {"a": 1}, None), ("A", {"a": 1}, None),
                           ("a", {"A": 1}, None), ("e\u0301", {"\u00e9": 1}, None), ("\u00e9", {"e\u0301": 1}, None), ("a.b.c", {"a": {"b": {"c": 1}}}, None),
                           ("[0]", [1], None), ("length(@)", {"x": 1}, None), ("`1`", {"x": 1}, None), ("'a'", {"a": 1}, None), ("a", {"a": None, "b": 1}, None)]:
        d = G.json_to_enc(doc)
        w = "n" if want is None else G.json_to_enc(want)
        cases.append(("quoted-name", json.dumps(key), d, w))
        cases.append(("quoted-name", "@." + json.dumps(key, ensure_ascii=True), d, w))
    # number spellings inside literals: JSON's own grammar decides (`-0` is the float -0.0; `+5`, `007`, `-01`, `1.`, `.5` are not JSON)
    for text, want in [("-0", G.f64_bits(-0.0)), ("0", "u0"), ("-0.0", G.f64_bits(-0.0)), (" 5 ", "u5"), ("5", "u5"), ("-5", "i-5"), ("1e0", G.f64_bits(1.0)),
                       ("+5", None), ("007", None), ("-01", None), ("1.", None), (".5", None), ("\u00a05", None), ("5\ufeff", None), ("0x5", None), ("1_0", None),
                       ("-", None), ("--5", None), ("5 5", None), ("Infinity", None), ("NaN", None), ("1e", None)]:
        cases.append(("literal-number", "`" + text + "`", "n", want))
    # several spelled forms in ONE expression, in particular a raw string and a JSON literal with the SAME inner text (and the same form twice):
    # each denotes its own value whatever else the expression contains
    shared = ["1", "true", "null", "[1]", "{}", "\"a\"", "-0", "10", "[]", "\"\"", "false", "[1, 2]", "{\"a\": 1}", "\"1\"", "0"]
    for t in shared:
        v = json.loads(t)
        lv = G.f64_bits(-0.0) if t == "-0" else G.json_to_enc(v)
        rv = E.dump(("s", t))
        for expr, want in [("['%s', `%s`]" % (t, t), "[ %s %s ]" % (rv, lv)), ("[`%s`, '%s']" % (t, t), "[ %s %s ]" % (lv, rv)),
                           ("['%s', '%s', `%s`, `%s`]" % (t, t, t, t), "[ %s %s %s %s ]" % (rv, rv, lv, lv)),
                           ("{a: `%s`, b: '%s'}.b" % (t, t), rv), ("{a: '%s', b: `%s`}.b" % (t, t), lv),
                           ("'%s' | `%s`" % (t, t), lv), ("`%s` | '%s'" % (t, t), rv),
                           ("'%s' == `%s`" % (t, t), "t" if isinstance(v, str) and v == t else "f")]:
            cases.append(("multi", expr, "u0", want))
    for _ in range(300 if q else 20000):
        parts, wants = [], []
        for _k in range(rng.randrange(2, 5)):
            if rng.random() < 0.5:
                x = rng.choice([c for c in strs[:400] if raw_spellable(c)] or ["a"])
                parts.append(raw_spell(x))
                wants.append(E.dump(("s", x)))
            else:
                v = rng.choice([1, 0, True, None, "a", [1], {}, "1", [], [None, "x"], {"k": 2}, rng.randrange(-50, 50), rnd_str(rng, 3)])
                parts.append(lit_spell(json.dumps(v, ensure_ascii=rng.random() < 0.5)))
                wants.append(G.json_to_enc(v))
        cases.append(("multi", "[" + ", ".join(parts) + "]", "u0", "[ " + " ".join(wants) + " ]"))
    for bad in ["'abc", "'a\\'", "`1", "`{`", "`[1,]`", "`tru`", '"abc', '"\\ud800"', '"\\x"', '"a\nb"', '"\x01"', "`\"\\ud800\"`", "``", "`1 2`",
                '"a"(@)', "a.'b'"]:
        cases.append(("malformed", bad, "{ }", None))
    # inside a JSON literal only JSON is JSON: raw control characters in a string, and white space other than space / tab / LF / CR around the
    # value, make the literal invalid whatever shape the value has (string, number, keyword, array, object)
    for ctl in ["\t", "\n", "\r", "\x00", "\x01", "\x1f", "\x0b", "\x0c"]:
        for shape in ['"a%sb"', '"%s"', '["a%sb"]', '{"k": "a%sb"}', '{"a%sb": 1}', ' "x%s" ']:
            cases.append(("malformed", "`" + shape % ctl + "`", "{ }", None))
    for ws in ["\u00a0", "\u2003", "\x0b", "\x0c", "\ufeff", "\u2028", "\u0085", "\u3000", "\u200b"]:
        for val in ['"a"', "true", "1", "[1]", "{}", "null", '"a b"']:
            cases.append(("malformed", "`" + ws + val + "`", "{ }", None))
            cases.append(("malformed", "`" + val + ws + "`", "{ }", None))
    for ws in [" ", "\t", "\n", "\r", " \n\t "]:
        for val, want in [('"a"', E.dump(("s", "a"))), ("true", "t"), ("1", "u1"), ("[1]", "[ u1 ]"), ("null", "n")]:
            cases.append(("literal", "`" + ws + val + ws + "`", "u0", want))
    if getattr(ctx, "replay", None):
        cases = [tuple(ctx.replay["case"])]
    impl, model = S.eval_run(ctx, [(c[1], c[2]) for c in cases])
    kinds = {}
    for (kind, e, d, want), i, m in zip(cases, impl, model):
        ctx.evaluations += 1
        kinds[kind] = kinds.get(kind, 0) + 1
        ci, cm = S.canon_eval(i), S.canon_eval(m)
        if any(ch in e for ch in "\\'`\""):
            ctx.nontrivial.add(e)
        case = [kind, e, d, want]
        if want is None:
            if ci != "C E":
                ctx.violation("eval", case, ci[:200], "a parse error", "a malformed quoted form was accepted")
        elif want.startswith("≠"):
            if ci == "ok " + want[1:]:
                ctx.violation("eval", case, ci[:200], "anything but that string", "checker's spellability guard is wrong")     # never expected
        elif kind == "literal" and "d" in [t[:1] for t in want.split(" ")]:
            got = ci[3:] if ci.startswith("ok ") else None
            if got is None or not within(got, want):
                ctx.violation("eval", case, ci[:300], "ok " + want[:300], "a JSON literal does not evaluate to the value it holds")
        elif ci != "ok " + want:
            ctx.violation("eval", case, ci[:300], "ok " + want[:300],
                          {"raw": "the raw-string spelling of a string does not evaluate to it", "literal": "a JSON literal does not evaluate to the value it holds",
                           "multi": "a raw string / JSON literal does not denote its own value when other spelled forms stand in the same expression"}
                          .get(kind, "the identifier does not select the member with exactly that name"))
            continue
        if ci != cm:
            ctx.violation("eval", case, ci[:300], cm[:300], "implementation differs from the model of the lexer")
        if len(ctx.samples) < 8 and ctx.evaluations % 911 == 1:
            ctx.samples.append(dict(kind=kind, expression=e, result=ci[:100]))
    ctx.coverage["kinds"] = kinds
    ctx.coverage["streams"] = ["eval"]


def within(a, b):
    from props.c08 import within_ulps
    return within_ulps(a, b, 2)
