"""C13 — compile and search are pure.  Theorems: lean/JmesVerif/Props/C13.lean."""
import re
import common as C
import gen as G
import streams as S

ID = "C13"
MODULE = "JmesVerif.Props.C13"
THEOREMS = ["C13_history_independent", "C13_from_empty"]
TRUSTED_BASE = [
    "Lean 4.33 kernel; axioms propext, Classical.choice, Quot.sound only",
    "hand-written model Model/Registry.lean (histories over compiled-expression handles) + parser/interpreter models, tied to the code by "
    "the `history` stream of this run; in an immutable model purity largely holds by construction, so the weight is on the stream: the same "
    "histories run against the real code (shared default runtime, shared Rc documents), each search compared with a fresh compile+search "
    "on a fresh copy of the document, and every document re-encoded after the history",
]
ASSUMPTIONS = TRUSTED_BASE
RULE = ("histories of 5-25 operations (compile into / clone / drop / search) over 4 handles, 2-4 documents and a pool of expressions that "
        "includes failing compiles and failing searches (runtime errors midway through projections and function calls). Non-trivial = "
        "distinct history with at least two searches of the same handle separated by other operations.")


def gen(ctx):
    rng = ctx.rng
    n = 1500 if ctx.tier == "quick" else 100000
    eg = G.ExprGen(rng, funcs=True, maxdepth=2)
    cases = []
    for _ in range(n):
        docs = [G.rand_doc(rng, 3) for _ in range(rng.randrange(2, 5))]
        if rng.random() < 0.5:
            # documents that are equal as far as == can tell but not identical (1 vs 1.0, neighbouring doubles, 2^53 vs 2^53+1): anything
            # remembered between calls and looked up by == confuses them
            a = G.rand_doc(rng, 2)
            docs += [a, G.respell_numbers(rng, a)]
            x, y = G.near_pair(rng, 2)
            docs += [x, y]
        pool = [G.spell(rng, eg.expr()) for _ in range(4)] + ["a.", "sort_by(@, &a)", "[*].abs(@)", "length(@)", "@", "foo[?bar > `1`].baz | [0]"]
        # builtins on the current node, on a member, on an expression reference and on a literal: a function that remembers anything between
        # calls (interned results, memo tables keyed too coarsely) shows up as a result that depends on what ran before
        fn = rng.choice(G.BUILTINS)
        pool += [t.replace("F", fn) for t in rng.sample(["F(@)", "F(a)", "F(&a)", "F(`null`)", "F(@, &a)", "F(&a, @)", "[F(@), F(&a), F(`null`)]",
                                                          "F('x')", "F(`[]`)", "F(`{}`)", "F(@, @)", "[*].F(@)"], 4)]
        pool += ["type(@)", "type(&a)"] if rng.random() < 0.3 else []
        # the same inner text inside different delimiters (raw string, JSON literal, quoted identifier): anything keyed on the inner text only mixes them up
        inner = rng.choice(['{"kind":"' + "a" * 30 + '"}', '"' + "b" * 40 + '"', "[1,2,3,4,5,6,7,8,9,10,11,12,13,14,15,16]", '"short"', "12345678901234567890123456789012345"])
        pool += ["'" + inner + "'", "`" + inner + "`", "@ == `" + inner + "`", "@ == '" + inner + "'"]
        # literal-only expressions (constant on every document EXCEPT that a multi-select on null is null), searched on null and non-null documents
        pool += rng.sample(["[`1`, `2`]", "{k: 'v'}", "['a']", "`1`", "[`1`].length(@)", "{a: `1`, b: `[]`}", "[[`1`]]", "'raw'", "`null`", "[`null`]", "{n: `null`}"], 3)
        if rng.random() < 0.6:
            docs.append("n")
        # the same failing expression with ONE whitespace character exchanged (space / newline / tab / carriage return): same length, same
        # offsets, different line and column — compiled and searched back to back
        for pfail in rng.sample(["ab.~", "abs('x')", "a[::0]", "sort_by(@, &a) | b.", "length(`1`)", "a.b.c.", "nope(@)"], 2):
            k = rng.randrange(0, 2)
            pool += [(" " * k) + w + pfail for w in ("\n", " ", "\t", "\r")]
        # expressions with two or more DIFFERENT failing parts: which error surfaces is fixed by the evaluation order, not by chance
        pool += rng.sample(["{a: abs('x'), b: length(`1`), c: nope(@)}", "{z: nope(@), a: abs('x')}", "[abs('x'), length(`1`)]", "{k1: [::0], k2: abs('x'), k3: nope2(@)}",
                            "not_null(abs('x'), length(`1`))", "{b: length(`1`), a: abs('x'), d: keys(`1`), c: values(`1`)}", "[*].{p: abs('x'), q: nope(@)}",
                            "{a: a[::0], b: abs(a)}", "merge({a: abs('x')}, {b: nope(@)})"], 3)
        # respellings of the same expressions that differ only in insignificant whitespace (a memo keyed on a normalised text would
        # hand back the tree — and the offsets — of another spelling, depending on what was compiled before)
        pool += [rng.choice([" ", "  ", "\t", "\n"]) + p for p in rng.sample(pool, 3)] + [p + rng.choice([" ", "\n "]) for p in rng.sample(pool, 2)]
        ops = []
        if rng.random() < 0.4:
            a = rng.choice(["[ %s ]", "[ %s %s ]", "{ s61 %s }", "[ [ %s ] s61 ]", "{ s61 [ %s %s ] s62 n }", "%s"]).replace("%s", "\0")
            while "\0" in a:
                a = a.replace("\0", rng.choice(G.NUM_POOL + ["u3", "u10", G.f64_bits(3.0), G.f64_bits(0.71)]), 1)
            b = G.respell_numbers(rng, a)
            docs += [a, b, b, a]
            # memo probe: one function searched back to back over documents that are ==-equal but not identical
            fn = rng.choice(G.BUILTINS)
            t = rng.choice(["F(@)", "F(@)", "[*].F(@)", "F(@, @)", "F(&@, @)", "F(@, &@)", "F(`\",\"`, @)", "*.F(@)", "F(F(@))"]).replace("F", fn)
            ops.append("c0:%s" % C.hexs(t))
            nd = len(docs)
            for _ in range(rng.randrange(3, 9)):
                ops.append("s0:%d" % rng.choice([nd - 4, nd - 3, nd - 4, nd - 3, nd - 2, nd - 1]))
        if rng.random() < 0.5:
            # a compile that FAILS half-way through a token (unclosed quoted identifier / raw string / literal, bad escape, bad JSON) followed at once
            # by compiles and searches of expressions with quoted tokens: nothing of the failed attempt may leak into the next one
            for _k in range(rng.randrange(1, 4)):
                bad = rng.choice(['foo."bar', "'abc", "`[1,2", 'a."', "x.'y", '`"u', '"a\\x"', "`{\"k\": }`", "'a\\'", '"\\ud800"', "a.b.'unclosed raw", 'length("q'])
                good = rng.choice(['"a"', "'x'", '`"y"`', '"a".b', "{k: 'v', j: `1`}", "[?\"a\" == 'x']", "length('abc')", '"a" || \'d\'', "`[1, 2]`[0]", '@."a"'])
                j = rng.randrange(0, 4)
                ops += ["c%d:%s" % (rng.randrange(0, 4), C.hexs(bad)), "c%d:%s" % (j, C.hexs(good)), "s%d:%d" % (j, rng.randrange(0, len(docs))),
                        "c%d:%s" % (j, C.hexs(good)), "s%d:%d" % (j, rng.randrange(0, len(docs)))]
        if rng.random() < 0.3:
            # a function that FAILS half-way through its input (mixed key types from the 2nd element on, an ill-typed element late in the array)
            # followed by the same and other functions on good input: nothing of the failed evaluation may be left behind
            mixed = "[ { s61 u1 } { s61 s78 } { s61 u0 } ]"
            good1, good2 = "[ { s61 u3 } { s61 u2 } ]", "[ { s61 s62 } { s61 s61 } { s61 s63 } ]"
            nd = len(docs)
            docs += [mixed, good1, good2]
            fexp = rng.choice(["sort_by(@, &a)", "max_by(@, &a)", "min_by(@, &a)", "map(&abs(a), @)", "sort_by(@, &a)[*].a", "[*].abs(a)", "sort(@[*].a)", "sort_by(@, &to_string(a))",
                               "sort_by(@, &a) | length(@)", "map(&sort_by(@, &a), [@, @])"])
            j = rng.randrange(0, 4)
            ops += ["c%d:%s" % (j, C.hexs(fexp))] + ["s%d:%d" % (j, nd + k) for k in (1, 0, 1, 2, 0, 0, 2, 1)]
        if rng.random() < 0.25:
            # the same compiles and searches from different depths of the CALLER's stack (about 1.2 / 2.4 / 4 MiB of ordinary frames below the call):
            # where the caller stands is not an input of compile or search
            for _k in range(rng.randrange(1, 4)):
                j = rng.randrange(0, 4)
                e = C.hexs(rng.choice(pool))
                dd = rng.randrange(0, len(docs))
                ops += ["c%d:%s" % (j, e), "s%d:%d" % (j, dd), "C%d:%s:%d" % (j, e, rng.choice([300, 600, 1000])), "S%d:%d:%d" % (j, dd, rng.choice([300, 600, 1000])),
                        "c%d:%s" % (j, e), "s%d:%d" % (j, dd)]
        for _ in range(rng.randrange(5, 26) if not ops else rng.randrange(0, 6)):
            r = rng.random()
            k = rng.randrange(0, 4)
            if r < 0.3:
                ops.append("c%d:%s" % (k, C.hexs(rng.choice(pool))))
            elif r < 0.4:
                ops.append("l%d:%d" % (k, rng.randrange(0, 4)))
            elif r < 0.48:
                ops.append("x%d" % k)
            else:
                ops.append("s%d:%d" % (k, rng.randrange(0, len(docs))))
        cases.append(";".join(docs) + "\t" + ";".join(ops))
    return cases


def run(ctx):
    cases = [ctx.replay["case"]] if getattr(ctx, "replay", None) else gen(ctx)
    impl = C.run_parallel([ctx.harness, "history"], cases, idle_timeout=20.0)
    # the model has no call stack: `C` / `S` (compile / search underneath extra caller frames) are `c` / `s` to it
    mcases = [re.sub(r"(^|;|\t)S(\d+:\d+):\d+", r"\1s\2", re.sub(r"(^|;|\t)C(\d+:[0-9a-f]*):\d+", r"\1c\2", c)) for c in cases]
    model = C.run_parallel([ctx.driver, "history"], mcases, idle_timeout=60.0)
    nsearch = 0
    seen_compile, seen_search = {}, {}
    for c, i, m in zip(cases, impl, model):
        ctx.evaluations += 1
        parts = (i or "NONE").split("\t")
        outs = parts[0].split(" | ")
        fl = S.kv_fields(parts[1:])
        ops = c.split("\t")[1].split(";")
        searches = [o for o in ops if o.startswith("s")]
        nsearch += len(searches)
        if len(set(searches)) < len(searches):
            ctx.nontrivial.add(c)
        if fl.get("docs") != "same":
            ctx.violation("history", c, (i or "NONE")[:300], "docs=same", "a search changed a document it was given")
            continue
        if fl.get("fresh") != "ok":
            ctx.violation("history", c, (i or "NONE")[:300], "fresh=ok", "a search result differs from a fresh compile+search of the same text and document")
            continue
        # implementation alone, across every history of this run (they share processes, hence any hidden state): the same string always
        # compiles to the same output; the same (string, document) always searches to the same output
        docs = c.split("\t")[0].split(";")
        held = {}
        bad = None
        for o, out in zip(ops, outs):
            if o[0] == "c":
                k, text = o[1:].split(":", 1)
                held[k] = text if out.startswith("ok") else None
                prev = seen_compile.setdefault(text, (out, c))
                if prev[0] != out:
                    bad = (f"compile of {C.unhexs(text)!r} gave {out[:160]}", f"{prev[0][:160]} (as in another history of this run)")
            elif o[0] == "l":
                k, src = o[1:].split(":")
                held[k] = held.get(src)
            elif o[0] == "x":
                held[o[1:]] = None
            elif o[0] == "s":
                k, di = o[1:].split(":")
                if held.get(k) is not None:
                    key = (held[k], docs[int(di)])
                    prev = seen_search.setdefault(key, (out, c))
                    if prev[0] != out:
                        bad = (f"search of {C.unhexs(held[k])!r} gave {out[:160]}", f"{prev[0][:160]} (as in another history of this run)")
            if bad:
                break
        if bad:
            ctx.violation("history", c, bad[0], bad[1], "the result of compile/search depends on what ran before")
            continue
        mo = (m or "NONE").split(" | ")
        ci = [S.canon_eval(x) if x.startswith(("E ", "ok ")) else x for x in outs]
        cm = [S.canon_eval(x) if x.startswith(("E ", "ok ")) else x for x in mo]
        # compile outputs: the whole tree including its offsets (the same string must give the same tree whatever came before);
        # compile errors by class
        norm = lambda x: "E parse" if x.startswith("E parse") else x
        if [norm(x) for x in ci] != [norm(x) for x in cm]:
            k = next((j for j, (a, b) in enumerate(zip(ci, cm)) if norm(a) != norm(b)), 0)
            ctx.violation("history", c, f"op {k} ({ops[k] if k < len(ops) else '?'}): {ci[k][:200] if k < len(ci) else '?'}",
                          f"{cm[k][:200] if k < len(cm) else '?'}", "history output differs from the stateless model")
        if len(ctx.samples) < 4 and ctx.evaluations % 211 == 1:
            ctx.samples.append(dict(history=c[:300], outputs=outs[:8]))
    # a clone of a compiled expression behaves as the original, also when it was compiled by a runtime with its own registry
    # (implementation alone: the registry stream run twice, once searching through `expr.clone()` after dropping the original)
    if not getattr(ctx, "replay", None):
        import props.c15 as c15
        rc = [c15.encode(c) for c in c15.gen(ctx)[:400 if ctx.tier == "quick" else 20000]]
        a = C.run_parallel([ctx.harness, "registry"], rc)
        b = C.run_parallel([ctx.harness, "registryclone"], rc)
        for line, x, y in zip(rc, a, b):
            ctx.evaluations += 1
            if x != y:
                ctx.violation("registryclone", line[:600], (y or "NONE")[:300], (x or "NONE")[:300],
                              "searching through a clone of a compiled expression differs from searching the expression itself")
        # one runtime, one document: the same query text asked at different points of the history gets the same answer
        for line, x in zip(rc, a):
            qs_ = line.split("\t")[2].split(",")
            rs_ = (x or "").split(" | ")
            if len(rs_) == len(qs_):
                first = {}
                for q_, r_ in zip(qs_, rs_):
                    if q_ in first and first[q_] != r_:
                        ctx.violation("registry", line[:600], "%s: %s" % (C.unhexs(q_), r_[:200]), "%s: %s" % (C.unhexs(q_), first[q_][:200]),
                                      "the same expression on the same runtime and document answered differently later in the history")
                        break
                    first.setdefault(q_, r_)
        # the same histories with unrelated compiles and searches on the shared default runtime interleaved (same texts, every builtin called):
        # what a custom runtime's expression returns does not depend on what happened on another runtime before
        nz = C.run_parallel([ctx.harness, "registrynoise"], rc)
        for line, x, y in zip(rc, a, nz):
            ctx.evaluations += 1
            if x != y:
                ctx.violation("registrynoise", line[:600], (y or "NONE")[:300], (x or "NONE")[:300],
                              "results on a custom runtime change when unrelated searches run on the default runtime in between")
    ctx.coverage["searches"] = nsearch
    ctx.coverage["streams"] = ["history"]
