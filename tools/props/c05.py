"""C05 — compile and search are total: no panic, abort or hang.  Theorems: lean/JmesVerif/Props/C05.lean."""
import common as C
import gen as G
import streams as S

ID = "C05"
MODULE = "JmesVerif.Props.C05"
THEOREMS = ["C05_parser_fuel_sufficient", "C05_lexer_fuel_stable", "C05_number_tokens_no_overflow", "C05_slice_total",
            "C05_builtins_no_unreachable", "C05_validator_no_panic", "C05_search_terminates", "C05_interp_fuel_monotone",
            "C05_omega_diverges", "C05_translated_code_no_fault"]
TRUSTED_BASE = [
    "Lean 4.33 kernel; axioms propext, Classical.choice, Quot.sound only",
    "hand-written models (lexer, parser, interpreter, slices, builtins) tied to the code by the parse/eval/slice streams of this run; every "
    "implementation call runs under catch_unwind in a child process whose death (stack overflow = abort) or silence (hang) is attributed to a case",
    "partial by nature: stack size and wall-clock time are runtime quantities; the model carries recursion depth (fuel) and loop bounds, not "
    "bytes or seconds. Aborts on inputs deeper than 1000 nesting levels (F12) and the self-applying expression reference (F13) are known findings.",
]
ASSUMPTIONS = TRUSTED_BASE
RULE = ("expression strings: corpus; near-misses, token soup, character soup over delimiters / backslashes / digits / multi-byte / astral / control "
        "characters, quoted-form soup (unterminated and malformed raw strings, literals, quoted identifiers), extreme numeric tokens (indexes, "
        "slice bounds, steps at and beyond the i32 edge), nesting probes at depths 10..100000 for every recursive construct; (expression, "
        "document) pairs with deep and wide documents and extreme numbers. Outcome must be Ok or a JmespathError. Non-trivial = distinct case.")

I32 = 2147483647
PROBE_DEPTHS_OK = [10, 100, 500, 1000]
PROBE_DEPTHS_DEEP = [5000, 20000, 100000]


def probes(depth):
    d = depth
    return [
        ("paren", "(" * d + "a" + ")" * d),
        ("not", "!" * d + "a"),
        ("dot-chain", ".".join(["a"] * d)),
        ("index-chain", "a" + "[0]" * d),
        ("multilist", "[" * d + "a" + "]" * d),
        ("filter", "a" + "[?b" * min(d, 50000) + "]" * min(d, 50000)),
        ("pipe-chain", " | ".join(["a"] * d)),
        ("or-chain", " || ".join(["a"] * d)),
        ("call", "to_array(" * d + "a" + ")" * d),
        ("hash", "{a:" * d + "b" + "}" * d),
        ("flatten-chain", "a" + "[]" * d),
        ("unclosed-paren", "(" * d + "a"),
        ("literal-nest", "`" + "[" * d + "]" * d + "`"),
    ]


def numeric_extremes():
    xs = [I32, I32 + 1, -I32, -I32 - 1, I32 - 1, 4294967296, 9223372036854775807, 9223372036854775808, 18446744073709551616,
          10 ** 30, 0, -1, 1]
    out = []
    for x in xs:
        out += [f"[{x}]", f"a[{x}]", f"[{x}:]", f"[:{x}]", f"[::{x}]", f"[{x}:{-x}:{x}]", f"[1::{x}]", f"[-1::{x}]", f"`{x}`", f"`{x}.5e{x % 400}`",
                f"[?@ > `{x}`]", f"a[{x}][{x}:{x}:{x}]"]
    out += ["[--1]", "[-]", "[-0]", "[1-]", "[0x10]", "[1e3]", "[1.5]", "[٣]", "[-٣]", "[²]", "-", "--", "0-0", "[-" + "9" * 400 + "]", "[" + "9" * 400 + "]"]
    return out


def malformed_quoted():
    outs = []
    for q in ["'", "`", '"']:
        for body in ["", "a", "\\", "\\\\", "a\\", "\\" + q, "a\\" + q + "b", "\\u", "\\u12", "\\ud83d", "\\ud83d\\u0041", "\\udc00", "퟿",
                     "\x00", "\x1f", "\n", "é😀", "{", "[1,", "{\"a\":", "1e999", "-", "tru", "nul", "\"", "'", "`", "\\x"]:
            outs.append(q + body)
            outs.append(q + body + q)
            outs.append("a." + q + body + q + " | b")
        # long unclosed forms: an error message that quotes a prefix of the text must cut it at a character boundary
        for k in list(range(28, 44)) + [62, 63, 64, 126, 127, 254, 255]:
            for ch in ["é", "😀", "中", "\u0301"]:
                outs.append(q + "a" * k + ch * 12)
                outs.append("foo." + q + ch * 3 + "b" * k + ch * 5)
    # the CONTENT of a JSON literal / quoted identifier must be JSON: raw control characters inside a string, and white space other than
    # space / tab / LF / CR around the value, are errors for every shape of value
    for ctl in ["\t", "\n", "\r", "\x00", "\x01", "\x1f", "\x0b", "\x0c", "\x7f"]:
        for shape in ['`"a%sb"`', '`"%s"`', '`["a%sb"]`', '`{"k": "a%sb"}`', '` "x%s" `', '"a%sb"', '"%s"', 'a."x%s" | b']:
            outs.append(shape % ctl)
    for ws in ["\u00a0", "\u2003", "\x0b", "\x0c", "\ufeff", "\u2028", "\u0085", "\u3000", "\u200b", " ", "\t", "\n", "\r"]:
        for val in ['"a"', "true", "1", "[1]", "{}", "null"]:
            outs.append("`" + ws + val + "`")
            outs.append("`" + val + ws + "`")
            outs.append("`[" + ws + val + ws + "]`")
    return outs


def gen_parse(ctx):
    rng = ctx.rng
    q = ctx.tier == "quick"
    out = [("corpus", S.corpus_expr(l)) for l in S.load_corpus("C05") if not l.startswith("eval\t")]
    out += [("num", e) for e in numeric_extremes()]
    out += [("quoted", e) for e in malformed_quoted()]
    out += S.expr_cases(ctx, 500 if q else 50000, 1500 if q else 200000, 1000 if q else 150000, 2500 if q else 400000, 1500 if q else 200000)
    uni = ["\u0000", "‏", "́", "\U0001F600", "\U0010FFFF", "﻿", " ", "é", "ß", "中", "\x7f", "\x85"]
    for _ in range(500 if q else 100000):
        out.append(("unicode", "".join(rng.choice(uni + G.CHARS) for _ in range(rng.randrange(1, 10)))))
    return out


def gen_eval(ctx):
    rng = ctx.rng
    q = ctx.tier == "quick"
    out = []
    for l in S.load_corpus("C05"):
        if l.startswith("eval\t"):
            _, e, d = l.split("\t", 2)
            out.append((e, d))
    arrs = ["[ ]", "[ u1 ]", "[ u1 u2 u3 ]", "[ " + " ".join("u%d" % i for i in range(40)) + " ]"]
    for e in numeric_extremes():
        for a in arrs:
            out.append((e, a))
            out.append((e, "{ s61 " + a + " }"))
    deep = "u1"
    for _ in range(200):
        deep = "[ " + deep + " ]"
    wide = "[ " + " ".join(G.f64_bits(1e308) for _ in range(50)) + " ]"
    big = ["u18446744073709551615", "i-9223372036854775808", G.f64_bits(1.7976931348623157e308), G.f64_bits(5e-324), deep, wide,
           "[ " + " ".join(rng.choice(G.NUM_POOL) for _ in range(30)) + " ]", "{ " + " ".join(G.enc_str("k%03d" % i) + " u%d" % i for i in range(60)) + " }"]
    fexprs = ["sum(@)", "avg(@)", "abs(@)", "ceil(@)", "floor(@)", "max(@)", "min(@)", "sort(@)", "to_string(@)", "to_number(to_string(@))",
              "length(@)", "reverse(@)", "[]", "[][][][]", "@[*][*][*]", "*", "values(@)", "keys(@)", "merge(@, @)", "join('-', @)",
              "[?@ > `0`]", "sort_by(@, &@)", "max_by(@, &@)", "map(&abs(@), @)", "@ == @", "@ < `1e308`", "[::-1]", "not_null(@, @)"]
    for d in big:
        for e in fexprs:
            out.append((e, d))
    # arithmetic at the edges of the integer ranges: all-integer arrays whose exact sum / mean leaves i64, u64 or 2^53
    ext = ["u9223372036854775807", "i-9223372036854775808", "u18446744073709551615", "u9223372036854775808", "u1", "i-1", "u9007199254740993",
           "u4611686018427387904", "i-4611686018427387905", "u0", G.f64_bits(0.5), G.f64_bits(9.223372036854775807e18)]
    for _ in range(300 if q else 20000):
        xs = "[ " + " ".join(rng.choice(ext[:10] if rng.random() < 0.7 else ext) for _ in range(rng.randrange(1, 6))) + " ]"
        out.append((rng.choice(["sum(@)", "avg(@)", "max(@)", "min(@)", "sort(@)", "map(&abs(@), @)", "map(&ceil(@), @)", "map(&floor(@), @)", "sum(@) > `0`",
                                "to_string(sum(@))", "sort_by(@, &@)", "[?@ < `0`]", "map(&to_number(to_string(@)), @)", "length(to_string(@))"]), xs))
    # long arrays of numbers a few ulps apart (equal for the tolerant ==, different for <): an ordering that is not a total order
    # makes a sorting routine misbehave or panic only on larger inputs
    import struct as _st
    for _ in range(120 if q else 6000):
        base = rng.choice([0.3, 1.0, 1e16, 123456.789, 2.0 ** 60, 0.1 + 0.2, 1e-300])
        bits = _st.unpack("<Q", _st.pack("<d", base))[0]
        n = rng.choice([21, 24, 33, 40, 64, 100])
        xs = ["d%016x" % (bits + rng.randrange(0, 4)) for _ in range(n)]
        doc = "[ " + " ".join(xs) + " ]"
        out.append((rng.choice(["sort(@)", "sort_by(@, &@)", "max(@)", "min(@)", "sort(@) | [0]", "sort_by(@, &@)[-1]", "max_by(@, &@)", "reverse(sort(@))",
                                "[?@ <= `0.3`] | sort(@)", "sort(@) == sort(reverse(@))"]), doc))
    # every string function on every pair of short strings mixing 1-, 2-, 3- and 4-byte characters: byte lengths, character counts and
    # character boundaries all disagree here, so any byte-offset arithmetic on text (slicing at len(a) - len(b), comparing lengths) shows
    us = ["", "a", "go", "ab", "é", "éa", "aé", "日本語", "日本", "本語", "語", "😀", "a😀", "😀a", "メモ", ".txt", "日本語.txt", "ß", "ﬃ", "e\u0301", "\u0301",
          "aaé", "éé", "😀😀", "\ufeff", "\u00a0x"]
    for a in us:
        for b in us:
            d = "{ s61 " + G.enc_str(a) + " s62 " + G.enc_str(b) + " }"
            for e in (["starts_with(a, b)", "ends_with(a, b)", "contains(a, b)"] if q else
                      ["starts_with(a, b)", "ends_with(a, b)", "contains(a, b)", "join(a, [b, a, b])", "[a, b] | sort(@)", "max([a, b])", "a < b", "a == b",
                       "reverse(a) == b", "length(a) > length(b)", "contains([a], b)", "join(b, [a, a])"]):
                out.append((e, d))
    for a in us:
        d = "{ s61 " + G.enc_str(a) + " }"
        for e in ["reverse(a)", "length(a)", "to_string(a)", "to_number(a)", "to_array(a)", "join(a, [a, a, a])", "sort([a, 'b', a])", "type(a)", "a.b", "a[0]", "a[::-1]",
                  "contains(a, a)", "starts_with(a, a)", "ends_with(a, a)", "max_by([a, a], &@)", "{k: a}.k", "[?a]", "not_null(a)", "keys({k: a})", "merge({k: a}, {j: a})"]:
            out.append((e, d))
    # strings handed to to_number: everything another number parser (Rust's, C's) would accept although JSON does not — non-finite spellings,
    # out-of-range exponents, hexadecimal, digit separators — in any case, signed, padded
    for body in ["inf", "infinity", "nan", "Infinity", "NaN", "INF", "iNf", "1e400", "1E+999", "1.8e308", "1e309", "4.9e-325", "1e-400", "0x10", "1_000", "1e", ".5", "5.",
                 "0b1", "1f", "1d", "١", "９", "1e+", "--1", "+-1", "1 2", "", " ", "e", "-", "+", ".", "0e0", "-0e-0", "1" + "0" * 400, "0." + "0" * 400 + "1", "1e1e1"]:
        for sign in ["", "-", "+"]:
            for padl, padr in [("", ""), (" ", ""), ("", "\n")]:
                t = padl + sign + body + padr
                out.append(("to_number(@)", G.enc_str(t)))
                out.append(("map(&to_number(@), @)", "[ " + G.enc_str(t) + " u1 ]"))
    # functions that evaluate expression references, nested in each other and in themselves (anything kept per function across the evaluation of
    # its own expression reference — scratch buffers, borrowed cells, locks — is re-entered here)
    byf = ["sort_by", "max_by", "min_by", "map"]
    nd = "[ { s61 u2 s6d [ { s61 u3 } { s61 u1 } ] } { s61 u1 s6d [ { s61 u5 } ] } { s61 u3 s6d [ ] } ]"
    def call(fn, body, arr):
        return "map(&%s, %s)" % (body, arr) if fn == "map" else "%s(%s, &%s)" % (fn, arr, body)
    for f1 in byf:
        for f2 in byf:
            inner = call(f2, "a", "m")
            sel = {"sort_by": "[0].a", "max_by": ".a", "min_by": ".a", "map": "[0]"}[f2]
            out.append((call(f1, inner + sel, "@"), nd))
            out.append((call(f1, "not_null(" + inner + sel + ", `0`)", "@"), nd))
            out.append((call(f1, "a", call(f2, "a", "@") if f2 in ("sort_by",) else "@"), nd))
            for f3 in byf:
                out.append((call(f1, "not_null(" + call(f2, "not_null(" + call(f3, "a", "m") + "[0].a, `0`)" if f3 in ("sort_by", "map") else "a", "m") + sel + ", `0`)", "@"), nd))
    eg = G.ExprGen(rng, funcs=True)
    for _ in range(2000 if q else 300000):
        out.append((G.spell(rng, eg.expr()), rng.choice(big) if rng.random() < 0.2 else G.rand_doc(rng, 3)))
    return out


def ntokens(e):
    return len(e) // 2


def depth_estimate(e):
    """an upper estimate of how deep the syntax tree of `e` nests or chains: bracket nesting plus the number of prefix / infix / postfix
    operators chained at one level since the last comma (a wide list `[a, a, …]` or `f(a, a, …)` has depth 1 however long it is)"""
    level, best = 0, 0
    chain = [0]
    i, n = 0, len(e)
    while i < n:
        c = e[i]
        if c in "'`\"":
            j = i + 1
            while j < n and e[j] != c:
                j += 2 if e[j] == "\\" else 1
            i = j + 1
            continue
        if c in "([{":
            chain[-1] += 1
            level += 1
            chain.append(0)
        elif c in ")]}":
            if level:
                level -= 1
                chain.pop()
        elif c == ",":
            chain[-1] = 0
        elif c in ".|&!<>=":
            chain[-1] += 1
        best = max(best, level + chain[-1])
        i += 1
    return best


def run(ctx):
    listed = {k["id"]: k for k in ctx.known if k.get("status") == "known"}
    kinds = dict(ok=0, error=0, panic=0, abort=0, hang=0)
    known12 = known13 = None

    def judge(stream, case, expr, out, model_out=None):
        nonlocal known12, known13
        ctx.evaluations += 1
        ctx.nontrivial.add(str(case)[:500])
        o = out or "NONE"
        if o.startswith("ok ") or o.startswith("ok\t") or o == "ok":
            kinds["ok"] += 1
        elif o.startswith("E ") or o.startswith("C E "):
            kinds["error"] += 1
        elif o.startswith("PANIC"):
            kinds["panic"] += 1
            ctx.violation(stream, case, o[:200] + " = " + (C.unhexs(o.split(" ")[1]) if " " in o else ""), "Ok or a JmespathError", "panic")
        elif o.startswith("ABORT") or o.startswith("HANG") or o == "NONE":
            kinds["abort" if o.startswith("ABORT") else "hang"] += 1
            if depth_estimate(expr) > 1000:
                known12 = known12 or (expr[:40] + "…", len(expr))
                if "F12" not in listed:
                    ctx.violation(stream, case if len(str(case)) < 400 else ["<long>", len(expr)], o, "Ok or a JmespathError", "abort on deep nesting; not listed")
            elif model_out is not None and model_out.startswith("FAULT fuel"):
                known13 = known13 or expr
                if "F13" not in listed:
                    ctx.violation(stream, case, o, "termination", "unbounded recursion; not listed")
            else:
                ctx.violation(stream, case if len(str(case)) < 2000 else ["<long>", len(expr)], o, "Ok or a JmespathError",
                              "process abort / hang on a short input (model recursion depth is small)")
        else:
            ctx.violation(stream, case, o[:200], "Ok or a JmespathError", "unrecognised outcome")

    if getattr(ctx, "replay", None):
        st, case = ctx.replay["stream"], ctx.replay["case"]
        if st == "parse":
            out = C.run_exec([ctx.harness, "parse"], [C.hexs(case)])
            judge("parse", case, case, out[0])
        else:
            out = C.run_exec([ctx.harness, "eval"], [C.hexs(case[0]) + "\t" + case[1]])
            mo = C.run_exec([ctx.driver, "eval"], [C.hexs(case[0]) + "\t" + case[1]], idle_timeout=60)
            judge("eval", case, case[0], out[0], mo[0])
        return
    # 1. parse stream ---------------------------------------------------------------------
    pc = gen_parse(ctx)
    lines = [C.hexs(e) for _, e in pc]
    impl = C.run_parallel([ctx.harness, "parse"], lines)
    model = C.run_parallel([ctx.driver, "parse"], lines, idle_timeout=60)
    for (k, e), o, m in zip(pc, impl, model):
        judge("parse", e, e, o)
        mo = (m or "NONE").split("\t")[0]
        if (o or "").startswith("ok ") != mo.startswith("ok ") and not mo.startswith(("FAULT", "ABORT", "NONE", "HANG")) and (o or "").startswith(("ok ", "E ")):
            pass    # acceptance differences are C03's subject
    # 2. nesting probes: shallow ones must work, deep ones may only fall into the known class ----
    pr = []
    for d in PROBE_DEPTHS_OK + (PROBE_DEPTHS_DEEP if True else []):
        for name, e in probes(d):
            pr.append((name, d, e))
    # wide probes: long but FLAT expressions (nesting depth 1) — nothing recursive should depend on their length
    for wdt in [3000, 30000, 120000, 300000]:
        for name, e in [("wide-list", "[" + ", ".join(["a"] * wdt) + "]"), ("wide-args", "not_null(" + ", ".join(["a"] * wdt) + ")"),
                        ("wide-hash", "{" + ", ".join("k%d: a" % i for i in range(wdt)) + "}"), ("wide-literal", "`[" + ",".join(["1"] * wdt) + "]`"),
                        ("wide-dot-list", "a.[" + ", ".join(["b"] * wdt) + "]"), ("wide-raw", "'" + "x" * wdt + "'")]:
            pr.append((name, wdt, e))
    # run one per process batch so an abort is attributed exactly
    outs = C.run_exec([ctx.harness, "eval"], [C.hexs(e) + "\t" + "{ s61 [ { s62 [ u1 ] } ] }" for _, _, e in pr], idle_timeout=60)
    for (name, d, e), o in zip(pr, outs):
        judge("eval", [f"<{name} probe depth {d}>", len(e)] if len(e) > 300 else [e, "{ s61 [ { s62 [ u1 ] } ] }"], e, o)
    ctx.coverage["probe_depths"] = PROBE_DEPTHS_OK + PROBE_DEPTHS_DEEP
    # 3. eval stream -------------------------------------------------------------------------
    ec = gen_eval(ctx)
    impl, model = S.eval_run(ctx, ec)
    for (e, d), o, m in zip(ec, impl, model):
        judge("eval", [e, d] if len(d) < 400 else [e, d[:100] + "…"], e, o, (m or "").split("\t")[0])
    # the divergent expression (F13) -------------------------------------------------------
    om = ("to_array(not_null(&map(@[0], [@]))) | map(@[0], [@])", "u1")
    o = C.run_exec([ctx.harness, "eval"], [C.hexs(om[0]) + "\t" + om[1]], idle_timeout=30)
    mo = C.run_exec([ctx.driver, "eval"], [C.hexs(om[0]) + "\t" + om[1]], idle_timeout=60)
    judge("eval", list(om), om[0], o[0], (mo[0] or "").split("\t")[0])
    if known12 and "F12" in listed:
        ctx.known_hit("F12", f"{listed['F12']['what']} (e.g. {known12[0]!r}, {known12[1]} characters)")
    if known13 and "F13" in listed:
        ctx.known_hit("F13", f"{listed['F13']['what']} (e.g. {known13!r})")
    ctx.coverage["outcomes"] = kinds
    ctx.coverage["streams"] = ["parse", "eval", "nesting probes"]
    ctx.samples += [dict(kind=k, expression=e[:80]) for k, e in pc[:3]] + [dict(expression=e[:80], document=d[:60]) for e, d in ec[:3]]
