"""C06 — built-in functions enforce their signatures.  Theorems: lean/JmesVerif/Props/C06.lean.
The oracle below is written from the JMESPath function specification (not from the model)."""
import itertools
import common as C
import gen as G
import streams as S

ID = "C06"
MODULE = "JmesVerif.Props.C06"
THEOREMS = ["C06_signature_table", "C06_registration_table", "C06_validate_arity", "C06_validate_ok_iff", "C06_validate_type",
            "C06_class_level", "C06_result_type", "C06_no_unreachable", "C06_expref_args_shape"]
TRUSTED_BASE = [
    "Lean 4.33 kernel; axioms propext, Classical.choice, Quot.sound only",
    "tools/translate.py (regex extraction of every defn!(…) and register_function(…) line into Generated/Signatures.lean, re-run on every check)",
    "hand-written model of Signature::validate / ArgumentType::is_valid / the 26 builtins (Model/Interp.lean) tied to the code by the class-level "
    "decision table of this run; C06_class_level lifts that finite table to all values",
    "the Python table SPEC below (declared signatures and result types of the JMESPath function specification) as the independent oracle",
]
ASSUMPTIONS = TRUSTED_BASE
RULE = ("the class-level decision table: 26 builtins x argument counts 0..declared+2 x the 10 argument classes per position (null, boolean, number, "
        "string, empty array, number array, string array, mixed array, object, expression reference); quick = all cells for counts <= 3 "
        "plus a PRNG sample of the wider cells, thorough = every cell (exhaustive); plus unregistered names. Each cell is judged by the "
        "specification table (arity error / invalid-type error at the first bad position with declared and actual type names / success "
        "with a result of a declared type) and compared with the model. Non-trivial = distinct cell.")

N, B, NUM, STR, AE, AN, AS, AM, OBJ, XR = "null", "boolean", "number", "string", "array0", "array_n", "array_s", "array_m", "object", "expref"
CLASSES = [N, B, NUM, STR, AE, AN, AS, AM, OBJ, XR]
DOCVAL = {N: "n", B: "t", NUM: "i-3", STR: G.enc_str("ab"), AE: "[ ]", AN: "[ u3 u1 " + G.f64_bits(2.5) + " ]",
          AS: "[ " + G.enc_str("b") + " " + G.enc_str("a") + " ]", AM: "[ u1 " + G.enc_str("a") + " n ]", OBJ: "{ " + G.enc_str("k") + " u1 }"}
TYPEOF = {N: "null", B: "boolean", NUM: "number", STR: "string", AE: "array", AN: "array", AS: "array", AM: "array", OBJ: "object", XR: "expref"}

ANY = set(CLASSES)
ARR = {AE, AN, AS, AM}
ARR_NUM = {AE, AN}
ARR_STR = {AE, AS}
ALLT = ["null", "string", "number", "boolean", "array", "object", "expref"]
# name: (inputs [(accepted classes, display name)], variadic or None, result types)
SPEC = {
    "abs": ([({NUM}, "number")], None, ["number"]),
    "avg": ([(ARR_NUM, "array[number]")], None, ["number", "null"]),
    "ceil": ([({NUM}, "number")], None, ["number"]),
    "contains": ([({STR} | ARR, "string|array"), (ANY, "any")], None, ["boolean"]),
    "ends_with": ([({STR}, "string"), ({STR}, "string")], None, ["boolean"]),
    "floor": ([({NUM}, "number")], None, ["number"]),
    "join": ([({STR}, "string"), (ARR_STR, "array[string]")], None, ["string"]),
    "keys": ([({OBJ}, "object")], None, ["array"]),
    "length": ([(ARR | {OBJ, STR}, "array|object|string")], None, ["number"]),
    "map": ([({XR}, "expref"), (ARR, "array")], None, ["array"]),
    "max": ([(ARR_STR | ARR_NUM, "array[string]|array[number]")], None, ["number", "string", "null"]),
    "min": ([(ARR_STR | ARR_NUM, "array[string]|array[number]")], None, ["number", "string", "null"]),
    "max_by": ([(ARR, "array"), ({XR}, "expref")], None, ALLT),
    "min_by": ([(ARR, "array"), ({XR}, "expref")], None, ALLT),
    "merge": ([({OBJ}, "object")], ({OBJ}, "object"), ["object"]),
    "not_null": ([(ANY, "any")], (ANY, "any"), ALLT),
    "reverse": ([(ARR | {STR}, "array|string")], None, ["array", "string"]),
    "sort": ([(ARR_STR | ARR_NUM, "array[string]|array[number]")], None, ["array"]),
    "sort_by": ([(ARR, "array"), ({XR}, "expref")], None, ["array"]),
    "starts_with": ([({STR}, "string"), ({STR}, "string")], None, ["boolean"]),
    "sum": ([(ARR_NUM, "array[number]")], None, ["number"]),
    "to_array": ([(ANY, "any")], None, ["array"]),
    "to_number": ([(ANY, "any")], None, ["number", "null"]),
    "to_string": ([(ANY - {XR}, "object|array|boolean|number|string|null")], None, ["string"]),
    "type": ([(ANY, "any")], None, ["string"]),
    "values": ([({OBJ}, "object")], None, ["array"]),
}


def expected(name, classes):
    """('arity', kind, exp, act) | ('type', pos, expected-name, actual) | ('ok', result types)"""
    inputs, var, res = SPEC[name]
    n, d = len(classes), len(inputs)
    if var is None:
        if n < d:
            return ("arity", "not-enough", d, n)
        if n > d:
            return ("arity", "too-many", d, n)
    elif n < d:
        return ("arity", "not-enough", d, n)
    for k, c in enumerate(classes):
        acc, disp = inputs[k] if k < d else var
        if c not in acc:
            return ("type", k, disp, TYPEOF[c])
    return ("ok", res)


def cells(ctx):
    rng = ctx.rng
    out = []
    for name, (inputs, var, res) in SPEC.items():
        d = len(inputs)
        for n in range(0, d + 3):
            combos = itertools.product(CLASSES, repeat=n)
            if ctx.tier == "thorough" or n <= 3:
                for cs in combos:
                    out.append((name, cs))
            else:
                allc = list(combos)
                for cs in rng.sample(allc, min(len(allc), 60)):
                    out.append((name, cs))
    return out


def to_case(name, classes):
    args, docparts = [], []
    for k, c in enumerate(classes):
        if c == XR:
            args.append("&k")
        else:
            args.append("a%d" % k)
            docparts.append(G.enc_str("a%d" % k) + " " + DOCVAL[c])
    return name + "(" + ", ".join(args) + ")", "{ " + " ".join(docparts) + " }" if docparts else "{ }"


def result_type(enc):
    t = enc.split(" ")[0]
    return {"n": "null", "t": "boolean", "f": "boolean", "[": "array", "{": "object", "x": "expref"}.get(t) or {"u": "number", "i": "number", "d": "number", "s": "string"}[t[0]]


def run(ctx):
    cs = cells(ctx)
    if getattr(ctx, "replay", None):
        cs = [(ctx.replay["case"][0], tuple(ctx.replay["case"][1]))]
    cases = [to_case(n, c) for n, c in cs]
    # unregistered names
    unk = [("nope(a0)", "{ }"), ("Abs(a0)", "{ }"), ("sortby(@, &a)", "[ ]"), ("to_array(nope2(@))", "u1")]
    impl, model = S.eval_run(ctx, cases + unk)
    outcome = dict(arity=0, type=0, ok=0, ok_internal=0)
    for (name, classes), (e, d), i, m in zip(cs, cases, impl, model):
        ctx.evaluations += 1
        ctx.nontrivial.add((name, classes))
        ci, cm = S.canon_eval(i), S.canon_eval(m)
        exp = expected(name, classes)
        outcome[exp[0]] += 1
        case = [name, list(classes), e, d]
        if exp[0] == "arity":
            want = f"E runtime {exp[1]} exp={exp[2]} act={exp[3]} off={len(name)}"
            if ci != want:
                ctx.violation("eval", case, ci[:300], want, "wrong number of arguments must be the invalid-arity error")
                continue
        elif exp[0] == "type":
            want = f"E runtime invalid-type exp={C.hexs(exp[2])} act={C.hexs(exp[3])} pos={exp[1]} off={len(name)}"
            if ci != want:
                ctx.violation("eval", case, ci[:300], want, "an argument outside the declared parameter type must be the invalid-type error of the first offending position")
                continue
        else:
            if ci.startswith("E runtime") and any(k in ci for k in ("not-enough", "too-many", "invalid-type", "unknown-function")):
                ctx.violation("eval", case, ci[:300], "no arity/type/unknown-function error (the arguments satisfy the signature)")
                continue
            if ci.startswith("ok "):
                rt = result_type(ci[3:])
                if rt not in exp[1]:
                    ctx.violation("eval", case, ci[:300], f"a result of type {exp[1]}", "result type outside the function's declared result type")
                    continue
            elif ci == "E parse parse off=0":
                outcome["ok_internal"] += 1
            elif not ci.startswith("E runtime invalid-return-type"):
                ctx.violation("eval", case, ci[:300], "a value of the declared result type")
                continue
        if ci != cm:
            ctx.violation("eval", case, ci[:300], cm[:300], "implementation differs from the model of the signature validator")
        if len(ctx.samples) < 6 and ctx.evaluations % 1777 == 1:
            ctx.samples.append(dict(call=e, document=d, expected=list(exp)[:3], implementation=ci[:120]))
    for (e, d), i in zip(unk, impl[len(cases):]):
        ctx.evaluations += 1
        if "unknown-function" not in (i or ""):
            ctx.violation("eval", [e, d], (i or "NONE")[:300], "unknown-function error")
    ctx.coverage["cells_by_expected_outcome"] = outcome
    ctx.coverage["exhaustive"] = ctx.tier == "thorough"   # quick: every cell with <= 3 arguments, a sample of the 4-argument cells
    ctx.coverage["streams"] = ["eval"]
