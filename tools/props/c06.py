"""C06 — built-in functions enforce their signatures.  Theorems: lean/JmesVerif/Props/C06.lean.
The oracle below is written from the JMESPath function specification (not from the model)."""
import itertools
import common as C
import gen as G
import streams as S

ID = "C06"
MODULE = "JmesVerif.Props.C06"
THEOREMS = ["C06_signature_table", "C06_registration_table", "C06_validate_arity", "C06_validate_ok_iff", "C06_validate_type",
            "C06_class_level", "C06_result_type", "C06_no_unreachable", "C06_expref_args_shape", "C06_type_vocabulary", "C06_translated_validate_arity", "C06_translated_validator"]
TRUSTED_BASE = [
    "Lean 4.33 kernel; axioms propext, Classical.choice, Quot.sound only",
    "tools/translate.py (regex extraction of every defn!(…) and register_function(…) line into Generated/Signatures.lean, re-run on every check)",
    "hand-written model of Signature::validate / ArgumentType::is_valid / the 26 builtins (Model/Interp.lean) tied to the code by the class-level "
    "decision table of this run; C06_class_level lifts that finite table to all values",
    "the Python table SPEC below (declared signatures and result types of the JMESPath function specification) as the independent oracle",
]
ASSUMPTIONS = TRUSTED_BASE
RULE = ("the class-level decision table: 26 builtins x argument counts 0..declared+2 x the 10 argument classes per position (null, boolean, number, "
        "string, empty array, number array, string array, mixed array, object, expression reference); quick = all cells for counts <= 3 "
        "plus a PRNG sample of the wider cells, thorough = every cell (exhaustive); plus unregistered names. Each cell is judged by the "
        "specification table (arity error / invalid-type error at the first bad position with declared and actual type names / success "
        "with a result of a declared type) and compared with the model. Non-trivial = distinct cell.")

N, B, NUM, STR, AE, AN, AS, AM, OBJ, XR = "null", "boolean", "number", "string", "array0", "array_n", "array_s", "array_m", "object", "expref"
CLASSES = [N, B, NUM, STR, AE, AN, AS, AM, OBJ, XR]
DOCVAL = {N: "n", B: "t", NUM: "i-3", STR: G.enc_str("ab"), AE: "[ ]", AN: "[ u3 u1 " + G.f64_bits(2.5) + " ]",
          AS: "[ " + G.enc_str("b") + " " + G.enc_str("a") + " ]", AM: "[ u1 " + G.enc_str("a") + " n ]", OBJ: "{ " + G.enc_str("k") + " u1 }"}
TYPEOF = {N: "null", B: "boolean", NUM: "number", STR: "string", AE: "array", AN: "array", AS: "array", AM: "array", OBJ: "object", XR: "expref"}

ANY = set(CLASSES)
ARR = {AE, AN, AS, AM}
ARR_NUM = {AE, AN}
ARR_STR = {AE, AS}
ALLT = ["null", "string", "number", "boolean", "array", "object", "expref"]
# name: (inputs [(accepted classes, display name)], variadic or None, result types)
SPEC = {
    "abs": ([({NUM}, "number")], None, ["number"]),
    "avg": ([(ARR_NUM, "array[number]")], None, ["number", "null"]),
    "ceil": ([({NUM}, "number")], None, ["number"]),
    "contains": ([({STR} | ARR, "string|array"), (ANY, "any")], None, ["boolean"]),
    "ends_with": ([({STR}, "string"), ({STR}, "string")], None, ["boolean"]),
    "floor": ([({NUM}, "number")], None, ["number"]),
    "join": ([({STR}, "string"), (ARR_STR, "array[string]")], None, ["string"]),
    "keys": ([({OBJ}, "object")], None, ["array"]),
    "length": ([(ARR | {OBJ, STR}, "array|object|string")], None, ["number"]),
    "map": ([({XR}, "expref"), (ARR, "array")], None, ["array"]),
    "max": ([(ARR_STR | ARR_NUM, "array[string]|array[number]")], None, ["number", "string", "null"]),
    "min": ([(ARR_STR | ARR_NUM, "array[string]|array[number]")], None, ["number", "string", "null"]),
    "max_by": ([(ARR, "array"), ({XR}, "expref")], None, ALLT),
    "min_by": ([(ARR, "array"), ({XR}, "expref")], None, ALLT),
    "merge": ([({OBJ}, "object")], ({OBJ}, "object"), ["object"]),
    "not_null": ([(ANY, "any")], (ANY, "any"), ALLT),
    "reverse": ([(ARR | {STR}, "array|string")], None, ["array", "string"]),
    "sort": ([(ARR_STR | ARR_NUM, "array[string]|array[number]")], None, ["array"]),
    "sort_by": ([(ARR, "array"), ({XR}, "expref")], None, ["array"]),
    "starts_with": ([({STR}, "string"), ({STR}, "string")], None, ["boolean"]),
    "sum": ([(ARR_NUM, "array[number]")], None, ["number"]),
    "to_array": ([(ANY, "any")], None, ["array"]),
    "to_number": ([(ANY, "any")], None, ["number", "null"]),
    "to_string": ([(ANY - {XR}, "object|array|boolean|number|string|null")], None, ["string"]),
    "type": ([(ANY, "any")], None, ["string"]),
    "values": ([({OBJ}, "object")], None, ["array"]),
}


# several values per class: the class-level theorem (C06_class_level) says the decision depends on the class only — the table with one
# representative per class is run in full, and a value-level sample checks that claim against the code on varied values
VALUES = {
    N: ["n"], B: ["t", "f"],
    NUM: ["i-3", "u0", G.f64_bits(2.5), G.f64_bits(-0.0), G.f64_bits(1e308), "u18446744073709551615", "i-9223372036854775808"],
    STR: [G.enc_str(x) for x in ["ab", "", "true", "[1]", "{}", "\"7\"", "null", "1", " 5", "+5", "😀", "false", "[]", "1e2", "{\"a\":1}"]],
    AE: ["[ ]"],
    AN: ["[ u3 u1 " + G.f64_bits(2.5) + " ]", "[ u0 ]", "[ i-1 " + G.f64_bits(1e308) + " " + G.f64_bits(1e308) + " ]"],
    AS: ["[ " + G.enc_str("b") + " " + G.enc_str("a") + " ]", "[ " + G.enc_str("true") + " ]", "[ " + G.enc_str("") + " " + G.enc_str("1") + " ]"],
    AM: ["[ u1 " + G.enc_str("a") + " n ]", "[ n ]", "[ [ ] ]", "[ " + G.enc_str("a") + " u1 ]", "[ { } ]", "[ t f ]", "[ u1 u2 " + G.enc_str("3") + " ]"],
    OBJ: ["{ " + G.enc_str("k") + " u1 }", "{ }", "{ " + G.enc_str("a") + " n " + G.enc_str("b") + " [ ] }"],
}
# long arrays (31 .. 65 elements, around chunking / vectorising thresholds): all numbers, all strings, and numbers / strings with ONE
# element of another type at the very end, in the middle, or at the start
for _n in (31, 32, 33, 39, 40, 64, 65):
    VALUES[AN].append("[ " + " ".join("u%d" % (k % 7) for k in range(_n)) + " ]")
    VALUES[AS].append("[ " + " ".join(G.enc_str("s%d" % (k % 5)) for k in range(_n)) + " ]")
    for _pos in (_n - 1, _n - 2, _n // 2, 0):
        for _base, _odd in (("u1", G.enc_str("x")), (G.enc_str("a"), "u1"), ("u2", "n"), (G.enc_str("b"), "[ ]")):
            _xs = [_base] * _n
            _xs[_pos] = _odd
            VALUES[AM].append("[ " + " ".join(_xs) + " ]")
ONE_ARG = ["abs", "avg", "ceil", "floor", "keys", "length", "max", "min", "reverse", "sort", "sum", "to_array", "to_number", "to_string", "type", "values"]


def value_cells(ctx):
    """(name, classes, values) with random values of the classes"""
    rng = ctx.rng
    out = []
    names = sorted(SPEC)
    for _ in range(4000 if ctx.tier == "quick" else 200000):
        name = rng.choice(names)
        d = len(SPEC[name][0])
        n = rng.choice([d, d, d, d, d + 1, max(0, d - 1)]) if SPEC[name][1] is None else rng.choice([d, d + 1, d + 2, d + 3])
        cs = tuple(rng.choice(CLASSES) for _ in range(n))
        out.append((name, cs, tuple(None if c == XR else rng.choice(VALUES[c]) for c in cs)))
    return out


def nested_cases(ctx):
    """a one-argument builtin applied per element inside map / a projection / sort_by: (form, F, element classes, expression, document)"""
    rng = ctx.rng
    out = []
    for _ in range(2500 if ctx.tier == "quick" else 100000):
        f = rng.choice(ONE_ARG)
        k = rng.randrange(1, 6)
        acc = SPEC[f][0][0][0]
        good = [c for c in CLASSES if c in acc and c != XR]
        cs = [rng.choice(good) if rng.random() < 0.8 else rng.choice([c for c in CLASSES if c != XR]) for _ in range(k)]
        vals = [rng.choice([v for v in VALUES[c] if "d7fe1ccf385ebc8a0" not in v]) for c in cs]      # (sum/avg overflow is C12's known finding F14)
        form = rng.choice(["map(&%s(@), xs)", "xs[*].%s(@)", "xs[].%s(@)", "sort_by(xs, &%s(@))", "max_by(xs, &%s(@))", "xs[?%s(@)]",
                           "[xs[0].%s(@), `1`]", "{k: xs[-1].%s(@)}", "to_array(xs[0].%s(@))", "xs[*].[%s(@)]",
                           # a call as an operand of the boolean / comparison operators and of a pipe: its error is the result, whichever side it stands on
                           "xs[0].%s(@) || `0`", "`null` || xs[0].%s(@)", "xs[0].%s(@) && `1`", "`1` && xs[0].%s(@)", "!(xs[0].%s(@))", "xs[0].%s(@) == `1`",
                           "`1` != xs[0].%s(@)", "xs[0].%s(@) | [0]", "(xs[0].%s(@) || `1`) && `2`", "xs[?%s(@) || `true`]", "xs[?`false` || %s(@)]",
                           "xs[?!%s(@)]", "xs[?%s(@) == `1`]"])
        out.append((form, f, tuple(cs), form % f, "{ " + G.enc_str("xs") + " [ " + " ".join(vals) + " ] }"))
    return out


def expected(name, classes):
    """('arity', kind, exp, act) | ('type', pos, expected-name, actual) | ('ok', result types)"""
    inputs, var, res = SPEC[name]
    n, d = len(classes), len(inputs)
    if var is None:
        if n < d:
            return ("arity", "not-enough", d, n)
        if n > d:
            return ("arity", "too-many", d, n)
    elif n < d:
        return ("arity", "not-enough", d, n)
    for k, c in enumerate(classes):
        acc, disp = inputs[k] if k < d else var
        if c not in acc:
            return ("type", k, disp, TYPEOF[c])
    return ("ok", res)


def cells(ctx):
    rng = ctx.rng
    out = []
    for name, (inputs, var, res) in SPEC.items():
        d = len(inputs)
        for n in range(0, d + 3):
            combos = itertools.product(CLASSES, repeat=n)
            if ctx.tier == "thorough" or n <= 3:
                for cs in combos:
                    out.append((name, cs))
            else:
                allc = list(combos)
                for cs in rng.sample(allc, min(len(allc), 60)):
                    out.append((name, cs))
    return out


def to_case(name, classes, values=None):
    args, docparts = [], []
    for k, c in enumerate(classes):
        if c == XR:
            args.append("&k")
        else:
            args.append("a%d" % k)
            docparts.append(G.enc_str("a%d" % k) + " " + (values[k] if values else DOCVAL[c]))
    return name + "(" + ", ".join(args) + ")", "{ " + " ".join(docparts) + " }" if docparts else "{ }"


def result_type(enc):
    t = enc.split(" ")[0]
    return {"n": "null", "t": "boolean", "f": "boolean", "[": "array", "{": "object", "x": "expref"}.get(t) or {"u": "number", "i": "number", "d": "number", "s": "string"}[t[0]]


def run(ctx):
    cs = cells(ctx)
    vcs = value_cells(ctx)
    nested = nested_cases(ctx)
    if getattr(ctx, "replay", None):
        rc = ctx.replay["case"]
        nested, vcs, cs = [], [], []
        if rc[0] == "nested":
            nested = [(rc[1], rc[2], tuple(rc[3]), rc[4], rc[5])]
        else:
            cs = [(rc[0], tuple(rc[1]))]
            vcs = [(rc[0], tuple(rc[1]), None)] if False else []
            cases_override = [(rc[2], rc[3])]
    cases = [to_case(n, c) for n, c in cs] + [to_case(n, c, v) for n, c, v in vcs]
    if getattr(ctx, "replay", None) and cs:
        cases = cases_override
    cs = cs + [(n, c) for n, c, _ in vcs]
    # the SAME operand in several positions (`f(@, @)`, `f(a0, a0, a0)`, `f(@, &k, @)`): the evaluated arguments are then one shared value,
    # which a validator that remembers / compares what it has just checked would treat differently from equal but distinct values
    if not getattr(ctx, "replay", None):
        for name, (inputs, var, res) in sorted(SPEC.items()):
            d = len(inputs)
            for n in range(2, d + 3):
                for c in CLASSES:
                    if c == XR:
                        continue
                    for v in ([DOCVAL[c]] + (VALUES[c][:2] if ctx.tier == "thorough" else [])):
                        cs.append((name, (c,) * n))
                        cases.append((name + "(" + ", ".join(["@"] * n) + ")", v))
                        cs.append((name, (c,) * n))
                        cases.append((name + "(" + ", ".join(["a0"] * n) + ")", "{ " + G.enc_str("a0") + " " + v + " }"))
                        if n >= 2:
                            mixed = tuple(XR if k == 1 else c for k in range(n))
                            cs.append((name, mixed))
                            cases.append((name + "(" + ", ".join("&k" if k == 1 else "@" for k in range(n)) + ")", v))
    # unregistered names
    unk = [("nope(a0)", "{ }"), ("Abs(a0)", "{ }"), ("sortby(@, &a)", "[ ]"), ("to_array(nope2(@))", "u1")]
    ncases = [(e, d) for _, _, _, e, d in nested]
    impl, model = S.eval_run(ctx, cases + unk + ncases)
    nimpl, nmodel = impl[len(cases) + len(unk):], model[len(cases) + len(unk):]
    impl, model = impl[:len(cases) + len(unk)], model[:len(cases) + len(unk)]
    outcome = dict(arity=0, type=0, ok=0, ok_internal=0)
    for (name, classes), (e, d), i, m in zip(cs, cases, impl, model):
        ctx.evaluations += 1
        ctx.nontrivial.add((name, classes))
        ci, cm = S.canon_eval(i), S.canon_eval(m)
        exp = expected(name, classes)
        outcome[exp[0]] += 1
        case = [name, list(classes), e, d]
        if exp[0] == "arity":
            want = f"E runtime {exp[1]} exp={exp[2]} act={exp[3]} off={len(name)}"
            if ci != want:
                ctx.violation("eval", case, ci[:300], want, "wrong number of arguments must be the invalid-arity error")
                continue
        elif exp[0] == "type":
            want = f"E runtime invalid-type exp={C.hexs(exp[2])} act={C.hexs(exp[3])} pos={exp[1]} off={len(name)}"
            if ci != want:
                ctx.violation("eval", case, ci[:300], want, "an argument outside the declared parameter type must be the invalid-type error of the first offending position")
                continue
        else:
            if ci.startswith("E runtime") and any(k in ci for k in ("not-enough", "too-many", "invalid-type", "unknown-function")):
                ctx.violation("eval", case, ci[:300], "no arity/type/unknown-function error (the arguments satisfy the signature)")
                continue
            if ci.startswith("ok "):
                rt = result_type(ci[3:])
                if rt not in exp[1]:
                    ctx.violation("eval", case, ci[:300], f"a result of type {exp[1]}", "result type outside the function's declared result type")
                    continue
            elif ci == "E parse parse off=0":
                outcome["ok_internal"] += 1
            elif not ci.startswith("E runtime invalid-return-type"):
                ctx.violation("eval", case, ci[:300], "a value of the declared result type")
                continue
        if ci != cm:
            ctx.violation("eval", case, ci[:300], cm[:300], "implementation differs from the model of the signature validator")
        if len(ctx.samples) < 6 and ctx.evaluations % 1777 == 1:
            ctx.samples.append(dict(call=e, document=d, expected=list(exp)[:3], implementation=ci[:120]))
    for (e, d), i in zip(unk, impl[len(cases):]):
        ctx.evaluations += 1
        if "unknown-function" not in (i or ""):
            ctx.violation("eval", [e, d], (i or "NONE")[:300], "unknown-function error")
    # nested calls: the first element (in order) that does not satisfy F's parameter type makes the whole search fail with F's invalid-type
    # error at F's own call; if every element satisfies it no arity/type error may appear and map / projections keep results of F's result type
    nst = dict(type_error=0, ok=0)
    for (form, f, classes, e, d), i, m in zip(nested, nimpl, nmodel):
        ctx.evaluations += 1
        ctx.nontrivial.add((form, f, classes))
        ci, cm = S.canon_eval(i), S.canon_eval(m)
        case = ["nested", form, f, list(classes), e, d]
        used = classes
        if "xs[0]." in form and not form.startswith(("map(", "xs[*]", "xs[]", "sort_by", "max_by", "xs[?")):
            used = classes[:1]
        elif form.startswith("{k: xs[-1]"):
            used = classes[-1:]
        judge = True
        if form.startswith("xs[*].["):
            used = [c for c in classes if c != N]            # a multi-select on a null element is null: F is not called
        if form.startswith("xs[]") and any(c in ARR for c in classes):
            judge = False                                     # flatten splices array elements: the projected elements are their members
        if form.startswith(("sort_by", "max_by")) and f not in ("abs", "ceil", "floor", "length", "sum", "to_string", "type"):
            judge = False                                     # the key's own type check (number|string) may fire before a later element is reached
        if not judge:
            if ci != cm:
                ctx.violation("eval", case, ci[:300], cm[:300], "implementation differs from the model (nested call)")
            continue
        bad = next((c for c in used if expected(f, [c])[0] == "type"), None)
        off = e.index(f + "(") + len(f)
        if bad is not None:
            nst["type_error"] += 1
            ex = expected(f, [bad])
            want = f"E runtime invalid-type exp={C.hexs(ex[2])} act={C.hexs(ex[3])} pos=0 off={off}"
            if ci != want:
                ctx.violation("eval", case, ci[:300], want, "an ill-typed element must make the nested call fail with its invalid-type error (not be skipped or swallowed)")
                continue
        else:
            nst["ok"] += 1
            if ci.startswith("E runtime") and any(k in ci for k in ("not-enough", "too-many", "invalid-type", "unknown-function")):
                ctx.violation("eval", case, ci[:300], "no arity/type error (every element satisfies the signature)")
                continue
            if ci.startswith("ok [") and (form.startswith("map(") or form.startswith("xs[*].%s") and False):
                pass
            if ci.startswith("ok ") and form.startswith("map("):
                import enc as E
                vals = E.parse(ci[3:])
                okt = SPEC[f][2]
                tn = lambda v: "null" if v is None else "boolean" if isinstance(v, bool) else "array" if isinstance(v, list) else "object" if isinstance(v, dict) \
                    else "string" if isinstance(v, tuple) and v[0] == "s" else "number"
                if not isinstance(vals, list) or len(vals) != len(classes) or any(tn(v) not in okt for v in vals):
                    ctx.violation("eval", case, ci[:300], f"an array of {len(classes)} results of type {okt}", "map must return one result of the function's declared type per element")
                    continue
        if ci != cm:
            ctx.violation("eval", case, ci[:300], cm[:300], "implementation differs from the model (nested call)")
    ctx.coverage["nested_calls"] = nst
    ctx.coverage["cells_by_expected_outcome"] = outcome
    ctx.coverage["exhaustive"] = ctx.tier == "thorough"   # quick: every cell with <= 3 arguments, a sample of the 4-argument cells
    ctx.coverage["streams"] = ["eval"]
