"""C10 — equality and ordering operators.  Theorems: lean/JmesVerif/Props/C10.lean."""
import struct
from fractions import Fraction
import common as C
import gen as G
import streams as S

ID = "C10"
MODULE = "JmesVerif.Props.C10"
THEOREMS = ["C10_eq_symm", "C10_eq_refl", "C10_ne_is_not_eq", "C10_types_differ_ne", "C10_ord_defined_iff_numbers",
            "C10_eq_iff_deepEq", "C10_order_consistent", "C10_trichotomy", "C10_le_iff_lt_or_eq", "C10_translated_compare_gate", "C10_translated_equality"]
TRUSTED_BASE = [
    "Lean 4.33 kernel; axioms propext, Classical.choice, Quot.sound only",
    "hand-written model Model/Compare.lean of variable.rs float_eq / PartialEq / Ord / compare and Model/F64.lean (IEEE binary64 as exact "
    "rational arithmetic + one round-to-nearest-even), tied to the code by the `eval` stream of this run on value pairs",
    "numbers are compared through their double image (Number::as_f64); `==` is the documented tolerant float_eq "
    "(relative difference below 2^-52), judged against exact rational arithmetic outside a 2^-40 band around the threshold",
]
ASSUMPTIONS = TRUSTED_BASE
RULE = ("pairs of typed JSON values: corpus; all type pairings from a pool (null, booleans, strings, numbers as u64/i64/double spellings of the "
        "same and of neighbouring values, extremes, subnormals, -0.0, containers nested to depth 3 incl. empty ones and permuted/perturbed "
        "copies); each pair evaluated with all six comparators in both operand orders. Non-trivial = distinct pair of values that are not "
        "both the same scalar literal.")

EXPR = "[[0]==[1],[0]!=[1],[0]<[1],[0]<=[1],[0]>[1],[0]>=[1],[1]==[0],[0]==[0],[1]<[0],[1]>[0]]"
# the same stored value on both sides (a pointer-equality shortcut must not answer an ordering question on non-numbers)
EXPR_SAME = "[[0]<=[0],[0]>=[0],[0]<[0],[0]>[0],[0]!=[0],[0]==[0]]"


def fbits(x):
    return G.f64_bits(x)


def numval(tok):
    """exact rational value of the double image of an encoded number"""
    if tok[0] == "u" or tok[0] == "i":
        return Fraction(float(int(tok[1:])))       # as_f64: one rounding
    if tok[0] == "d":
        return Fraction(struct.unpack("<d", struct.pack("<Q", int(tok[1:], 16)))[0])
    return None


NUMS = ["u0", fbits(-0.0), fbits(0.0), "u1", fbits(1.0), "i-1", fbits(-1.0), "u2", fbits(1.5), fbits(0.71), fbits(0.7100000000000002),
        fbits(0.1 + 0.2), fbits(0.3), "u9007199254740992", "u9007199254740993", fbits(9007199254740992.0), "u18446744073709551615",
        fbits(1.8446744073709552e19), "i-9223372036854775808", fbits(-9.223372036854775808e18), fbits(1e308), fbits(1.7e308),
        fbits(-1.7e308), fbits(1.7976931348623157e308), fbits(5e-324), fbits(1e-323), fbits(2.2250738585072014e-308),
        fbits(2.225073858507201e-308), fbits(1e-300), fbits(1.0000000000000002), fbits(1e16), "u10000000000000000", fbits(1e16 + 2)]


def pool(rng):
    strs = [G.enc_str(s) for s in ["", "a", "b", "1", "é", "😀"]]
    scal = ["n", "t", "f"] + strs + NUMS
    conts = ["[ ]", "{ }", "[ u1 ]", "[ " + fbits(1.0) + " ]", "[ u1 u2 ]", "[ u2 u1 ]", "[ [ ] ]", "[ { } ]", "[ n ]",
             "{ " + G.enc_str("a") + " u1 }", "{ " + G.enc_str("a") + " " + fbits(1.0) + " }", "{ " + G.enc_str("b") + " u1 }",
             "{ " + G.enc_str("a") + " u1 " + G.enc_str("b") + " n }", "{ " + G.enc_str("a") + " [ u1 { } ] }",
             "{ " + G.enc_str("a") + " [ " + fbits(1.0) + " { } ] }"]
    return scal, conts


def gen_pairs(ctx):
    rng = ctx.rng
    scal, conts = pool(rng)
    pairs = []
    for l in S.load_corpus("C10"):
        a, b = l.split("\t")
        pairs.append((a, b))
    allv = scal + conts
    for a in allv:
        for b in allv:
            if ctx.tier == "thorough" or rng.random() < 0.45 or (a in NUMS and b in NUMS):
                pairs.append((a, b))
    n = 1500 if ctx.tier == "quick" else 200000
    for _ in range(n):
        a = G.rand_doc(rng, 3)
        r = rng.random()
        if r < 0.3:
            b = a
        elif r < 0.6:
            # perturb one token
            toks = a.split(" ")
            i = rng.randrange(len(toks))
            if toks[i][0] in "uid":
                toks[i] = rng.choice(NUMS)
            elif toks[i][0] == "s":
                toks[i] = G.enc_str(rng.choice(["a", "b", ""]))
            b = " ".join(toks)
        else:
            b = G.rand_doc(rng, 3)
        pairs.append((a, b))
    for _ in range(n):
        x = rng.choice([rng.random(), rng.random() * 1e300, rng.random() * 1e-300, float(rng.randrange(-10, 10))])
        k = rng.choice([0, 1, 1, 2, 3, 8, 1000])
        y = x
        for _ in range(k):
            y = struct.unpack("<d", struct.pack("<Q", struct.unpack("<Q", struct.pack("<d", y))[0] + 1))[0] if y >= 0 else y
        pairs.append((fbits(x), fbits(y)))
    # values nested 60 .. 120 containers deep (arrays, objects, alternating): equality is structural at every depth
    def wrap(x, k, kind):
        for i in range(k):
            x = "[ " + x + " ]" if (kind == "a" or (kind == "m" and i % 2)) else "{ s61 " + x + " }"
        return x
    for k in ([63, 64, 65, 66, 100, 120] if ctx.tier == "quick" else list(range(60, 70)) + [90, 100, 110, 120]):
        for kind in "aom":
            for x, y in [("u1", "u1"), ("u1", G.f64_bits(1.0)), ("u1", "u2"), (G.enc_str("a"), G.enc_str("a")), ("n", "n"), ("[ ]", "{ }"), ("t", "t")]:
                pairs.append((wrap(x, k, kind), wrap(y, k, kind)))
            pairs.append((wrap("u1", k, kind), wrap("u1", k + 1, kind)))
    seen, out = set(), []
    for p in pairs:
        if p not in seen:
            seen.add(p)
            out.append(p)
    return out


EPS = Fraction(1, 2 ** 52)
BAND = Fraction(1, 2 ** 40)
MINNORMAL = Fraction(1, 2 ** 1022)


def spec_num_eq(x, y):
    """documented tolerant equality in exact arithmetic; None = inside the rounding band (don't care)"""
    if x == y:
        return True
    if abs(x) < MINNORMAL or abs(y) < MINNORMAL:
        return False        # diff < 2^-1074 is impossible for distinct doubles
    r = abs(x - y) / (abs(x) + abs(y))
    if abs(r - EPS) <= EPS * BAND:
        return None
    return r < EPS


def typeof(enc):
    t = enc.split(" ")[0]
    return {"n": "null", "t": "bool", "f": "bool", "[": "arr", "{": "obj"}.get(t, {"u": "num", "i": "num", "d": "num", "s": "str"}.get(t[0]))


def spec_deep_eq(a, b):
    """structural equality over token lists; None if a numeric comparison fell in the band"""
    ta, tb = a.split(" "), b.split(" ")
    if len(ta) != len(tb):
        return False
    res = True
    for x, y in zip(ta, tb):
        if x[0] in "uid" and y[0] in "uid":
            e = spec_num_eq(numval(x), numval(y))
            if e is None:
                res = None if res else res
            elif not e:
                return False
        elif x != y:
            return False
    return res


def run(ctx):
    pairs = [tuple(ctx.replay["case"])] if getattr(ctx, "replay", None) else gen_pairs(ctx)
    lines = [C.hexs(EXPR) + "\t[ " + a + " " + b + " ]" for a, b in pairs]
    impl, model = S.run_both(ctx, "eval", lines)
    tp = {}
    for (a, b), i, m in zip(pairs, impl, model):
        ctx.evaluations += 1
        case = [a, b]
        key = typeof(a) + "/" + typeof(b)
        tp[key] = tp.get(key, 0) + 1
        if a != b or len(a) > 3:
            ctx.nontrivial.add((a, b))
        if not i or not i.startswith("ok [ "):
            ctx.violation("eval", case, (i or "NONE")[:300], "a list of booleans/nulls", "comparison did not evaluate")
            continue
        r = i[5:-2].split(" ")
        if len(r) != 10:
            ctx.violation("eval", case, i[:300], "ten results")
            continue
        eq, ne, lt, le, gt, ge, eq_sw, eq_self, lt_sw, gt_sw = r
        B = {"t": True, "f": False, "n": None}
        bad = []
        if eq != eq_sw:
            bad.append("== is not symmetric")
        if eq_self != "t":
            bad.append("a == a is not true")
        if B[eq] is None or B[ne] is None or B[ne] == B[eq]:
            bad.append("!= is not the negation of ==")
        both_num = typeof(a) == "num" and typeof(b) == "num"
        for nm, v in (("<", lt), ("<=", le), (">", gt), (">=", ge)):
            if (B[v] is not None) != both_num:
                bad.append(f"{nm} yields {'a boolean' if B[v] is not None else 'null'} for {key}")
        want_eq = spec_deep_eq(a, b) if typeof(a) == typeof(b) else False
        if want_eq is not None and B[eq] != want_eq:
            bad.append(f"== is {eq}, deep structural equality says {want_eq}")
        if both_num and not bad:
            x, y = numval(a), numval(b)
            if (B[lt], B[gt]) != (x < y, x > y):
                bad.append("< / > disagree with numeric order")
            if lt != gt_sw or gt != lt_sw:
                bad.append("a<b differs from b>a")
            well_sep = (want_eq is not None) and (want_eq == (x == y))
            if well_sep:
                if [B[lt], B[eq], B[gt]].count(True) != 1:
                    bad.append("trichotomy fails for a well-separated pair")
                if B[le] != (B[lt] or B[eq]) or B[ge] != (B[gt] or B[eq]):
                    bad.append("<= is not (< or ==)")
        if bad:
            ctx.violation("eval", case, i[:300], "; ".join(bad), f"expression {EXPR}")
        mc = (m or "NONE").split("\t")[0]
        if mc != i:
            # model and implementation differ on an observable of this property
            if not bad:
                ctx.tie_broken("stream eval (comparison operators): model vs implementation", f"pair {case}: impl {i[:120]} model {mc[:120]}")
        if len(ctx.samples) < 6 and ctx.evaluations % 701 == 1:
            ctx.samples.append(dict(pair=case, expression=EXPR, implementation=i, model=mc))
    ctx.coverage["type_pairings"] = tp
    ctx.coverage["streams"] = ["eval"]
    second_pass(ctx, pairs, impl)


def lit_text(a):
    """JSON text of an encoded value when it denotes exactly that value under serde_json's default number parser, else None"""
    import enc as E
    import fnspec as F
    for t in a.split(" "):
        if t[0] == "d":
            x = struct.unpack("<d", struct.pack("<Q", int(t[1:], 16)))[0]
            digs = repr(abs(x)).split("e")[0].replace(".", "").lstrip("0").rstrip("0")
            if x != 0 and (len(digs) > 15 or not (1e-22 <= abs(x) <= 1e22)):
                return None
    try:
        return F.json_text(E.parse(a)).replace("`", "\\`")
    except Exception:
        return None


def second_pass(ctx, pairs, first):
    """the same questions asked differently must get the same answers: (1) the same stored value on both sides of an ordering operator,
    (2) the left (or right) operand written as a literal instead of being read from the document"""
    rng = ctx.rng
    sel = [k for k in range(len(pairs)) if rng.random() < (0.5 if ctx.tier == "quick" else 0.3)]
    lines, meta = [], []
    for k in sel:
        a, b = pairs[k]
        lines.append(C.hexs(EXPR_SAME) + "\t[ " + a + " " + b + " ]")
        meta.append(("same", k, None))
        la = lit_text(a)
        if la is not None and len(la) < 400:
            e = "[`%s`==[0],`%s`!=[0],`%s`<[0],`%s`<=[0],`%s`>[0],`%s`>=[0],[0]==`%s`,[0]<=`%s`,[0]>=`%s`,[0]<`%s`,[0]>`%s`]" % ((la,) * 11)
            lines.append(C.hexs(e) + "\t[ " + b + " ]")
            meta.append(("lit", k, e))
            lb = lit_text(b)
            if lb is not None and len(lb) < 400:
                # BOTH operands written as literals (a parser that folds constant comparisons must fold them to the same answers)
                sa, sb = "`%s`" % la, "`%s`" % lb
                if a[0] == "s" and b[0] == "s" and rng.random() < 0.5:
                    import enc as E
                    ra, rb = E.parse(a)[1], E.parse(b)[1]
                    if "'" not in ra + rb and "\\" not in ra + rb:
                        sa, sb = "'%s'" % ra, "'%s'" % rb
                e2 = "[%s==%s,%s!=%s,%s<%s,%s<=%s,%s>%s,%s>=%s]" % ((sa, sb) * 6)
                lines.append(C.hexs(e2) + "\tu0")
                meta.append(("lit2", k, e2))
    # chains of comparison operators: all six have one binding power and group to the left, so `x == y < z` is `(x == y) < z`
    CH = "[[0]==[1]<[2],([0]==[1])<[2],[0]<[1]==[2],([0]<[1])==[2],[0]!=[1]>=[2],([0]!=[1])>=[2],[0]<=[1]!=[2],([0]<=[1])!=[2],[0]==[1]==[2],([0]==[1])==[2],[0]>[1]>[2],([0]>[1])>[2]]"
    for k in sel[:400 if ctx.tier == "quick" else 20000]:
        a, b = pairs[k]
        c = rng.choice([pairs[rng.randrange(len(pairs))][0], "t", "f", "n", "u1", "u0", a, b])
        if len(a) + len(b) + len(c) < 2000:
            lines.append(C.hexs(CH) + "\t[ " + a + " " + b + " " + c + " ]")
            meta.append(("chain", k, CH))
    # comparisons whose operands are TEMPORARIES (multi-select lists / hashes, function results), evaluated for many rows in ONE search: each row is
    # answered on its own values (nothing remembered per operand position, address or call site carries over to the next row)
    ROW = "[*].[[l] == [r], [l] != [r], {k: l} == {k: r}, [l, r] == [r, l], to_array(l) == to_array(r), [l] == [l], not_null(l, `0`) == not_null(r, `0`)]"
    for _ in range(40 if ctx.tier == "quick" else 3000):
        ks = [rng.choice(sel) for _ in range(rng.randrange(4, 14))] if sel else []
        ks = [k for k in ks if len(pairs[k][0]) + len(pairs[k][1]) < 400]
        if not ks:
            continue
        doc = "[ " + " ".join("{ s6c %s s72 %s }" % pairs[k] for k in ks) + " ]"
        lines.append(C.hexs(ROW) + "\t" + doc)
        meta.append(("rows", tuple(ks), ROW))
    impl, model = S.run_both(ctx, "eval", lines)
    for (kind, k, e), i, m in zip(meta, impl, model):
        ctx.evaluations += 1
        a, b = pairs[k] if kind != "rows" else (None, None)
        if kind == "rows":
            ok_ = True
            got = (i or "NONE")
            if (m or "NONE").split("\t")[0] != got:
                ctx.tie_broken("stream eval (comparisons of temporaries over rows): model vs implementation", f"rows {list(k)[:4]}…: impl {got[:160]} model {(m or 'NONE')[:160]}")
            import enc as E_
            try:
                rows = E_.parse(got[3:]) if got.startswith("ok ") else None
            except Exception:
                rows = None
            if rows is None or len(rows) != len(k):
                ctx.violation("eval", [pairs[k[0]][0], pairs[k[0]][1]], got[:300], "one answer list per row", "comparisons over rows did not evaluate (%s)" % ROW)
                continue
            for kk, row in zip(k, rows):
                f_ = first[kk]
                if not f_ or not f_.startswith("ok [ ") or len(f_[5:-2].split(" ")) != 10:
                    continue
                eq_, ne_ = f_[5:-2].split(" ")[:2]
                want = [eq_ == "t", ne_ == "t", eq_ == "t", eq_ == "t", None, True, None]
                for pos_, w_ in enumerate(want):
                    if w_ is not None and row[pos_] is not w_:
                        ctx.violation("eval", [pairs[kk][0], pairs[kk][1]], got[:300], "row answers equal to the answers for the pair alone",
                                      "a comparison of temporaries inside a projection differs from the same comparison asked alone (expression %s, column %d)" % (ROW, pos_))
                        ok_ = False
                        break
                if not ok_:
                    break
            continue
        f = first[k]
        if kind == "chain":
            a, b = pairs[k]
            if not i or not i.startswith("ok [ ") or len(i[5:-2].split(" ")) != 12:
                ctx.violation("eval", [a, b], (i or "NONE")[:300], "a list of 12 booleans/nulls", "a chain of comparisons did not evaluate (%s)" % CH)
                continue
            r = i[5:-2].split(" ")
            if any(r[j] != r[j + 1] for j in range(0, 12, 2)):
                ctx.violation("eval", [a, b], i[:200], "pairwise equal answers",
                              "comparison operators share one binding power and group to the left: `x OP y OP' z` must equal `(x OP y) OP' z` (document %s)" % lines[meta.index((kind, k, e))].split("\t")[1][:300])
            if (m or "NONE").split("\t")[0] != i:
                ctx.tie_broken("stream eval (comparison chains): model vs implementation", f"pair {[a, b]}: impl {i[:120]} model {(m or 'NONE')[:120]}")
            continue
        if not f or not f.startswith("ok [ ") or len(f[5:-2].split(" ")) != 10:
            continue
        eq, ne, lt, le, gt, ge, eq_sw, eq_self, lt_sw, gt_sw = f[5:-2].split(" ")
        if not i or not i.startswith("ok [ "):
            ctx.violation("eval", [a, b], (i or "NONE")[:300], "a list of booleans/nulls", "comparison did not evaluate (%s)" % (e or EXPR_SAME))
            continue
        r = i[5:-2].split(" ")
        if kind == "same":
            num = typeof(a) == "num"
            want = ["t", "t", "f", "f", "f", "t"] if num else ["n", "n", "n", "n", "f", "t"]
            if r != want:
                ctx.violation("eval", [a, b], i[:200], "ok [ " + " ".join(want) + " ]",
                              "an operand compared with itself: ordering operators are defined on numbers only, == is reflexive (expression %s)" % EXPR_SAME)
        elif kind == "lit2":
            want = [eq, ne, lt, le, gt, ge]
            if r != want:
                ctx.violation("eval", [a, b], i[:200], "ok [ " + " ".join(want) + " ]",
                              "both operands written as literals give a different answer than the same values read from the document (expression %s)" % e[:200])
        else:
            want = [eq, ne, lt, le, gt, ge, eq, ge, le, gt, lt]
            if r != want:
                ctx.violation("eval", [a, b], i[:200], "ok [ " + " ".join(want) + " ]",
                              "an operand written as a literal gives a different answer than the same value read from the document (expression %s)" % e[:200])
        if (m or "NONE").split("\t")[0] != i:
            ctx.tie_broken("stream eval (comparison operators, second pass): model vs implementation", f"pair {[a, b]}: impl {i[:120]} model {(m or 'NONE')[:120]}")
