"""C03 — compile accepts exactly the JMESPath language.  Theorems: lean/JmesVerif/Props/C03.lean."""
import common as C
import gen as G
import streams as S
import abnf as ABNF

ID = "C03"
MODULE = "JmesVerif.Props.C03Lex"       # imports Props.C03 and re-prints its axioms
THEOREMS = ["C03_sound", "C03_complete", "C03_language", "C03_no_fuel_tokens", "C03_number_tokens_in_range",
            "C03_multiselect_nonempty", "C03_abnf_sound", "C03_abnf_complete", "C03_abnf_language", "C03_sentence_has_string", "C03_lex_table", "C03_lexOne_follows_table", "C03_whitespace", "T1_expr", "T2_expr", "C03_lex_table_actOf", "C03_lex_arms_disjoint", "C03_lbracket_alts"]
TRUSTED_BASE = [
    "Lean 4.33 kernel; axioms propext, Classical.choice, Quot.sound only",
    "hand-written models Model/Lexer.lean, Model/JsonText.lean (serde_json's JSON text grammar, modelled), Model/Parser.lean of lexer.rs / parser.rs, "
    "tied to the code by the `parse` correspondence stream of this run (Ok/Err of jmespath::parse vs the model, on every generated string)",
    "tools/abnf.py: an independent chart recogniser of the published ABNF at token level judges generated token strings (<= 18 tokens) directly",
    "Spec/Abnf.lean is the published ABNF transcribed production by production over tokens; C03_abnf_language proves the parser model accepts "
    "exactly its sentences plus exactly the strings of the deviation classes F3/F4/F5 (so `Legal` is no longer trusted as a reading of the ABNF)",
    "Spec/Grammar.lean `Legal` is the reading of the published ABNF at token level with binding powers; its four documented "
    "extensions (known findings F3, F4, F5 — and F16 for C04) are marked by the executable deviation counters in Spec/GrammarCheck.lean",
]
ASSUMPTIONS = TRUSTED_BASE
RULE = ("expression strings: corpus; structured sentences from a flat operand/operator grammar (every ordering of infix, prefix, postfix "
        "operators, random insignificant whitespace); near-misses one token away (delete/insert/swap/duplicate/replace); token soup; "
        "character soup (delimiters, backslashes, digits, multi-byte and astral characters); quoted-form soup; thorough adds every "
        "token sequence of length <= 3 over 24 representative tokens. Non-trivial = distinct string with >= 2 tokens.")

KNOWN_CLASSES = {"F3": 0, "F4": 1, "F5": 2}


TOKS = {}      # expression text -> the token list it was spelled from (for the ABNF oracle)


def abnf_cases(ctx, n):
    """token strings with their tokens kept: flat sentences, one-token mutations of them, token soup — judged by the independent
    recogniser of the published ABNF (tools/abnf.py), not by the model"""
    rng = ctx.rng
    eg = G.ExprGen(rng, funcs=True, maxdepth=2)
    out = []
    base = []
    for _ in range(n):
        r = rng.random()
        if r < 0.35 or not base:
            toks = eg.expr()
            base.append(toks)
        elif r < 0.85:
            toks = G.near_miss(rng, rng.choice(base))
        else:
            toks = G.token_soup(rng)
        if len(toks) > 18 or any(t in G.ODD_WS for t in toks):
            continue
        e = G.spell(rng, toks)
        TOKS[e] = toks
        out.append(("abnf", e))
    return out


BASES = ["a . b", "a [ 0 ]", "a [ * ] . b", "a [] . b", "a [? b == `1` ] . c", "a [ 1 : 2 : 3 ]", "a . *", "* . a", "[ a , b ]", "{ k : a , \"q\" : b }",
         "f ( a , b )", "f ( & a , b )", "f ( )", "a . f ( b )", "! a", "( a )", "a || b && c", "a | b", "a == b", "a < b", "@", "a . [ b , c ]",
         "a . { k : b }", "`1` [ 0 ]", "'r' . a", "a [ : ]", "[ 0 ]", "[ * ]", "[]", "[? a ]", "a [ * ] [ 0 ]", "f ( g ( a ) , [ b ] )", "a . \"q\" . b"]
EDIT_TOKS = [".", "*", "[]", "&&", "||", "|", "[?", "[", "]", ",", ":", "!", "!=", "==", "<", "@", "&", "(", ")", "{", "}", "a", "\"q\"", "'r'", "`1`", "0", "-1"]


def edit_cases(ctx):
    """every single-token deletion, insertion, replacement and adjacent swap of each base sentence (small-scope exhaustive near-misses),
    judged by the ABNF recogniser"""
    rng = ctx.rng
    out = []
    for b in BASES:
        t = b.split(" ")
        var = [t]
        for i in range(len(t)):
            var.append(t[:i] + t[i + 1:])
            if i + 1 < len(t):
                var.append(t[:i] + [t[i + 1], t[i]] + t[i + 2:])
            for x in EDIT_TOKS:
                var.append(t[:i] + [x] + t[i + 1:])
        for i in range(len(t) + 1):
            for x in EDIT_TOKS:
                var.append(t[:i] + [x] + t[i:])
        for v in var:
            if not v:
                continue
            e = G.spell(rng, v, ws=1.0) if False else " ".join(v)
            if e not in TOKS:
                TOKS[e] = v
                out.append(("abnf", e))
    return out


def gen_cases(ctx):
    out = [("corpus", S.corpus_expr(l)) for l in S.load_corpus("C03")]
    out += edit_cases(ctx)
    # malformed and unterminated quoted forms of every length (C05's list): each must be REJECTED WITH A PARSE ERROR — a crash is neither
    import props.c05 as c05
    out += [("malformed-quoted", e) for e in c05.malformed_quoted()]
    q = ctx.tier == "quick"
    out += abnf_cases(ctx, 4000 if q else 300000)
    # sentences by construction, nested 50 .. 900 deep (below the depth at which the known finding F12 — stack exhaustion — starts)
    for depth in [50, 200, 255, 256, 257, 300, 600, 900]:
        for mk in (lambda n: "(" * n + "a" + ")" * n, lambda n: "[" * n + "a" + "]" * n, lambda n: "!" * n + "a",
                   lambda n: "to_array(" * n + "a" + ")" * n, lambda n: "{k:" * n + "a" + "}" * n, lambda n: "a" + "[?" * n + "b" + "]" * n,
                   lambda n: "a" + ".b[*]" * n, lambda n: "a" + " || (b" * n + ")" * n, lambda n: "a" + "[0]" * n + ".b" * n):
            out.append(("deep-sentence", mk(depth)))
    # wide sentences: many operators of one kind side by side at nesting depth 1 (counters that are not released would run out)
    for n in [65, 70, 130, 300]:
        for unit, sep in (("a[*]", " | "), ("a[*]", " || "), ("a[]", " && "), ("a[?b]", " | "), ("a.*", " || "), ("a[1:]", " | "), ("!a", " && "),
                          ("f(a)", " | "), ("[a]", " | "), ("{k: a}", " | "), ("a[0]", " == "), ("(a)", " | ")):
            out.append(("deep-sentence", sep.join([unit] * n)))
        out.append(("deep-sentence", "[" + ", ".join(["a[*]"] * n) + "]"))
        out.append(("deep-sentence", "f(" + ", ".join(["a[*]"] * n) + ")"))
        out.append(("deep-sentence", "{" + ", ".join("k%d: a[*]" % i for i in range(n)) + "}"))
    out += S.expr_cases(ctx, 3000 if q else 300000, 3000 if q else 300000, 1500 if q else 150000,
                        1500 if q else 150000, 1000 if q else 100000)
    if not q:
        for seq in G.all_token_seqs(3):
            out.append(("exh", " ".join(seq)))
    return out


def run(ctx):
    if getattr(ctx, "replay", None):
        cases = [("replay", ctx.replay["case"])]
    else:
        cases = gen_cases(ctx)
    recs = S.parse_run(ctx, cases)
    kinds = {}
    known_seen = {}
    abnf_stats = {"sentence": 0, "non-sentence": 0}
    for r in recs:
        ctx.evaluations += 1
        k = kinds.setdefault(r.kind, dict(ok=0, err=0))
        k["ok" if r.impl_ok else "err"] += 1
        if len(r.expr.split()) >= 2 or len(r.expr) > 3:
            ctx.nontrivial.add(r.expr)
        if not (r.impl_ok or r.impl_err):
            # PANIC / ABORT / HANG: reported by C05; here it is "not a parse error"
            ctx.violation("parse", r.expr, r.impl[:300], "Ok or a parse error", "compile neither succeeded nor returned a parse error")
            continue
        if not (r.model_ok or r.model_err):
            ctx.tie_broken("stream parse: model driver", f"{r.expr!r}: {r.model[:200]}")
            continue
        if r.model_ok and r.t1 != "ok":
            ctx.tie_broken("theorem T1 (C03_sound) vs driver self-check", f"{r.expr!r}: t1={r.t1}")
        # the independent oracle: the published ABNF decides, the model only names the known deviation class of an accepted non-sentence
        if r.kind == "abnf" and r.expr in TOKS:
            sent = ABNF.is_sentence(TOKS[r.expr])
            abnf_stats["sentence" if sent else "non-sentence"] += 1
            if sent and not r.impl_ok:
                ctx.violation("parse", r.expr, r.impl[:300], "compiles: it is a sentence of the published ABNF (tools/abnf.py derives it)")
                continue
            if not sent and r.impl_ok and not (r.model_ok and any(r.dev[ix] > 0 for ix in KNOWN_CLASSES.values())):
                ctx.violation("parse", r.expr, r.impl[:300], "parse error: not a sentence of the published ABNF (and not one of the listed deviation classes)")
                continue
        if r.kind == "deep-sentence" and not r.impl_ok:
            ctx.violation("parse", r.expr[:80] + ("…(%d chars)" % len(r.expr) if len(r.expr) > 80 else ""), r.impl[:200],
                          "compiles: a sentence of the grammar however deeply it nests (below the stack limit of known finding F12)")
            continue
        devs = [name for name, ix in KNOWN_CLASSES.items() if r.model_ok and r.dev[ix] > 0]
        if devs:
            # a non-sentence of the published grammar which the model of the code accepts
            if r.impl_ok:
                for d in devs:
                    known_seen.setdefault(d, r.expr)
            continue
        if r.impl_ok != r.model_ok:
            exp = "compiles (it is a sentence: the model parser, proved equivalent to the grammar, accepts it)" if r.model_ok \
                else "parse error (not a sentence of the grammar)"
            ctx.violation("parse", r.expr, r.impl[:300], exp)
        if len(ctx.samples) < 6 and ctx.evaluations % 1999 == 1:
            ctx.samples.append(dict(kind=r.kind, expression=r.expr, implementation=r.impl[:120], model=r.model.split("\t")[0][:120]))
    # known findings: print only those listed in known_findings.json whose class was seen again
    listed = {k["id"]: k for k in ctx.known if k.get("status") == "known"}
    for d, ex in known_seen.items():
        if d in listed:
            ctx.known_hit(d, f"{listed[d]['what']} (e.g. {ex!r})")
        else:
            ctx.violation("parse", ex, "compiles", "parse error (non-sentence of the published grammar)", f"deviation class {d} not listed as known")
    ctx.coverage["streams"] = ["parse"]
    ctx.coverage["by_generator"] = kinds
    ctx.coverage["abnf_oracle"] = abnf_stats
    ctx.coverage["exhaustive"] = False
