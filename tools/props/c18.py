"""C18 — the jp command-line tool reports exactly what the library computes.
Theorems: lean/JmesVerif/Props/C18.lean."""
import json
import os
import shutil
import subprocess
import concurrent.futures
import common as C
import gen as G
import streams as S

ID = "C18"
MODULE = "JmesVerif.Props.C18"
THEOREMS = ["C18_success", "C18_failure_shape", "C18_exit0_only_if", "C18_unquoted", "C18_ast_reads_no_input", "C18_cli_surface"]
TRUSTED_BASE = [
    "Lean 4.33 kernel; axioms propext, Classical.choice, Quot.sound only",
    "Model/Cli.lean: hand-written model of jmespath-cli/src/main.rs's decision logic, with the library models plugged in; tied to the code by the "
    "`cli` stream: the real binary (built from /repo/jmespath-cli/src/main.rs by the wrapper crate harness/jpwrap — the repository's own "
    "jmespath-cli/Cargo.lock cannot be resolved offline) run on generated argument / file / stdin combinations",
    "PARTIAL: process exit, pipes, the file system and clap's argument parsing are observed, not modelled",
]
ASSUMPTIONS = TRUSTED_BASE
RULE = ("expressions (valid, invalid, with runtime errors) x input texts (valid JSON, invalid JSON, non-UTF-8, missing file) x how the expression is "
        "given (argument, -e file, missing -e file, both, neither) x where the input comes from (stdin, -f file) x {-u, --ast}. Expected "
        "exit status / stdout / stderr-non-empty come from the model (library models + CLI logic); additionally the checker renders the "
        "library's own search result (via the harness) as pretty JSON and compares. Non-trivial = distinct successful run printing a non-null result.")

SCRATCH = os.path.join(C.VERIF, ".scratch", "cli")


def gen(ctx):
    rng = ctx.rng
    n = 1500 if ctx.tier == "quick" else 100000
    eg = G.ExprGen(rng, funcs=True, maxdepth=2)
    cases = []
    for _ in range(n):
        r = rng.random()
        docval = rand_json(rng, 3)
        if r < 0.35:
            expr = G.spell(rng, eg.expr())
        elif r < 0.75:
            expr = G.path_expr(rng, docval)        # data-aware: walks existing keys / indexes, so results are mostly non-null
        elif r < 0.87:
            expr = G.spell(rng, G.near_miss(rng, eg.expr()))
        else:
            expr = rng.choice(["@", "a", "a.b", "length(@)", "abs(a)", "sort_by(@, &a)", "[::0]", "to_string(@)", "a.", "", "'x'", "keys(@)[0]", "*"])
        if "&" in expr and "&&" not in expr.replace("&&", "") and False:
            pass
        mode = rng.choice(["pos"] * 6 + ["efile"] * 3 + ["efile-missing", "both", "neither"])
        flags = ("u" if rng.random() < 0.4 else "") + ("a" if rng.random() < 0.15 else "")
        ik = rng.choice(["stdin"] * 5 + ["file"] * 4 + ["file-missing", "file-badutf8", "stdin-badutf8"])
        rj = rng.random()
        if rj < 0.75:
            doc = json.dumps(docval, ensure_ascii=rng.random() < 0.5, indent=rng.choice([None, 1]))
        elif rj < 0.9:
            doc = rng.choice(["", "{", "[1,]", "{\"a\": }", "nul", "1 2", "{\"a\":1}}"])
        else:
            doc = rng.choice(["\"str\"", "1.5", "null", "[]", "{}", "1e400", "18446744073709551616"])
        r2 = rng.random()
        if r2 < 0.03:
            # input larger than a pipe buffer / a 64 KiB read (via stdin and via -f)
            big = [rng.randrange(0, 1000) for _ in range(rng.choice([20000, 40000]))]
            docval = {"a": big, "b": "x" * rng.choice([70000, 140000])}
            doc = json.dumps(docval)
            expr = rng.choice(["length(a)", "a[-1]", "length(b)", "a[0:3]", "sum(a) > `0`"])
        elif r2 < 0.07:
            # a byte order mark is not JSON white space and not JMESPath white space: the library rejects both texts
            if rng.random() < 0.5:
                doc = "\ufeff" + doc
            else:
                expr = "\ufeff" + expr
                mode = rng.choice(["efile", "pos"])
        r3 = rng.random()
        if r3 < 0.04:
            # a file whose NAME is "-" is a file like any other (present or missing), whatever arrives on stdin
            ik = rng.choice(["file-dash", "file-dash-missing"])
        elif r3 < 0.08:
            # failing runs whose diagnosis is long and full of multi-byte characters at every alignment
            pad = "a" * rng.randrange(0, 4) + rng.choice(["é", "😀", "中"]) * rng.choice([300, 400, 520, 700])
            expr = rng.choice(["'%s' && abs('x')", "'%s' && nope(@)", "'%s' && a.", "\"%s\".~"]) % pad
        if expr.startswith("-") or expr == "":
            mode = "efile" if mode == "pos" else mode      # a leading '-' would be taken as a flag by clap; empty positional is fine via file
        cases.append((mode, expr, flags or "-", ik, doc))
    # string results at the edges of what printing can get wrong: strings that END in (or consist of) line breaks, carriage returns, spaces; strings that
    # look like JSON; empty; very long — with and without --unquoted, from stdin and from a file
    edge = ["line\n", "dos\r\n", "\n", "\n\n", "a\n\nb\n", "\r", " ", "  trailing  ", "\t", "", "\"quoted\"", "{\"a\": 1}", "[1]", "null", "1", "-", "--unquoted", "é\n", "😀",
            "x" * 5000 + "\n", "\u0000", "\u001b[0m", "a\u2028b"]
    for sv in edge:
        for fl in ("u", "-"):
            for ikk in ("stdin", "file"):
                cases.append(("pos", "@", fl, ikk, json.dumps(sv)))
            cases.append(("pos", "a", fl, "stdin", json.dumps({"a": sv})))
            cases.append(("efile", "join('', [a, a])", fl, "stdin", json.dumps({"a": sv})))
    # trailing content after a complete JSON value is not JSON (stdin and file alike)
    for tail in [" garbage", "{}", "]", ",", " 1", "\n\n[", "\u0000", " //c"]:
        for ikk in ("stdin", "file"):
            cases.append(("pos", "@", "-", ikk, "{\"a\": 1}" + tail))
            cases.append(("pos", "a", "u", ikk, "[1,2,3]" + tail))
    return cases


def rand_json(rng, depth):
    r = rng.random()
    if depth <= 0 or r < 0.3:
        return rng.choice([None, True, False, 0, 1, -2, 1.5, "a", "é😀", "", 10 ** 20, 0.1, "say \"hi\"", "back\\slash", "line\nbreak\ttab", "ends with newline\n", "crlf\r\n", "\n", "\u0001ctl", "\"", "\\", "a b"])
    if r < 0.65:
        return [rand_json(rng, depth - 1) for _ in range(rng.randrange(0, 4))]
    return {rng.choice(G.IDENTS[:8]): rand_json(rng, depth - 1) for _ in range(rng.randrange(0, 4))}


def run_real(binpath, k, case):
    mode, expr, flags, ik, doc = case
    d = os.path.join(SCRATCH, str(k))
    os.makedirs(d, exist_ok=True)
    args = [binpath]
    if "u" in flags:
        args.append("-u")
    if "a" in flags:
        args.append("--ast")
    if mode in ("efile", "both"):
        p = os.path.join(d, "expr.txt")
        open(p, "w", encoding="utf-8").write(expr)
        args += ["-e", p]
    if mode == "efile-missing":
        args += ["-e", os.path.join(d, "no-such-expr-file")]
    stdin = b""
    if ik == "file":
        p = os.path.join(d, "in.json")
        open(p, "w", encoding="utf-8").write(doc)
        args += ["-f", p]
    elif ik == "file-missing":
        args += ["-f", os.path.join(d, "no-such-file.json")]
    elif ik == "file-badutf8":
        p = os.path.join(d, "bad.json")
        open(p, "wb").write(b"{\"a\": \"\xff\xfe\"}")
        args += ["-f", p]
    elif ik == "stdin-badutf8":
        stdin = b"[\"\xff\"]"
    elif ik == "file-dash":
        open(os.path.join(d, "-"), "w", encoding="utf-8").write(doc)
        args += ["-f", "-"]
        stdin = b"\"this is what arrives on stdin\""
    elif ik == "file-dash-missing":
        args += ["-f", "-"]
        stdin = doc.encode("utf-8")
    else:
        stdin = doc.encode("utf-8")
    if mode in ("pos", "both"):
        args += ["--", expr] if False else [expr]
    try:
        r = subprocess.run(args, input=stdin, stdout=subprocess.PIPE, stderr=subprocess.PIPE, timeout=20, cwd=d)
        return r.returncode, r.stdout, len(r.stderr) > 0
    except subprocess.TimeoutExpired:
        return "HANG", b"", False


def run(ctx):
    ok, out, binpath = C.cargo_build(package="jpwrap")
    if not ok:
        ctx.tie_broken("cargo build jpwrap (jmespath-cli/src/main.rs against /repo/jmespath)", out[-1500:])
        return
    shutil.rmtree(SCRATCH, ignore_errors=True)
    os.makedirs(SCRATCH, exist_ok=True)
    cases = [tuple(ctx.replay["case"])] if getattr(ctx, "replay", None) else gen(ctx)
    MK = {"file-dash": "file", "file-dash-missing": "file-missing"}      # for the model a file named "-" is a file
    lines = ["\t".join([c[0], C.hexs(c[1]), c[2], MK.get(c[3], c[3]), C.hexs(c[4])]) for c in cases]
    model = C.run_parallel([ctx.driver, "cli"], lines, idle_timeout=60)
    with concurrent.futures.ThreadPoolExecutor(max_workers=8) as ex:
        real = list(ex.map(lambda kc: run_real(binpath, kc[0], kc[1]), enumerate(cases)))
    # the library's own answer, via the harness, for runs that get as far as searching
    lib_lines = [C.hexs(c[4]) for c in cases]
    lib_json = C.run_parallel([ctx.harness, "json"], lib_lines)
    stats = dict(exit0=0, exit_nonzero=0, ast=0, unquoted_string=0)
    for c, m, (rc, so, se) in zip(cases, model, real):
        ctx.evaluations += 1
        case = list(c)
        f = S.kv_fields((m or "").split("\t"))
        if rc == "HANG" or (isinstance(rc, int) and rc < 0):
            ctx.violation("cli", case, f"exit {rc}", "a normal exit", "jp hung or was killed by a signal (panic/abort)")
            continue
        if rc == 101:
            ctx.violation("cli", case, "exit 101 (panic)", "a diagnosis and a non-zero exit without panicking", "jp panicked")
            continue
        # shape oracles on the binary alone
        if rc == 0:
            stats["exit0"] += 1
            if se:
                ctx.violation("cli", case, "exit 0 with output on stderr", "nothing on stderr when everything succeeds")
                continue
            if not so.endswith(b"\n"):
                ctx.violation("cli", case, repr(so[-40:]), "output followed by a newline")
                continue
        else:
            stats["exit_nonzero"] += 1
            if so or not se:
                ctx.violation("cli", case, f"exit {rc}, stdout {so[:60]!r}, stderr {'non-empty' if se else 'empty'}",
                              "on failure: nothing on stdout, a diagnosis on stderr")
                continue
        if "exit" not in f:
            ctx.tie_broken("stream cli: model driver", f"{case}: {m}")
            continue
        want_exit0 = f["exit"] == "0"
        if "<expression>" in C.unhexs(f.get("stdout", "")):
            continue       # an expression reference in the result: its Debug text is not modelled
        if (rc == 0) != want_exit0:
            ctx.violation("cli", case, f"exit {rc}", "exit 0" if want_exit0 else "a non-zero exit",
                          "exit status differs from what compilation / JSON parsing / search of the library give")
            continue
        if rc == 0:
            if "a" in c[2]:
                stats["ast"] += 1
                if not so.strip():
                    ctx.violation("cli", case, "empty stdout", "the parse tree", "--ast printed nothing")
                continue
            want = C.unhexs(f["stdout"]).encode("utf-8")
            if so != want:
                ctx.violation("cli", case, so[:300].decode("utf-8", "replace"), want[:300].decode("utf-8", "replace"),
                              "stdout is not the pretty-printed JSON of the library's search result (+ newline) / unquoted string")
                continue
            if "u" in c[2] and not so.startswith((b'"', b"{", b"[")) and not so.strip().replace(b".", b"").replace(b"-", b"").replace(b"e", b"").replace(b"+", b"").isdigit() \
                    and so.strip() not in (b"null", b"true", b"false"):
                stats["unquoted_string"] += 1
            if so.strip() not in (b"null",):
                ctx.nontrivial.add("\t".join(case))
        if len(ctx.samples) < 6 and ctx.evaluations % 67 == 1:
            ctx.samples.append(dict(case=case[:4] + [case[4][:60]], exit=rc, stdout=so[:80].decode("utf-8", "replace")))
    shutil.rmtree(SCRATCH, ignore_errors=True)
    ctx.coverage["stats"] = stats
    ctx.coverage["streams"] = ["cli (real binary, one process per case)"]
