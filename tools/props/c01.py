"""C01 — search results conform to the specification (core expression forms).
Theorems: lean/JmesVerif/Props/C01.lean."""
import common as C
import gen as G
import streams as S

ID = "C01"
MODULE = "JmesVerif.Props.C01Full"      # imports Props.C01 and re-prints its axioms
THEOREMS = ["C01_conformance", "C01_conformance_safe", "C01_search", "C01_unconditional_false", "C01_translated_truthy_type",
            "C01_conformance_full", "C01_conformance_full_safe", "C01_conformance_full_rt", "C01_search_full", "C01_search_full_safe", "SemFull_extends_Sem", "SemFull_covers_core", "SemFull_covered_disciplined", "SemFull_expref_positions", "C01_translated_interpreter"]
TRUSTED_BASE = [
    "Lean 4.33 kernel; axioms propext, Classical.choice, Quot.sound only",
    "hand-written models Model/Interp.lean (interpreter.rs), Model/Value.lean, Model/Slice.lean, Model/Compare.lean and the parser models, "
    "tied to the code by the `eval` stream of this run (implementation search vs model search on every generated pair)",
    "Spec/Sem.lean is the JMESPath specification's semantics of the core forms written over concrete syntax (comprehension style), "
    "independent of interpreter.rs; comparators are delegated to Val.compare whose contract is property C10; slices to Spec/PySlice (C07)",
]
ASSUMPTIONS = TRUSTED_BASE
RULE = ("(expression, document) pairs: corpus; the compliance suite's expressions x the suite's documents (cross product sample: the pairs "
        "the suite itself never evaluates); structured function-free expressions from the flat operand/operator grammar x random documents "
        "drawn from a shared key pool (heterogeneous arrays, missing keys, nulls, empty containers, nested, numeric extremes). "
        "Non-trivial = distinct pair whose result is neither null nor a compile error.")


def gen_cases(ctx):
    rng = ctx.rng
    q = ctx.tier == "quick"
    cases = []
    for l in S.load_corpus("C01"):
        e, d = l.split("\t", 1)
        cases.append((S.corpus_expr("expr\t" + e) if not e.startswith("hex:") else C.unhexs(e[4:]), d))
    pairs, docs = G.compliance_suite(C.REPO)
    core = [(e, d) for e, d in pairs]
    for _ in range(4000 if q else 600000):
        cases.append((rng.choice(core)[0], rng.choice(docs)))
    eg = G.ExprGen(rng, funcs=False)
    for _ in range(6000 if q else 1000000):
        cases.append((G.spell(rng, eg.expr()), G.rand_doc(rng, rng.choice([2, 3, 3, 4]))))
    # chains of postfix operators over table-shaped data: how far a projection's right-hand side extends decides the result
    core_postfix = [x for x in G.POSTFIXES if "(" not in x]
    for _ in range(3000 if q else 300000):
        e = rng.choice(["a", "b", "@.a", "*", "a[0]"]) + "".join(rng.choice(core_postfix) for _ in range(rng.randrange(2, 6)))
        cases.append((e, G.json_to_enc(G.table_doc(rng, rng.choice([2, 3])))))
    # comparators on pairs of values that are equal / differ in exactly one number, string or member name
    for _ in range(1500 if q else 200000):
        a, b = G.near_pair(rng)
        cases.append((rng.choice(G.CMP_EXPRS), "[ " + a + " " + b + " ]"))
    # literals whose spelling repeats an escape or a delimiter (the 2nd, 3rd … occurrence in one literal), used as operands of every core form
    lits = ["'a\\'b\\'c'", "'\\'\\''", "'O\\'Neil \\'Jr\\''", "'x\\\\y\\\\z'", "`\"a\\`b\\`c\"`", "`\"q\\\"r\\\"s\"`", "\"k\\\"1\\\"2\"", "'\\\\\\''", "`[\"\\`\", \"\\`\\`\"]`",
            "'\\n\\n'", "`\"\\n\\n\"`", "'a''b'"]
    for lt in lits:
        for tmpl in ["%s", "[%s, %s]", "{k: %s}.k", "a || %s", "[?name == %s].id", "[%s][0]", "%s == %s", "a == %s", "[*].[%s]", "%s | @", "!%s", "%s && a"]:
            cases.append((tmpl.replace("%s", lt), G.json_to_enc([{"name": "a'b'c", "id": 1}, {"name": "O'Neil 'Jr'", "id": 2}, {"name": "x\\y\\z", "id": 3}])))
            cases.append((tmpl.replace("%s", lt), G.json_to_enc({"a": "a'b'c", "k\"1\"2": 5})))
    return cases


def run(ctx):
    cases = [tuple(ctx.replay["case"])] if getattr(ctx, "replay", None) else gen_cases(ctx)
    impl, model = S.eval_run(ctx, cases)
    kinds = dict(value=0, null=0, compile_error=0, invalid_slice=0, other_error=0, core=0, noncore=0)
    for (e, d), i, m in zip(cases, impl, model):
        ctx.evaluations += 1
        ci, cm = S.canon_eval(i), S.canon_eval(m)
        tag = S.sem_tag(m)
        if ci == "C E":
            kinds["compile_error"] += 1
        elif ci == "ok n":
            kinds["null"] += 1
        elif ci.startswith("ok "):
            kinds["value"] += 1
            ctx.nontrivial.add((e, d))
        elif "invalid-slice" in ci:
            kinds["invalid_slice"] += 1
        else:
            kinds["other_error"] += 1
        if tag == "n/a":
            kinds["noncore"] += 1
            continue          # not a core expression (function call / expref): C02, C06
        if cm == "C E":
            if ci != "C E":
                # acceptance is C03's subject; a differing verdict on a core expression still breaks the tie here
                ctx.violation("eval", [e, d], ci[:300], "compile error", "the expression is not a sentence, yet it was searched")
            continue
        kinds["core"] += 1
        if tag is None or not (cm.startswith("ok ") or cm.startswith("E runtime invalid-slice")):
            ctx.tie_broken("stream eval: model driver on a core expression", f"{e!r} @ {d[:80]}: {m[:200] if m else m}")
            continue
        if tag != "ok":
            ctx.tie_broken("theorem C01_conformance vs driver self-check", f"{e!r} @ {d[:80]}: {tag[:200]}")
        # offsets of invalid-slice errors belong to C12; here only the class
        ci2 = "E invalid-slice" if "invalid-slice" in ci else ci
        cm2 = "E invalid-slice" if "invalid-slice" in cm else cm
        if ci2 != cm2:
            ctx.violation("eval", [e, d], ci[:400], cm2[:400],
                          "search result differs from the value the specification's semantics (Spec/Sem.lean) assigns")
        if len(ctx.samples) < 6 and ctx.evaluations % 1499 == 1:
            ctx.samples.append(dict(expression=e, document=d[:120], implementation=ci[:120], spec=cm2[:120]))
    ctx.coverage["result_kinds"] = kinds
    ctx.coverage["streams"] = ["eval"]
