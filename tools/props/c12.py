"""C12 — errors are classified and located truthfully.  Theorems: lean/JmesVerif/Props/C12.lean."""
import re
import common as C
import gen as G
import streams as S

ID = "C12"
MODULE = "JmesVerif.Props.C12"
THEOREMS = ["C12_linecol", "C12_linecol_boundary", "C12_render", "C12_token_positions", "C12_lex_error_position",
            "C12_parse_offsets", "C12_parse_error_offset", "C12_validate_error_offset", "C12_unknown_function_offset",
            "C12_invalid_slice_offset", "C12_error_vocabulary",
            "C12_runtime_error_names_call", "C12_runtime_error_located_deep", "C12_runtime_error_located", "C12_result_exprefs_from_input", "C12_parsed_literals_json", "C12_search_error_located", "C12_error_classes", "C12_no_panic_without_slice", "C12_slice_fault_needs_huge_array", "C12_literal_expref_escapes", "C12_internal_inhabited"]
TRUSTED_BASE = [
    "Lean 4.33 kernel; axioms propext, Classical.choice, Quot.sound only",
    "hand-written models Model/Errors.lean (JmespathError::new, Display), Model/Lexer.lean, Model/Parser.lean, Model/Interp.lean tied to the code "
    "by the `errfmt`, `parse` and `eval` streams of this run (error kind, fields, offset, line, column, rendered text)",
    "Spec.lineOf/colOf (zero-based line = newlines before the offset, column = characters since the last newline) as the meaning of the coordinates",
]
ASSUMPTIONS = TRUSTED_BASE
RULE = ("failing expressions and failing (expression, document) pairs: corpus; near-misses / token soup / character soup (compile errors) and "
        "structured expressions with function calls on random documents (runtime errors: unknown function, arity, type, return type, "
        "invalid slice), each also prefixed by a multi-line raw string with multi-byte characters so that line and column are non-trivial; "
        "`errfmt`: JmespathError::new on arbitrary (text, byte offset) incl. newlines and multi-byte characters before the offset. "
        "Non-trivial = distinct failing case.")


def spec_linecol(expr, off):
    b = expr.encode("utf-8")
    pos, line, col = 0, 0, 0
    for ch in expr:
        if pos >= off:
            break
        if ch == "\n":
            line, col = line + 1, 0
        else:
            col += 1
        pos += len(ch.encode("utf-8"))
    return line, col


def is_boundary(expr, off):
    b = expr.encode("utf-8")
    if off > len(b):
        return False
    try:
        b[:off].decode("utf-8")
        return True
    except UnicodeDecodeError:
        return False


ERR = re.compile(r"^(C )?E (\w+) (.*?) ?off=(\d+) line=(\d+) col=(\d+) expr=([0-9a-f]*)$")
PREFIXES = ["", "", "'a'\r && ", "'é\r\nb' &&\r\n", "'é\n😀' && ", "'x'\n  && \n", "'ü' &&\t"]


def gen_cases(ctx):
    rng = ctx.rng
    q = ctx.tier == "quick"
    cases = []
    for l in S.load_corpus("C12"):
        e, d = l.split("\t", 1)
        cases.append((C.unhexs(e[4:]) if e.startswith("hex:") else e, d or "n"))
    base = S.expr_cases(ctx, 4000 if q else 400000, 2500 if q else 250000, 500 if q else 50000, 500 if q else 50000, 300 if q else 30000)
    for _, e in base:
        cases.append((rng.choice(PREFIXES) + e, G.rand_doc(rng, 3)))
    # errors reported at the end of the input (the end marker sits at the BYTE length) after multi-byte characters
    for _ in range(300 if q else 6000):
        head = rng.choice(["'é' && ", "\"é😀\".", "'😀😀'|", "`\"中\"` || ", "é", "'ü'\n&& ", "\"k\u00e9y\"", "a.\"ß\"[", "'日本'"])
        tail = rng.choice(["a.", "a[", "a ||", "[a,", "{a:", "f(", "a[?b", "!", "a.b.", "a[1:", "a &&", "(a", "a |", "a ==", "[", "{", "a.*.", "f(a,", "&", "a[*].", ""])
        cases.append((head + tail, "n"))
    # step-0 slices wherever a slice can stand (the error points at that slice, also when an enclosing call is being evaluated)
    for _ in range(300 if q else 6000):
        sl = rng.choice(["[::0]", "[1:2:0]", "[ : : 0 ]", "[-1::0]"])
        t = rng.choice(["map(&@%s, a)", "sort_by(a, &@%s)", "max_by(a, &%s)", "a[*]%s", "a[*].b%s", "a%s.b", "length(a%s)", "[a%s, b]", "{k: a%s}",
                        "a[?@%s]", "map(&to_array(@)%s, a)", "sort_by(a, &b%s[0])", "not_null(a%s)", "a | @%s", "map(&[@, @%s], a)",
                        "abs(sum(a[*].b%s))", "min_by(a, &abs(b)%s)", "a && b%s", "a || map(&@%s, b)"])
        cases.append((rng.choice(PREFIXES) + t % sl, "{ s61 [ [ u1 ] { s62 [ u2 ] } u3 ] s62 [ [ ] ] }"))
    # long expressions: offsets, lines and columns beyond 255 and beyond 65535 (a narrowed counter would wrap)
    for k, (_, e) in enumerate(base[:60 if q else 2000]):
        pad = rng.choice(["'" + "x" * 300 + "' && ", "'" + "é" * 200 + "'\n&& ", "\n" * 300 + "'a' && ", " " * 70000 if k % 20 == 0 else " " * 700,
                          "'" + "y\n" * 400 + "' && ", "`\"" + "z" * 66000 + "\"` && " if k % 20 == 1 else "`\"" + "z" * 600 + "\"` && "])
        cases.append((pad + e, G.rand_doc(rng, 2)))
    for _ in range(300 if q else 30000):
        f = rng.choice(["sort_by", "max_by", "min_by"])
        cases.append((rng.choice(PREFIXES) + f"{f}(@, &{rng.choice(['a', '@', 'to_array(@)', 'b.c', 'to_string(@)'])})",
                      "[ " + " ".join(rng.choice(["u1", "s61", "n", "[ ]", "{ s61 u1 }", "{ s61 s62 }"]) for _ in range(rng.randrange(1, 4))) + " ]"))
    # by-functions whose key expression itself evaluates (successful) slices, indexes, nested calls and projections before the key turns out to have
    # the wrong type: whatever ran inside the expression reference, the error belongs to the by-function's own call
    byd = "[ { s61 s616263 s62 [ u1 u2 ] s63 { s64 [ s78 ] } } { s61 u5 s62 [ ] s63 { s64 [ ] } } { s61 [ s71 ] s62 s7a s63 n } ]"
    for f in ["sort_by", "max_by", "min_by"]:
        for key in ["a[0:2]", "b[:1]", "b[::-1][0]", "@.b[0:1]", "to_array(a)[0:1]", "[a, b][0:1]", "c.d[:1]", "b[1:][0]", "a[::-1]", "b[0]", "not_null(b[5:], a)",
                    "to_array(a)[-1]", "b[?@ > `1`]", "keys(@)[0:1]", "a[0:2] || a", "length(b[0:1]) && a", "map(&@[0:1], b)", "b[*][0:1]", "sort_by(b, &@)[0:1]", "c.*[0:1]"]:
            for pre in ("", PREFIXES[3], PREFIXES[5]):
                cases.append((pre + "%s(@, &%s)" % (f, key), byd))
                cases.append((pre + "%s(@, &%s) | [0]" % (f, key), byd))
    # numeric builtins at the edges of every number representation: whatever they do there, a failure must be a located runtime error
    # (the one listed exception is F14: sum / avg whose exact result is not a finite double)
    ext = ["i-9223372036854775808", "i-9223372036854775807", "u9223372036854775807", "u9223372036854775808", "u18446744073709551615", "u9007199254740993",
           "i-9007199254740993", G.f64_bits(-0.0), G.f64_bits(5e-324), G.f64_bits(1.7976931348623157e308), G.f64_bits(-1.7976931348623157e308), G.f64_bits(0.5),
           G.f64_bits(-9.223372036854775808e18), "u0", "i-1"]
    for x in ext:
        for f in ["abs", "ceil", "floor", "to_number", "to_string", "to_array", "type", "not_null"]:
            for pre in ("", PREFIXES[3]):
                cases.append((pre + "%s(@)" % f, x))
                cases.append((pre + "map(&%s(@), @)" % f, "[ " + x + " u1 ]"))
                cases.append((pre + "sort_by(@, &%s(@))" % f, "[ " + x + " u1 ]"))
        for f in ["sum", "avg", "max", "min", "sort", "reverse", "length"]:
            cases.append(("%s(@)" % f, "[ " + x + " ]"))
            cases.append(("%s(@)" % f, "[ " + x + " " + x + " ]"))
            cases.append(("%s([@[0], `1`])" % f, "[ " + x + " ]"))
    return cases


def run(ctx):
    cases = [tuple(ctx.replay["case"])] if getattr(ctx, "replay", None) and ctx.replay.get("stream") != "errfmt" else gen_cases(ctx)
    # the model's lexer recomputes positions from the remaining text (quadratic): expressions beyond a few thousand characters go to the
    # implementation only, where the checker's own line / column / caret oracle judges them; everything else also goes to the model
    small = [k for k, (e, _) in enumerate(cases) if len(e) <= 4000]
    impl = C.run_parallel([ctx.harness, "eval"], [C.hexs(e) + "\t" + d for e, d in cases])
    mres = C.run_parallel([ctx.driver, "eval"], [C.hexs(cases[k][0]) + "\t" + cases[k][1] for k in small], idle_timeout=60.0)
    model = [None] * len(cases)
    for k, r in zip(small, mres):
        model[k] = r
    kinds = {}
    f14 = None
    for (e, d), i, m in zip(cases, impl, model):
        ctx.evaluations += 1
        if i is None or not (i.startswith("E ") or i.startswith("C E ")):
            continue
        mm = ERR.match(i)
        if not mm:
            ctx.violation("eval", [e, d], i[:300], "a JmespathError", "unparseable failure")
            continue
        compile_err, cls, kind, off, line, col, ex = bool(mm.group(1)), mm.group(2), mm.group(3), int(mm.group(4)), int(mm.group(5)), int(mm.group(6)), C.unhexs(mm.group(7))
        kname = ("compile:" if compile_err else "search:") + cls + ":" + kind.split(" ")[0]
        kinds[kname] = kinds.get(kname, 0) + 1
        ctx.nontrivial.add((e, d))
        cm = S.canon_eval(m)
        bad = []
        if compile_err:
            if cls != "parse":
                bad.append("a compile failure that is not a parse error")
        else:
            if cls != "runtime":
                if "internal" in (m or "") or (m is None and e.lstrip().endswith(("sum(@)", "avg(@)"))):
                    f14 = f14 or (e, d)      # known class: model says the builtin's internal non-finite-number error
                    continue
                bad.append("a search failure on JSON data that is not a runtime error")
        if not bad:
            if ex != e:
                bad.append("the error does not carry the expression text")
            if not is_boundary(e, off):
                bad.append(f"offset {off} is not a character boundary inside the expression")
            elif (line, col) != spec_linecol(e, off):
                bad.append(f"line/column {(line, col)} are not those of offset {off}: {spec_linecol(e, off)}")
            if not compile_err and cls == "runtime":
                ch = e.encode("utf-8")[off:off + 1]
                if kind.startswith("invalid-slice"):
                    if ch != b"]":
                        bad.append("invalid-slice error does not point into the slice")
                elif ch != b"(":
                    bad.append(f"{kind.split(' ')[0]} error does not point at the opening parenthesis of a call")
        if bad:
            ctx.violation("eval", [e, d], i[:300], "; ".join(bad))
            continue
        ci = S.canon_eval(i)
        if m is None:
            continue
        if not compile_err and ci != cm:
            ctx.violation("eval", [e, d], ci[:300], cm[:300], "kind / fields / offset of the runtime error differ from the model of the code "
                          "(the offset must be that of the call that failed)")
        if len(ctx.samples) < 6 and ctx.evaluations % 1201 == 1:
            ctx.samples.append(dict(expression=e, document=d[:80], error=i[:160]))
    # errfmt ---------------------------------------------------------------------------------
    rng = ctx.rng
    fm = []
    for _ in range(3000 if ctx.tier == "quick" else 300000):
        s = "".join(rng.choice(["a", "b", "\n", "\n", "é", "😀", " ", ".", "~", "\t", "\r", "\r\n"]) for _ in range(rng.randrange(0, 14)))
        n = len(s.encode())
        fm.append((s, rng.choice([0, n, rng.randrange(0, n + 3)])))
    # coordinates beyond 255 / 65535 / 2^16 characters on ONE line and over many lines (narrow counters, width-limited formatting)
    for n in (254, 255, 256, 257, 65534, 65535, 65536, 65537, 70001, 131072):
        fm.append(("x" * (n + 3), n))
        fm.append(("é" * (n // 2 + 2), 2 * (n // 2)))
        fm.append(("ab\n" * 3 + "y" * (n + 1), 9 + n))
        fm.append(("\n" * n + "abc", n + 1))
    if getattr(ctx, "replay", None) and ctx.replay.get("stream") == "errfmt":
        fm = [tuple(ctx.replay["case"])]
    lines = [C.hexs(s) + "\t" + str(o) for s, o in fm]
    fi, fmo = S.run_both(ctx, "errfmt", lines)
    for (s, o), a, b in zip(fm, fi, fmo):
        ctx.evaluations += 1
        ctx.nontrivial.add((s, o))
        b0 = (b or "").split("\t")[0]
        if is_boundary(s, o):
            l, c = spec_linecol(s, o)
            if not (a or "").startswith(f"line={l} col={c} "):
                ctx.violation("errfmt", [s, o], (a or "NONE")[:200], f"line={l} col={c}", "line/column are not those of the byte offset")
                continue
            text = C.unhexs(a.split("text=")[1])
            want_lines = s.split("\n")
            caret = " " * c + "^"
            exp = "Parse error: x (line %d, column %d)\n" % (l, c)
            body = want_lines[:l + 1] + [caret] + want_lines[l + 1:]
            exp += "\n".join(body) + ("\n" if len(want_lines) == l + 1 else "")
            if text != exp:
                ctx.violation("errfmt", [s, o], text, exp, "rendered message does not show reason, coordinates and a caret under the column")
                continue
        if a != b0 and len(s) <= 4000:        # (longer texts are judged by the checker's own oracle above; the model driver is not asked to keep up)
            ctx.tie_broken("stream errfmt: model vs implementation", f"{(s, o)!r}: impl {a} model {b0}")
    listed = {k["id"]: k for k in ctx.known if k.get("status") == "known"}
    if f14:
        if "F14" in listed:
            ctx.known_hit("F14", f"{listed['F14']['what']} (e.g. {f14[0]!r})")
        else:
            ctx.violation("eval", list(f14), "parse-class error from search", "runtime error", "class F14 not listed as known")
    ctx.coverage["error_kinds"] = kinds
    ctx.coverage["streams"] = ["eval", "errfmt"]
