"""C17 — Cargo features change representation, not meaning.  Theorems: lean/JmesVerif/Props/C17.lean."""
import os
import struct
import common as C
import gen as G
import streams as S

ID = "C17"
MODULE = "JmesVerif.Props.C17"
THEOREMS = ["C17_specialized_eq_generic", "C17_features", "C17_all_sites_in_lib", "C17_sync_sites"]
TRUSTED_BASE = [
    "Lean 4.33 kernel; axioms propext, Classical.choice, Quot.sound only",
    "tools/translate.py (extraction of [features] and of every cfg(feature=…) site into Generated/Features.lean, re-run on every check)",
    "Model/Convert.lean: hand-written model of the ToJmespath conversions (generic serde path and the specialised impls of lib.rs), tied to the "
    "code by the `tojm` stream run under the four builds of this run",
    "cargo/rustc (stable and the installed nightly) for building the four feature sets from /repo's working tree",
]
ASSUMPTIONS = TRUSTED_BASE
RULE = ("the four builds {default, sync, specialized, sync+specialized} each run the same `eval`, `parse`, `serde` and `tojm` cases: structured and "
        "near-miss expressions on random documents; serde data-model values and typed decodes; inputs of every specially handled type "
        "(serde_json::Value / &Value, Variable / &Variable, Rcvar / &Rcvar, String / &str, all integer widths at their extremes, f32 / f64, "
        "bool, unit). Outputs must be identical across builds (and equal to the model's); non-finite floats are reported only. "
        "Non-trivial = distinct case whose default-build result is not an error.")

BUILDS = [("default", [], False, None), ("sync", ["sync"], False, "target-sync"), ("specialized", ["specialized"], True, "target-spec"),
          ("sync+specialized", ["sync", "specialized"], True, "target-syncspec")]


def tojm_cases(rng, n):
    out = []
    ints = {"i8": 8, "i16": 16, "i32": 32, "i64": 64, "isize": 64}
    uints = {"u8": 8, "u16": 16, "u32": 32, "u64": 64, "usize": 64}
    for k, b in ints.items():
        for v in (-(2 ** (b - 1)), 2 ** (b - 1) - 1, 0, -1, 1):
            out.append((k, str(v)))
    for k, b in uints.items():
        for v in (0, 2 ** b - 1, 1):
            out.append((k, str(v)))
    f32 = lambda x: "%08x" % struct.unpack("<I", struct.pack("<f", x))[0]
    f64 = lambda x: "%016x" % struct.unpack("<Q", struct.pack("<d", x))[0]
    for x in (0.0, -0.0, 0.1, 1.5, 3.4e38, 1e-45):
        out.append(("f32", f32(x)))
    for x in (0.0, -0.0, 0.1, 1e308, 5e-324, 2.0 ** 53 + 2):
        out.append(("f64", f64(x)))
    out += [("f32", "7f800000"), ("f32", "7fc00000"), ("f64", "7ff0000000000000"), ("f64", "fff0000000000000"), ("f64", "7ff8000000000000")]
    out += [("bool", "t"), ("bool", "f"), ("unit", "")]
    for s in ["", "a", "é😀", "q\"r\\", "\n"]:
        out += [("string", s.encode().hex()), ("str", s.encode().hex())]
    for _ in range(n):
        d = G.rand_doc(rng, rng.choice([1, 2, 3, 4]))
        out.append((rng.choice(["value", "valueref", "rcvar", "rcvarref", "variable", "variableref"]), d))
    # deep and wide inputs (depth 100 .. 400 — a JSON text parser would stop at 128, a value built in memory need not; arrays / objects /
    # strings of 255, 256, 257, 1000 elements): a conversion path with its own recursion or size limit differs from the other path here
    for depth in (100, 127, 128, 129, 130, 200, 400):
        for wrap in ("[ %s ]", "{ s61 %s }"):
            d = "u7"
            for _ in range(depth):
                d = wrap % d
            for kind in ("value", "valueref", "rcvar", "rcvarref", "variable", "variableref"):
                out.append((kind, d))
    # neighbouring elements that are == but not identical (1 / 1.0, 2^53 / 2^53+1, 0.0 / -0.0), directly and inside nested arrays / objects
    for _ in range(max(40, n // 4)):
        a = rng.choice([G.rand_scalar(rng), G.rand_doc(rng, 1), "u1", "u9007199254740993", G.f64_bits(0.3), "u0"])
        b = G.respell_numbers(rng, a)
        x, y = G.near_pair(rng, 1)
        for d in ("[ %s %s %s ]" % (a, b, a), "[ [ %s %s ] ]" % (a, b), "{ s6b [ [ %s %s %s ] ] }" % (b, a, b), "[ [ %s %s ] [ %s %s ] ]" % (x, y, y, x),
                  "[ [ [ %s %s ] ] %s ]" % (a, b, b)):
            out.append((rng.choice(["value", "valueref", "rcvar", "variable", "variableref", "rcvarref"]), d))
    for nel in (255, 256, 257, 1000):
        for d in ("[ " + " ".join("u%d" % (i % 10) for i in range(nel)) + " ]", "{ " + " ".join(G.enc_str("k%04d" % i) + " u1" for i in range(nel)) + " }",
                  G.enc_str("x" * nel), G.enc_str("é" * nel)):
            for kind in ("value", "valueref", "rcvar", "variableref"):
                out.append((kind, d))
        out += [("string", ("y" * nel).encode().hex()), ("str", ("é" * nel).encode().hex())]
    return out


def run(ctx):
    rng = ctx.rng
    q = ctx.tier == "quick"
    # 0. build the four feature sets from the working tree
    bins = {}
    for name, feats, nightly, tdir in BUILDS:
        ok, out, path = C.cargo_build(features=feats, nightly=nightly, target_dir=os.path.join(C.HARNESS, tdir) if tdir else None)
        if not ok:
            ctx.tie_broken(f"cargo build --features {','.join(feats) or '(none)'}", out[-1500:])
            continue
        bins[name] = path
    if "default" not in bins:
        return
    import props.c14 as c14
    streams = {}
    ec = S.expr_cases(ctx, 1500 if q else 200000, 400 if q else 50000, 100 if q else 15000, 100 if q else 15000, 100 if q else 15000)
    streams["eval"] = [C.hexs(e) + "\t" + G.rand_doc(rng, 3) for _, e in ec]
    streams["parse"] = [C.hexs(e) for _, e in ec[: len(ec) // 2]]
    sc = []
    for _ in range(800 if q else 100000):
        sc.append("ser\t" + " ".join(c14.rnd_sval(rng, rng.choice([1, 2, 3]), keys_ok=True).split()))
    for _ in range(800 if q else 100000):
        ti = rng.randrange(len(c14.TYPES))
        v = c14.conforming(rng, c14.TYPES[ti])
        if rng.random() < 0.4:
            m = c14.mutate(rng, v)
            v = m if c14.balanced(m) else v
        if c14.balanced(v):
            sc.append("de\t%d\t%s" % (ti, v))
    streams["serde"] = sc
    tj = tojm_cases(rng, 600 if q else 100000)
    streams["tojm"] = [k + "\t" + d for k, d in tj]
    sized = []
    for nel in (255, 256, 257, 300, 1000):
        docs = ["[ " + " ".join("u%d" % (i % 10) for i in range(nel)) + " ]", G.enc_str("x" * nel), G.enc_str("é" * nel),
                "{ " + " ".join(G.enc_str("k%05d" % i) + " u1" for i in range(nel)) + " }"]
        for d in docs:
            for e in ("length(@)", "reverse(@) | length(@)", "to_string(@) | length(@)", "keys(@) | length(@)", "[*] | length(@)", "sort(@)[0]",
                      "@[-1]", "[::2] | length(@)", "values(@) | length(@)", "to_array(@) | length(@)", "join('', @[*].to_string(@)) | length(@)"):
                sized.append(C.hexs(e) + "\t" + d)
    # order-sensitive builtins over ==-equal but differently spelled numbers (which of two equal maxima is returned must not depend on the build)
    for _ in range(300 if q else 20000):
        a = rng.choice(["u1", "u2", "u9007199254740993", G.f64_bits(0.3), "u0", "i-1", G.f64_bits(2.0), "u18446744073709551615"])
        b = G.respell_numbers(rng, a)
        c = rng.choice(["u0", "u5", a, b])
        xs = [a, b, c, b, a][:rng.randrange(2, 6)]
        rng.shuffle(xs)
        d = "[ " + " ".join(xs) + " ]"
        e = rng.choice(["max(@)", "min(@)", "sort(@)", "max_by(@, &@)", "min_by(@, &@)", "sort_by(@, &@)", "reverse(sort(@))", "[max(@), min(@)]", "sort(@)[0]", "sort(@)[-1]"])
        sized.append(C.hexs(e) + "\t" + d)
    # large arrays with several ill-typed elements (the first one in document order decides the error)
    for _ in range(6 if q else 200):
        nel = rng.choice([1024, 2048, 4097])
        xs = ["u%d" % (i % 7) for i in range(nel)]
        for _k in range(rng.randrange(2, 5)):
            xs[rng.randrange(nel)] = rng.choice(["t", G.enc_str("s"), "n", "[ ]"])
        for e in ("[*].abs(@)", "map(&abs(@), @)", "[?abs(@) > `0`]", "sum(@)"):
            sized.append(C.hexs(e) + "\t[ " + " ".join(xs) + " ]")
    # well-typed arrays whose lengths surround the powers of two from 1024 up and are NOT multiples of 2, 4, 8: however a build splits, chunks or
    # vectorises the work, every element must be processed exactly once, in order (results observed through length, ends and equality)
    for nel in ([1023, 1025, 1026, 1027, 2049, 4099] if q else [1023, 1024, 1025, 1026, 1027, 1029, 1031, 2047, 2049, 2050, 2051, 4095, 4097, 4099, 8193]):
        d = "[ " + " ".join("u%d" % ((i * 7) % 1000) for i in range(nel)) + " ]"
        for e in ("length(map(&@, @))", "map(&@, @) == @", "map(&@, @)[-1]", "map(&abs(@), @)[-3:]", "sort(@)[-1]", "length(sort_by(@, &@))", "sort_by(@, &@)[-2:]", "length([*])",
                  "[*].abs(@) | [-1]", "reverse(@)[0]", "sum(@)", "avg(@)", "max(@)", "min_by(@, &@)", "max_by(@, &@)", "[?@ >= `0`] | length(@)", "length([])",
                  "length(@)", "join('', map(&to_string(@), @)) | length(@)", "[::-1][0]", "[1:] | length(@)", "length(to_string(@))", "contains(@, `6`)"):
            sized.append(C.hexs(e) + "\t" + d)
    # the same inner text inside different delimiters, one after the other in ONE expression and in consecutive expressions of one process (a pool of
    # decoded texts shared between literal and quoted-identifier scanning — or keyed before un-escaping — confuses them; what one build rejects every build rejects)
    for inner in ['x\\`y', 'a', 'a b', '\\u0041', 'x\\"y', "x'y", 'x\\\\y', '1', 'true', 'é', 'x\\ny', '\\`', 'a\\`b\\`c']:
        lit, qid, raw = '`"%s"`' % inner, '"%s"' % inner, "'%s'" % inner
        for e in [lit, qid, "[%s, %s]" % (lit, qid), "[%s, %s]" % (qid, lit), "%s || %s" % (lit, qid), "{k: %s}.%s" % (lit, qid), "[%s, %s, %s]" % (raw, lit, qid),
                  "%s == %s" % (lit, raw), qid + "." + qid, "[%s, %s]" % (lit, lit)]:
            sized.append(C.hexs(e) + "\t{ s78 u1 }")
            streams["parse"].append(C.hexs(e))
    streams["eval"] = streams["eval"] + sized
    if getattr(ctx, "replay", None):
        streams = {ctx.replay["stream"]: [ctx.replay["case"]]}
    per_stream = {}
    nonfinite_diffs = 0
    for st, lines in streams.items():
        outs = {b: C.run_parallel([p, st], lines) for b, p in bins.items()}
        mlines = [c14.resolve_hr(l) for l in lines] if st == "serde" else lines     # the model has no human-readable switch node
        model = C.run_parallel([ctx.driver, st], mlines, idle_timeout=60)
        base = outs["default"]
        per_stream[st] = len(lines)
        for k, line in enumerate(lines):
            ctx.evaluations += 1
            ref = base[k] or "NONE"
            if not ref.startswith(("E", "C E", "ERR", "var=ERR\tjson=ERR")):
                ctx.nontrivial.add(st + "\t" + line)
            for b in bins:
                got = outs[b][k] or "NONE"
                if got != ref:
                    if st == "tojm" and line.split("\t")[0] in ("f32", "f64") and nonfinite(line):
                        nonfinite_diffs += 1
                        continue
                    ctx.violation(st, line if len(line) < 600 else line[:600], f"build `{b}`: {got[:200]}", f"build `default`: {ref[:200]}",
                                  "outcome differs between feature sets")
            # model: generic path for default/sync, specialised path for the specialized builds
            m = (model[k] or "NONE")
            if st == "tojm":
                f = S.kv_fields(m.split("\t"))
                if f.get("gen") != ref:
                    ctx.violation(st, line[:600], ref[:200], (f.get("gen") or m)[:200], "generic conversion differs from the model")
                sref = (outs.get("specialized") or base)[k] or "NONE"
                if "specialized" in bins and f.get("spec") != sref:
                    ctx.violation(st, line[:600], sref[:200], (f.get("spec") or m)[:200], "specialised conversion differs from the model")
            elif st == "eval":
                if m.startswith("FAULT"):
                    continue          # the model ran out of its evaluation fuel (documents of thousands of elements): no opinion
                if S.canon_eval(ref) != S.canon_eval(m):
                    ctx.violation(st, line[:600], S.canon_eval(ref)[:200], S.canon_eval(m)[:200], "default build differs from the model")
            elif st == "serde":
                if ref != m and not (line.startswith("ser") and c14.has_nonstring_key(c14.resolve_hr(line))):
                    ctx.violation(st, line[:600], ref[:200], m[:200], "default build differs from the model")
        if len(ctx.samples) < 8:
            ctx.samples.append(dict(stream=st, case=lines[0][:120], builds={b: (outs[b][0] or "")[:80] for b in bins}))
    ctx.coverage["builds"] = sorted(bins)
    ctx.coverage["cases_per_stream"] = per_stream
    ctx.coverage["non_finite_float_inputs_differing (outside the quantifier)"] = nonfinite_diffs
    ctx.coverage["streams"] = ["features = eval, parse, serde, tojm under four builds"]


def nonfinite(line):
    kind, data = line.split("\t")
    if kind == "f32":
        b = int(data, 16)
        return (b >> 23) & 0xff == 0xff
    b = int(data, 16)
    return (b >> 52) & 0x7ff == 0x7ff
