"""C15 — calls follow the runtime registry; custom functions receive evaluated arguments.
Theorems: lean/JmesVerif/Props/C15.lean."""
import re
import common as C
import gen as G
import streams as S

ID = "C15"
MODULE = "JmesVerif.Props.C15"
THEOREMS = ["C15_lookup_is_last_live", "C15_fresh_runtime_empty", "C15_call_follows_registry", "C15_args_in_order",
            "C15_expref_unevaluated", "C15_custom_signature_guards", "C15_custom_closure"]
TRUSTED_BASE = [
    "Lean 4.33 kernel; axioms propext, Classical.choice, Quot.sound only",
    "hand-written model Model/Registry.lean of runtime.rs (HashMap as an association list; insert/remove/register_builtin_functions) and "
    "Model/Interp.lean's call path, tied to the code by the `registry` stream of this run: random register/deregister/register-builtins "
    "histories on a fresh Runtime followed by call expressions; custom functions return {id, args} so identity and received arguments are observable",
]
ASSUMPTIONS = TRUSTED_BASE
RULE = ("histories of 0-8 operations over a small name pool (builtin names and new names; custom functions with ids and one of 12 signatures (typed variadic tails, nested / union typed-array element types) "
        "incl. none), then 3-6 call expressions (registered, shadowed, deregistered, unknown names; nested calls; expref arguments; wrong "
        "arity/types). Expected name binding is also computed by the checker itself (last live registration). Non-trivial = distinct "
        "history with at least one register and one query that reaches a custom function.")

NAMES = ["abs", "length", "max", "sort_by", "foo", "bar", "id", "map", "Abs", "LENGTH", "Foo", "FOO", "sort_By", "foo_", "_foo", "abs2"]
QUERIES = ["{f}(@)", "{f}(a, b)", "{f}(&a, @)", "{f}()", "{f}(`1`, 'x')", "{f}({g}(@))", "[{f}(@), {g}(a)]", "{f}(@, &{g}(@))",
           "a.{f}(@)", "{f}(`[1,2]`)", "{f}(`[\"a\"]`)", "{f}(*)", "{f}(@).args[0]",
           # variadic tails: every argument after the declared ones is checked against the variadic type, not only the first
           "{f}('a', 'b', 'c')", "{f}('a', 'b', `1`)", "{f}('a', 'b', 'c', @)", "{f}(`1`, `2`, 'x')", "{f}(`1`, `2`, `3`, `null`, a)",
           "{f}(`1`, `null`, `2`, 'x')", "{f}('a', `1`)", "{f}(`1`, `2`, `3`, `4`)",
           # compound element types of typed arrays: every element is checked against the element type, not only the first
           "{f}(`[[1,2],[3]]`)", "{f}(`[[1,2],[\"a\"]]`)", "{f}(`[\"a\",1,\"b\"]`)", "{f}(`[\"a\",1,null]`)", "{f}(`[[null,\"a\"],[]]`)",
           "{f}(`[[null],[1]]`)", "{f}(`[[1],2]`)", "{f}(`[]`)", "{f}(`[[\"a\"]]`, `[1]`, `2`)",
           # calls inside the expression reference of a higher-order builtin use the same registry as everything else
           "max_by(@, &{f}(@))", "min_by(a, &{f}(@))", "sort_by(@, &{f}(@).id)", "map(&{f}(@), @)", "max_by(`[1,2]`, &{f}(@).id)",
           "min_by(`[1,2]`, &{f}(@).id)", "map(&{f}(@).id, `[1,\"a\"]`)", "sort_by(`[\"b\",\"a\"]`, &{f}(@).args[0])",
           # every kind of expression as an argument (each is evaluated against the current node, in source order): bare indexes from either end,
           # slices, projections, flatten, multi-selects, boolean forms, comparisons, pipes, parentheses, filters
           "{f}([-1])", "{f}([0], [-2])", "{f}(@[-1], [-1])", "{f}([1:])", "{f}([::-1], [0])", "{f}([*])", "{f}([])", "{f}([*].a, [-1].a)",
           "{f}(!a, !@)", "{f}(a || b, a && b)", "{f}(a == b, @ == @)", "{f}([a, b], {{x: a}})", "{f}((a), (@))", "{f}([?a])", "{f}(a | b, @ | [0])",
           # the SAME value in neighbouring positions whose declared types differ (last declared vs first variadic, declared vs declared)
           "{f}(@, @)", "{f}(a, a)", "{f}(@.a, a)", "{f}(@, @, @)", "{f}(a, a, 'x')", "{f}(`[1]`, `[1]`)", "{f}(b, b, b)", "{f}(@, a, a)", "{f}('s', 's')", "{f}(a, b, b)",
           "{f}([-1], [-2], [-3], [0], [1])", "[*].{f}([-1], @)", "a | {f}([-1])", "{f}(a[-1], b[0], [-1][-1])", "{f}(`[1,2,3]`[-1], 'x')"]


# the harness's signature menu, restated for the checker-side guard oracle: (declared types, variadic type)
SIGS = {13: (["array"], "string"), 14: (["any", "object"], "number"), 1: (["any"], None), 2: (["number", "string"], None), 4: (["any"], "any"), 7: (["string"], "string"), 8: ([], "number"),
        9: (["number"], "number|null"), 6: ([], None)}
LIT = re.compile(r"^(?:'[^']*'|`-?[0-9]+`|`null`)$")


def lit_type(a):
    return "string" if a[0] == "'" else ("null" if a == "`null`" else "number")


def guard_expect(sig, args):
    """True / False = validation of literal arguments succeeds / fails; None = not decidable here"""
    if sig not in SIGS or not all(LIT.match(a) for a in args):
        return None
    decl, var = SIGS[sig]
    if len(args) < len(decl) or (var is None and len(args) > len(decl)):
        return False
    types = decl + [var] * (len(args) - len(decl))
    return all(t == "any" or lit_type(a) in t.split("|") for t, a in zip(types, args))


def spec_binding(ops):
    """name -> ('custom', id, sig) | ('builtin',) | None  by the last-live rule"""
    env = {}
    for op in ops:
        if op[0] == "r":
            env[op[1]] = ("custom", op[2], op[3])
        elif op[0] == "d":
            env.pop(op[1], None)
        else:
            for b in G.BUILTINS:
                env[b] = ("builtin",)
    return env


def gen(ctx):
    rng = ctx.rng
    n = 1500 if ctx.tier == "quick" else 200000
    cases = []
    for _ in range(n):
        ops = []
        for _ in range(rng.randrange(0, 9)):
            r = rng.random()
            if r < 0.55:
                ops.append(("r", rng.choice(NAMES), rng.randrange(1, 50), rng.randrange(0, 16)))
            elif r < 0.8:
                ops.append(("d", rng.choice(NAMES)))
            else:
                ops.append(("b",))
        qs = []
        for _ in range(rng.randrange(3, 7)):
            reg = [o[1] for o in ops if o[0] == "r"]
            f = rng.choice(reg) if reg and rng.random() < 0.6 else rng.choice(NAMES + ["nope"])
            qs.append(rng.choice(QUERIES).format(f=f, g=rng.choice(reg) if reg and rng.random() < 0.5 else rng.choice(NAMES)))
        doc = G.rand_doc(rng, 2)
        if rng.random() < 0.35:      # array documents, so that indexes / slices / projections used as arguments select something
            doc = "[ " + " ".join(G.rand_doc(rng, 1) for _ in range(rng.randrange(1, 5))) + " ]"
        cases.append((ops, doc, qs))
    # the same function called with arguments that do and do not satisfy its signature, alternately, within ONE history (a validator that remembers
    # what it accepted last — by call shape, by address — lets the next ill-typed call through): bad, good, bad, good, bad
    alt = {5: ("`[1,2]`", "`[1,\"a\"]`"), 10: ("`[[1],[2]]`", "`[[1],[\"a\"]]`"), 11: ("`[\"a\",1]`", "`[\"a\",null]`"), 12: ("`[[null,\"a\"],[]]`", "`[[null],[1]]`"),
           13: ("`[1]`, 'x'", "`[1]`, `[2]`"), 2: ("`1`, 'x'", "'x', `1`"), 7: ("'a', 'b'", "'a', `1`"), 9: ("`1`, `null`", "`1`, 'x'"), 3: ("&a, `[1]`", "&a, `1`")}
    for sig, (good, bad) in sorted(alt.items()):
        for pre in ([("b",)], []):
            ops = pre + [("r", "foo", 7, sig), ("r", "bar", 8, sig)]
            qs = ["foo(%s)" % bad, "foo(%s)" % good, "foo(%s)" % bad, "bar(%s)" % bad, "foo(%s)" % good, "bar(%s)" % good, "bar(%s)" % bad, "foo(%s)" % bad]
            cases.append((ops, "n", qs))
    return cases


def encode(case):
    ops, doc, qs = case
    o = ";".join("r:%s:%d:%d" % (C.hexs(x[1]), x[2], x[3]) if x[0] == "r" else ("d:" + C.hexs(x[1]) if x[0] == "d" else "b") for x in ops)
    return o + "\t" + doc + "\t" + ",".join(C.hexs(q) for q in qs)


def run(ctx):
    import re
    cases = [tuple(ctx.replay["case"])] if getattr(ctx, "replay", None) else gen(ctx)
    cases = [(tuple(tuple(o) for o in c[0]), c[1], list(c[2])) for c in cases]
    lines = [encode(c) for c in cases]
    impl, model = S.run_both(ctx, "registry", lines)
    stats = dict(queries=0, custom_hits=0, unknown=0, builtin=0)
    top = re.compile(r"^([A-Za-z_][A-Za-z0-9_]*)\(")
    for c, i, m in zip(cases, impl, model):
        ctx.evaluations += 1
        ops, doc, qs = c
        ri = (i or "NONE").split(" | ")
        rm = (m or "NONE").split(" | ")
        env = spec_binding(ops)
        if len(ri) != len(qs):
            ctx.violation("registry", [list(ops), doc, qs], (i or "NONE")[:300], "one result per query")
            continue
        hit = False
        for q, a, b in zip(qs, ri, rm + ["NONE"] * len(qs)):
            stats["queries"] += 1
            ca, cb = S.canon_eval(a), S.canon_eval(b)
            # checker-side oracle for a top-level call f(...): which function answered?
            mt = top.match(q)
            if mt and not q.endswith(".args[0]"):
                f = mt.group(1)
                bind = env.get(f)
                if bind is None:
                    stats["unknown"] += 1
                    # arguments are evaluated first: an error inside an argument may come first; otherwise unknown-function
                    if ca.startswith("ok ") or (ca.startswith("E runtime") and "unknown-function name=" + C.hexs(f) not in ca and "unknown-function" in ca and False):
                        ctx.violation("registry", [list(ops), doc, qs], f"{q}: {ca[:200]}", f"unknown-function {f} (not registered at this point)")
                        continue
                elif bind[0] == "custom":
                    argtxt = q[len(f) + 1:-1] if q.endswith(")") else None
                    exp = guard_expect(bind[2], [x.strip() for x in argtxt.split(",")] if argtxt else []) if argtxt is not None else None
                    if exp is not None and ca.startswith("ok ") != exp:
                        stats["guard_decided"] = stats.get("guard_decided", 0) + 1
                        ctx.violation("registry", [list(ops), doc, qs], f"{q}: {ca[:200]}",
                                      ("the custom function runs (arguments satisfy its signature)" if exp else
                                       "an arity / invalid-type error: the arguments do not satisfy the custom function's signature, so it must not run"))
                        continue
                    if exp is not None:
                        stats["guard_decided"] = stats.get("guard_decided", 0) + 1
                    if ca.startswith("ok "):
                        hit = True
                        stats["custom_hits"] += 1
                        if " s6964 u%d }" % bind[1] not in ca:
                            ctx.violation("registry", [list(ops), doc, qs], f"{q}: {ca[:200]}",
                                          f"answered by custom function id {bind[1]} (the most recent live registration of {f})")
                            continue
                else:
                    stats["builtin"] += 1
                    if ca.startswith("ok { s61726773 ") and " s6964 u" in ca and f != "merge":
                        ctx.violation("registry", [list(ops), doc, qs], f"{q}: {ca[:200]}", f"answered by the builtin {f}")
                        continue
            if ca != cb:
                ctx.violation("registry", [list(ops), doc, qs], f"{q}: {ca[:300]}", f"{q}: {cb[:300]}",
                              "differs from the model (registry lookup / evaluated arguments / signature guard)")
        if hit and any(o[0] == "r" for o in ops):
            ctx.nontrivial.add(lines[cases.index(c)] if False else encode(c))
        if len(ctx.samples) < 5 and ctx.evaluations % 301 == 1:
            ctx.samples.append(dict(ops=[list(o) for o in ops], document=doc[:60], queries=qs, results=ri))
    ctx.coverage["stats"] = stats
    ctx.coverage["streams"] = ["registry"]
