"""C15 — calls follow the runtime registry; custom functions receive evaluated arguments.
Theorems: lean/JmesVerif/Props/C15.lean."""
import common as C
import gen as G
import streams as S

ID = "C15"
MODULE = "JmesVerif.Props.C15"
THEOREMS = ["C15_lookup_is_last_live", "C15_fresh_runtime_empty", "C15_call_follows_registry", "C15_args_in_order",
            "C15_expref_unevaluated", "C15_custom_signature_guards", "C15_custom_closure"]
TRUSTED_BASE = [
    "Lean 4.33 kernel; axioms propext, Classical.choice, Quot.sound only",
    "hand-written model Model/Registry.lean of runtime.rs (HashMap as an association list; insert/remove/register_builtin_functions) and "
    "Model/Interp.lean's call path, tied to the code by the `registry` stream of this run: random register/deregister/register-builtins "
    "histories on a fresh Runtime followed by call expressions; custom functions return {id, args} so identity and received arguments are observable",
]
ASSUMPTIONS = TRUSTED_BASE
RULE = ("histories of 0-8 operations over a small name pool (builtin names and new names; custom functions with ids and one of 6 signatures "
        "incl. none), then 3-6 call expressions (registered, shadowed, deregistered, unknown names; nested calls; expref arguments; wrong "
        "arity/types). Expected name binding is also computed by the checker itself (last live registration). Non-trivial = distinct "
        "history with at least one register and one query that reaches a custom function.")

NAMES = ["abs", "length", "max", "sort_by", "foo", "bar", "id", "map"]
QUERIES = ["{f}(@)", "{f}(a, b)", "{f}(&a, @)", "{f}()", "{f}(`1`, 'x')", "{f}({g}(@))", "[{f}(@), {g}(a)]", "{f}(@, &{g}(@))",
           "a.{f}(@)", "{f}(`[1,2]`)", "{f}(`[\"a\"]`)", "{f}(*)", "{f}(@).args[0]"]


def spec_binding(ops):
    """name -> ('custom', id, sig) | ('builtin',) | None  by the last-live rule"""
    env = {}
    for op in ops:
        if op[0] == "r":
            env[op[1]] = ("custom", op[2], op[3])
        elif op[0] == "d":
            env.pop(op[1], None)
        else:
            for b in G.BUILTINS:
                env[b] = ("builtin",)
    return env


def gen(ctx):
    rng = ctx.rng
    n = 1500 if ctx.tier == "quick" else 40000
    cases = []
    for _ in range(n):
        ops = []
        for _ in range(rng.randrange(0, 9)):
            r = rng.random()
            if r < 0.55:
                ops.append(("r", rng.choice(NAMES), rng.randrange(1, 50), rng.randrange(0, 7)))
            elif r < 0.8:
                ops.append(("d", rng.choice(NAMES)))
            else:
                ops.append(("b",))
        qs = []
        for _ in range(rng.randrange(3, 7)):
            qs.append(rng.choice(QUERIES).format(f=rng.choice(NAMES + ["nope"]), g=rng.choice(NAMES)))
        doc = G.rand_doc(rng, 2)
        cases.append((ops, doc, qs))
    return cases


def encode(case):
    ops, doc, qs = case
    o = ";".join("r:%s:%d:%d" % (C.hexs(x[1]), x[2], x[3]) if x[0] == "r" else ("d:" + C.hexs(x[1]) if x[0] == "d" else "b") for x in ops)
    return o + "\t" + doc + "\t" + ",".join(C.hexs(q) for q in qs)


def run(ctx):
    import re
    cases = [tuple(ctx.replay["case"])] if getattr(ctx, "replay", None) else gen(ctx)
    cases = [(tuple(tuple(o) for o in c[0]), c[1], list(c[2])) for c in cases]
    lines = [encode(c) for c in cases]
    impl, model = S.run_both(ctx, "registry", lines)
    stats = dict(queries=0, custom_hits=0, unknown=0, builtin=0)
    top = re.compile(r"^([A-Za-z_][A-Za-z0-9_]*)\(")
    for c, i, m in zip(cases, impl, model):
        ctx.evaluations += 1
        ops, doc, qs = c
        ri = (i or "NONE").split(" | ")
        rm = (m or "NONE").split(" | ")
        env = spec_binding(ops)
        if len(ri) != len(qs):
            ctx.violation("registry", [list(ops), doc, qs], (i or "NONE")[:300], "one result per query")
            continue
        hit = False
        for q, a, b in zip(qs, ri, rm + ["NONE"] * len(qs)):
            stats["queries"] += 1
            ca, cb = S.canon_eval(a), S.canon_eval(b)
            # checker-side oracle for a top-level call f(...): which function answered?
            mt = top.match(q)
            if mt and not q.endswith(".args[0]"):
                f = mt.group(1)
                bind = env.get(f)
                if bind is None:
                    stats["unknown"] += 1
                    # arguments are evaluated first: an error inside an argument may come first; otherwise unknown-function
                    if ca.startswith("ok ") or (ca.startswith("E runtime") and "unknown-function name=" + C.hexs(f) not in ca and "unknown-function" in ca and False):
                        ctx.violation("registry", [list(ops), doc, qs], f"{q}: {ca[:200]}", f"unknown-function {f} (not registered at this point)")
                        continue
                elif bind[0] == "custom":
                    if ca.startswith("ok "):
                        hit = True
                        stats["custom_hits"] += 1
                        if " s6964 u%d }" % bind[1] not in ca:
                            ctx.violation("registry", [list(ops), doc, qs], f"{q}: {ca[:200]}",
                                          f"answered by custom function id {bind[1]} (the most recent live registration of {f})")
                            continue
                else:
                    stats["builtin"] += 1
                    if ca.startswith("ok { s61726773 ") and " s6964 u" in ca and f != "merge":
                        ctx.violation("registry", [list(ops), doc, qs], f"{q}: {ca[:200]}", f"answered by the builtin {f}")
                        continue
            if ca != cb:
                ctx.violation("registry", [list(ops), doc, qs], f"{q}: {ca[:300]}", f"{q}: {cb[:300]}",
                              "differs from the model (registry lookup / evaluated arguments / signature guard)")
        if hit and any(o[0] == "r" for o in ops):
            ctx.nontrivial.add(lines[cases.index(c)] if False else encode(c))
        if len(ctx.samples) < 5 and ctx.evaluations % 301 == 1:
            ctx.samples.append(dict(ops=[list(o) for o in ops], document=doc[:60], queries=qs, results=ri))
    ctx.coverage["stats"] = stats
    ctx.coverage["streams"] = ["registry"]
