"""C14 — serde bridge: typed values are searched as their JSON image and decode back.
Theorems: lean/JmesVerif/Props/C14.lean."""
import struct
import common as C
import gen as G
import streams as S

ID = "C14"
MODULE = "JmesVerif.Props.C14"
THEOREMS = ["C14_ser_eq_serde_json", "C14_de_eq_serde_json", "C14_tuple_length_counterexample", "C14_lenient_extends_strict", "C14_roundtrip"]
TRUSTED_BASE = [
    "Lean 4.33 kernel; axioms propext, Classical.choice, Quot.sound only",
    "Model/Serde.lean: hand-written model of variable.rs's Serializer and Deserializer-for-Variable against serde's standard and "
    "derive-generated visitors, tied to the code by the `serde` stream of this run (a dynamic `impl Serialize` hits every serializer "
    "entry point; 36 concrete derive(Deserialize) types are decoded by the library and by serde_json from the same data)",
    "serde, serde_derive and serde_json are external: `svToJson` / `deJson` are the *specification* (what serde_json does), modelled and "
    "validated by the same stream (real serde_json::to_value / from_value run next to the library on every case), not verified",
]
ASSUMPTIONS = TRUSTED_BASE
RULE = ("`ser`: random values of the serde data model (all 29 serializer entry points: integers of every width at their extremes, f32/f64 incl. "
        "non-finite, char, bytes, options, unit forms, the four enum variant shapes, seq/tuple/tuple struct, string-keyed maps (str and char "
        "keys), structs; nested to depth 4) plus a minority with non-string map keys (outside the property: only model agreement is checked); "
        "`de`: for each of 36 concrete Rust types a conforming value and mutations of it (wrong kinds, missing / extra elements and fields, "
        "out-of-range and fractional numbers, unknown / malformed variants). Non-trivial = distinct case whose serde_json side succeeds.")

INTW = [("i8", -128, 127), ("i16", -2 ** 15, 2 ** 15 - 1), ("i32", -2 ** 31, 2 ** 31 - 1), ("i64", -2 ** 63, 2 ** 63 - 1),
        ("u8", 0, 255), ("u16", 0, 2 ** 16 - 1), ("u32", 0, 2 ** 32 - 1), ("u64", 0, 2 ** 64 - 1)]
NAMES = ["A", "B", "Cc", "é", "k", "x y"]
hx = lambda s: s.encode("utf-8").hex() or "00"[:0]


def f32bits(x):
    return "%08x" % struct.unpack("<I", struct.pack("<f", x))[0]


def f64bits(x):
    return "%016x" % struct.unpack("<Q", struct.pack("<d", x))[0]


def rnd_sval(rng, depth=3, keys_ok=True):
    r = rng.random()
    if depth <= 0 or r < 0.35:
        k = rng.randrange(10)
        if k == 0:
            return "b:" + rng.choice("tf")
        if k in (1, 2):
            w, lo, hi = rng.choice(INTW)
            return f"{w}:{rng.choice([lo, hi, 0, 1, rng.randrange(lo, hi + 1)])}"
        if k == 3:
            return "f32:" + rng.choice([f32bits(0.1), f32bits(-1.5), "7f800000", "ff800000", "7fc00000", f32bits(3.4e38), "00000001", "80000000"])
        if k == 4:
            return "f64:" + rng.choice([f64bits(0.1), f64bits(-2.5), "7ff0000000000000", "7ff8000000000000", f64bits(1e308), "0000000000000001", f64bits(-0.0)])
        if k == 5:
            return "c:%d" % rng.choice([97, 233, 0x1F600, 0, 0x10FFFF, 34, 92])
        if k == 6:
            return "s:" + hx(rng.choice(["", "a", "é😀", "q\"r", "\n"]))
        if k == 7:
            return "y:" + bytes(rng.randrange(256) for _ in range(rng.randrange(0, 4))).hex()
        if k == 8:
            return rng.choice(["none", "unit", f"( ustruct {hx('U')} )", f"( uvar {hx('E')} {rng.randrange(3)} {hx(rng.choice(NAMES))} )"])
        return "s:" + hx(rng.choice(NAMES))
    sub = lambda: rnd_sval(rng, depth - 1, keys_ok)
    k = rng.randrange(10)
    if rng.random() < 0.06:
        # a value whose Serialize impl consults `is_human_readable()` (std::net::IpAddr, uuid, chrono …): JSON is human readable
        return f"( hr {sub()} {sub()} )"
    if k == 0:
        return f"( some {sub()} )"
    if k == 1:
        return f"( nstruct {hx('N')} {sub()} )"
    if k == 2:
        return f"( nvar {hx('E')} 1 {hx(rng.choice(NAMES))} {sub()} )"
    n = rng.randrange(0, 4)
    if k == 3:
        return "( seq " + " ".join(sub() for _ in range(n)) + " )"
    if k == 4:
        return "( tuple " + " ".join(sub() for _ in range(n)) + " )"
    if k == 5:
        return f"( tstruct {hx('T')} " + " ".join(sub() for _ in range(n)) + " )"
    if k == 6:
        return f"( tvar {hx('E')} 2 {hx(rng.choice(NAMES))} " + " ".join(sub() for _ in range(n)) + " )"
    if k == 7:
        def key():
            if keys_ok or rng.random() < 0.7:
                return "s:" + hx(rng.choice(NAMES + ["", "dup", "dup"])) if rng.random() < 0.85 else "c:%d" % rng.choice([97, 233])
            return rng.choice(["u8:1", "b:t", "( seq )", "none", "f64:" + f64bits(1.5), f"( uvar {hx('E')} 0 {hx('A')} )", "unit", f"( nstruct {hx('N')} s:{hx('k')} )"])
        return "( map " + " ".join(key() + " " + sub() for _ in range(n)) + " )"
    if k == 8:
        return f"( struct {hx('S')} " + " ".join(hx(rng.choice(NAMES)) + " " + sub() for _ in range(n)) + " )"
    return f"( svar {hx('E')} 3 {hx(rng.choice(NAMES))} " + " ".join(hx(rng.choice(NAMES)) + " " + sub() for _ in range(n)) + " )"


def _end(toks, i):
    if toks[i] != "(":
        return i + 1
    d = 0
    while True:
        if toks[i] == "(":
            d += 1
        elif toks[i] == ")":
            d -= 1
            if d == 0:
                return i + 1
        i += 1


def _resolve(toks):
    out, i = [], 0
    while i < len(toks):
        if toks[i] == "(" and i + 1 < len(toks) and toks[i + 1] == "hr":
            j = _end(toks, i + 2)
            k = _end(toks, j)
            out += _resolve(toks[i + 2:j])
            i = k + 1
        else:
            out.append(toks[i])
            i += 1
    return out


def resolve_hr(case):
    if not case.startswith("ser\t") or "( hr " not in case:
        return case
    return "ser\t" + " ".join(_resolve(case[4:].split(" ")))


# shapes mirrored from notes/serde-protocol.md -------------------------------------------------
I = lambda s, b: ("int", s, b)
P = ("struct", [("a", I(True, 32)), ("b", ("string",))])
E = ("enum", [("A", ("unit",)), ("B", ("newtype", I(True, 32))), ("C", ("tuple", [I(True, 32), ("string",)])),
              ("D", ("struct", [("p", I(False, 8)), ("q", ("option", ("bool",)))]))])
N = ("newtype", I(True, 16))
T2 = ("tuple", [I(True, 32), I(True, 32)])
F = ("enum", [("O", ("newtype", ("option", I(True, 32)))), ("U", ("newtype", ("unit",))), ("S", ("newtype", ("ustruct",))),
              ("V", ("newtype", ("seq", I(True, 32)))), ("X", ("unit",))])
TYPES = [("bool",), I(True, 8), I(True, 16), I(True, 32), I(True, 64), I(False, 8), I(False, 16), I(False, 32), I(False, 64),
         ("f32",), ("f64",), ("char",), ("string",), ("unit",), ("option", I(True, 32)),
         ("seq", I(True, 64)), ("seq", ("option", ("string",))), ("tuple", [I(True, 32), I(True, 32)]), ("tuple", [I(False, 8), ("string",), ("f64",)]),
         ("map", I(True, 32)), P,
         ("struct", [("x", ("option", I(False, 8))), ("y", ("seq", P)), ("z", ("tuple", [I(True, 64), ("bool",)]))]),
         N, T2, ("ustruct",), E, ("option", E), ("seq", E), ("map", ("seq", T2)), ("option", ("unit",)),
         ("tuple", [I(True, 32)]), ("seq", ("tuple", [("string",), ("bool",)])),
         ("struct", [("e", E), ("n", N), ("u", ("ustruct",)), ("o", ("option", P))]),
         F, ("seq", F), ("map", I(True, 32))]


def conforming(rng, sh, extras=True):
    """a typed-encoding value the type accepts"""
    k = sh[0]
    if k == "bool":
        return rng.choice(["t", "f"])
    if k == "int":
        lo, hi = (-(2 ** (sh[2] - 1)), 2 ** (sh[2] - 1) - 1) if sh[1] else (0, 2 ** sh[2] - 1)
        v = rng.choice([lo, hi, 0, 1, rng.randrange(lo, hi + 1)])
        return ("i%d" % v) if v < 0 else ("u%d" % v)
    if k in ("f32", "f64"):
        return rng.choice(["u3", "i-2", G.f64_bits(0.1), G.f64_bits(1.5), G.f64_bits(1e300), "u18446744073709551615", G.f64_bits(16777217.0)])
    if k == "char":
        return G.enc_str(rng.choice(["a", "é", "😀"]))
    if k == "string":
        return G.enc_str(rng.choice(["", "ab", "é😀"]))
    if k in ("unit", "ustruct"):
        return "n"
    if k == "option":
        return "n" if rng.random() < 0.3 else conforming(rng, sh[1])
    if k == "seq":
        xs = [conforming(rng, sh[1]) for _ in range(rng.randrange(0, 4))]
        return "[ " + " ".join(xs) + " ]" if xs else "[ ]"
    if k == "tuple":
        return "[ " + " ".join(conforming(rng, s) for s in sh[1]) + " ]"
    if k == "map":
        ks = sorted(set(rng.choice(["a", "b", "k", "é", "2024", "0", "-7", "1.5", "true", "null", ""]) for _ in range(rng.randrange(0, 4))), key=lambda s: s.encode())
        return "{ " + " ".join(G.enc_str(x) + " " + conforming(rng, sh[1]) for x in ks) + " }" if ks else "{ }"
    if k == "struct":
        if rng.random() < 0.15:
            return "[ " + " ".join(conforming(rng, s) for _, s in sh[1]) + " ]"
        fs = [(f, s) for f, s in sh[1] if not (s[0] == "option" and rng.random() < 0.3)]
        extra = [("zz", ("bool",))] if extras and rng.random() < 0.2 else []
        items = sorted(fs + extra, key=lambda p: p[0].encode())
        return "{ " + " ".join(G.enc_str(f) + " " + conforming(rng, s) for f, s in items) + " }" if items else "{ }"
    if k == "newtype":
        return conforming(rng, sh[1])
    if k == "enum":
        name, vs = rng.choice(sh[1])
        if vs[0] == "unit":
            return G.enc_str(name) if rng.random() < 0.8 else "{ " + G.enc_str(name) + " n }"
        if vs[0] == "newtype":
            return "{ " + G.enc_str(name) + " " + conforming(rng, vs[1]) + " }"
        if vs[0] == "tuple":
            return "{ " + G.enc_str(name) + " " + conforming(rng, ("tuple", vs[1])) + " }"
        return "{ " + G.enc_str(name) + " " + conforming(rng, ("struct", vs[1]), extras=False) + " }"
    raise ValueError(sh)


MUT = ["n", "t", "u1", "i-1", "u300", "u70000", "u5000000000", "u18446744073709551615", "i-9223372036854775808", G.f64_bits(1.5), G.f64_bits(2.0),
       G.enc_str("a"), G.enc_str("ab"), G.enc_str("A"), G.enc_str("B"), G.enc_str("Z"), "[ ]", "[ u1 ]", "[ u1 u2 ]", "[ u1 u2 u3 ]", "{ }",
       "{ " + G.enc_str("A") + " u1 }", "{ " + G.enc_str("B") + " n }", "{ " + G.enc_str("C") + " [ ] }", "{ " + G.enc_str("C") + " [ u1 " + G.enc_str("x") + " u3 ] }",
       "{ " + G.enc_str("A") + " n " + G.enc_str("B") + " u1 }", "{ " + G.enc_str("D") + " { " + G.enc_str("p") + " u256 } }", "{ " + G.enc_str("a") + " u1 }"]


def mutate(rng, enc):
    toks = enc.split(" ")
    r = rng.random()
    if r < 0.35:
        return rng.choice(MUT)
    i = rng.randrange(len(toks))
    if r < 0.6 and toks[i] not in "[]{}":
        toks[i] = rng.choice(MUT[:16]) if not toks[i].startswith("s") or rng.random() < 0.5 else G.enc_str(rng.choice(["a", "b", "A", "zz"]))
    elif r < 0.8:
        # add an element before a closing bracket
        idx = [j for j, t in enumerate(toks) if t == "]"]
        if idx:
            toks.insert(rng.choice(idx), rng.choice(["u1", "n", G.enc_str("x")]))
    else:
        # drop a scalar token
        idx = [j for j, t in enumerate(toks) if t not in "[]{}" and not (j > 0 and toks[j - 1] == "{")]
        if idx and len(toks) > 1:
            del toks[rng.choice(idx)]
    out = " ".join(toks)
    return out


def balanced(enc):
    """reject encodings broken by mutation (object members must stay key/value pairs)"""
    toks = enc.split(" ")
    pos = 0

    def val():
        nonlocal pos
        if pos >= len(toks):
            raise ValueError
        t = toks[pos]
        pos += 1
        if t == "[":
            while pos < len(toks) and toks[pos] != "]":
                val()
            if pos >= len(toks):
                raise ValueError
            pos += 1
        elif t == "{":
            last = None
            while pos < len(toks) and toks[pos] != "}":
                if not toks[pos].startswith("s"):
                    raise ValueError
                k = bytes.fromhex(toks[pos][1:])
                if last is not None and not last < k:
                    raise ValueError
                last = k
                pos += 1
                val()
            if pos >= len(toks):
                raise ValueError
            pos += 1
        elif t in ("]", "}"):
            raise ValueError
    try:
        val()
        return pos == len(toks)
    except (ValueError, IndexError):
        return False


def run(ctx):
    rng = ctx.rng
    q = ctx.tier == "quick"
    cases = [l for l in S.load_corpus("C14")]
    for _ in range(4000 if q else 500000):
        cases.append("ser\t" + " ".join(rnd_sval(rng, rng.choice([1, 2, 3, 4]), keys_ok=rng.random() < 0.85).split()))
    for _ in range(6000 if q else 750000):
        ti = rng.randrange(len(TYPES))
        v = conforming(rng, TYPES[ti])
        if rng.random() < 0.5:
            m = mutate(rng, v)
            if balanced(m):
                v = m
        if balanced(v):
            cases.append("de\t%d\t%s" % (ti, v))
    # harness-only types 36..38: enums with a `#[serde(other)]` catch-all / an alias (variant names outside serde's static list); judged against
    # serde_json alone
    names = ["Known", "Unknown", "Other", "", "known", "A", "B", "b", "Rest", "Zed", "é"]
    vals = [G.enc_str(n) for n in names] + ["{ %s n }" % G.enc_str(n) for n in names] + ["{ %s u1 }" % G.enc_str(n) for n in ("B", "b", "A", "Zed", "Known")] + \
           ["n", "u1", "[ ]", "{ }", "{ %s n %s n }" % (G.enc_str("Known"), G.enc_str("Zed"))]
    for v in vals:
        cases.append("de\t36\t" + v)
        cases.append("de\t37\t[ " + v + " ]")
        cases.append("de\t37\t[ " + v + " " + rng.choice(vals) + " ]")
        cases.append("de\t38\t{ s6b " + v + " }")
    if getattr(ctx, "replay", None):
        cases = [ctx.replay["case"]]
    impl = C.run_parallel([ctx.harness, "serde"], cases)
    # the model has no `hr` node: for it (as for serde_json) the human-readable form is THE value
    model = C.run_parallel([ctx.driver, "serde"], [resolve_hr(c) for c in cases], idle_timeout=60.0)
    st = dict(ser=0, ser_ok=0, ser_nonstring_keys=0, de=0, de_ok=0, de_err=0, types_hit=set())
    for c, i, m in zip(cases, impl, model):
        ctx.evaluations += 1
        i, m = i or "NONE", m or "NONE"
        f = S.kv_fields(i.split("\t"))
        kind = c.split("\t")[0]
        if "var" not in f or "json" not in f or "PANIC" in i:
            ctx.violation("serde", c, i[:300], "var=… json=…", "the bridge panicked or produced no answer")
            continue
        if kind == "ser":
            st["ser"] += 1
            nonstr = f["json"] != "ERR" and f["var"] == "ERR" or (f["json"] != f["var"] and has_nonstring_key(resolve_hr(c)))
            if has_nonstring_key(resolve_hr(c)):
                st["ser_nonstring_keys"] += 1
            elif f["var"] != f["json"]:
                ctx.violation("serde", c, "from_serializable: " + f["var"][:200], "serde_json::to_value: " + f["json"][:200],
                              "converting a typed value for searching does not give the JSON value serde_json produces")
                continue
            if f["json"] != "ERR":
                st["ser_ok"] += 1
                ctx.nontrivial.add(c)
        else:
            st["de"] += 1
            st["types_hit"].add(int(c.split("\t")[1]))
            if f["var"] != f["json"]:
                ctx.violation("serde", c, "T::deserialize(variable): " + f["var"][:200], "serde_json::from_value: " + f["json"][:200],
                              "deserialising a library value into a Rust type differs from what serde_json yields from the same JSON")
                continue
            if f["json"] != "ERR":
                st["de_ok"] += 1
                ctx.nontrivial.add(c)
            else:
                st["de_err"] += 1
        fm = S.kv_fields(m.split("\t"))
        if kind == "ser" and has_nonstring_key(resolve_hr(c)):
            # serde_json's stringification of non-string keys is outside the property and outside the repository: library side only
            same = f.get("var") == fm.get("var")
        elif kind == "de" and int(c.split("\t")[1]) >= 36:
            same = True               # harness-only types: serde_json was the judge above
        else:
            same = i == m
        if not same:
            ctx.violation("serde", c, i[:300], m[:300], "implementation differs from the model of the bridge (Model/Serde.lean)")
        if len(ctx.samples) < 8 and ctx.evaluations % 977 == 1:
            ctx.samples.append(dict(case=c[:160], result=i[:160]))
    st["types_hit"] = len(st["types_hit"])
    ctx.coverage["stats"] = st
    ctx.coverage["streams"] = ["serde"]


def has_nonstring_key(case):
    """does any map in the SVAL have a key that is not s:/c:?  (token scan: in `( map K V K V … )` keys are at even positions)"""
    toks = [t for t in case.split("\t")[1].split(" ") if t]
    pos = 0
    found = False

    def val():
        nonlocal pos, found
        t = toks[pos]
        pos += 1
        if t != "(":
            return t
        kind = toks[pos]
        pos += 1
        hdr = {"ustruct": 1, "uvar": 3, "nstruct": 1, "nvar": 3, "tstruct": 1, "tvar": 3, "struct": 1, "svar": 3}.get(kind, 0)
        pos += hdr
        if kind == "map":
            while toks[pos] != ")":
                start = pos
                k = val()
                if not (isinstance(k, str) and (k.startswith("s:") or k.startswith("c:"))):
                    found = True
                val()
        elif kind in ("struct", "svar"):
            while toks[pos] != ")":
                pos += 1
                val()
        else:
            while toks[pos] != ")":
                val()
        pos += 1
        return None
    try:
        val()
    except IndexError:
        pass
    return found
