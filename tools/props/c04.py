"""C04 — operators bind by the documented precedence; projections extend as specified.
Theorems: lean/JmesVerif/Props/C04.lean."""
import itertools
import common as C
import gen as G
import streams as S

ID = "C04"
MODULE = "JmesVerif.Props.C04Code"      # imports Props.C04 and re-prints its axioms
THEOREMS = ["C04_lbp_table", "C04_documented_order", "C04_parse_is_rule_tree", "C04_unambiguous",
            "C04_operands_bind_tighter", "C04_projection_stop", "C04_paren_invariance", "C04_paren_legal", "C04_ast_vocabulary", "C04_translated_parser"]
TRUSTED_BASE = [
    "Lean 4.33 kernel; axioms propext, Classical.choice, Quot.sound only",
    "tools/translate.py (regex extraction of Token::lbp, PROJECTION_STOP and the binding-power argument of every expr/projection_rhs/parse_dot "
    "call site from lexer.rs/parser.rs into Generated/Lbp.lean, re-run on every check)",
    "hand-written model Model/Parser.lean tied to the code by the `parse` stream of this run comparing full tree shape (offsets ignored)",
    "Spec/Grammar.lean `Legal`/`ast` as the reading of the documented binding-power rules (it mirrors the code at the F16 deviation)",
]
ASSUMPTIONS = TRUSTED_BASE
RULE = ("operator-dense expressions: corpus; every ordered pair and triple of the infix operators (| || && == != < <= > >=) around operands "
        "carrying random prefix `!` and postfix chains (.x .quoted .* [n] [a:b:c] [*] [] [?p] .[..] .{..} .f(..)), bare and nested inside multi-selects, "
        "filters, arguments and parentheses; plus the general structured generator. For each compiled expression the implementation also "
        "parses the fully parenthesised and the canonically respelled text (must give the same tree) and evaluates original and "
        "parenthesised text on a document (must give the same result). Non-trivial = distinct expression with >= 2 operators.")

INFIX = ["|", "||", "&&", "==", "!=", "<", "<=", ">", ">="]


def operand(rng, eg, d=1):
    return eg.operand(d)


def dense_cases(ctx):
    rng = ctx.rng
    eg = G.ExprGen(rng, funcs=True, maxdepth=2)
    out = []
    triples = list(itertools.product(INFIX, repeat=2)) + (list(itertools.product(["|", "||", "&&", "==", "<"], repeat=3)))
    reps = 2 if ctx.tier == "quick" else 12
    for ops in triples:
        for _ in range(reps):
            toks = operand(rng, eg)
            for o in ops:
                toks = toks + [o] + operand(rng, eg)
            wrapk = rng.random()
            if wrapk < 0.15:
                toks = ["["] + toks + [",", "a", "]"]
            elif wrapk < 0.3:
                toks = ["x", "[?"] + toks + ["]", ".", "y"]
            elif wrapk < 0.4:
                toks = ["length", "("] + toks + [")"]
            elif wrapk < 0.5:
                toks = ["!", "("] + toks + [")", "||", "z"]
            out.append(("dense", G.spell(rng, toks)))
    return out


def run(ctx):
    if getattr(ctx, "replay", None):
        cases = [("replay", ctx.replay["case"])]
    else:
        cases = [("corpus", S.corpus_expr(l)) for l in S.load_corpus("C04")]
        cases += dense_cases(ctx)
        q = ctx.tier == "quick"
        cases += S.expr_cases(ctx, 4000 if q else 400000, 500 if q else 50000, 0, 0, 0)
        # wide expressions: many projections / operators side by side in one expression (65 .. 300 units)
        rng = ctx.rng
        units = ["a[*]", "a[]", "a[?b]", "a.*", "a[1:]", "a[*].b", "!a", "a.b[0]", "f(a[*])", "[a[*]]"]
        for n in ([66, 130] if q else [33, 64, 65, 66, 100, 130, 257, 300]):
            for sep in (" | ", " || ", " && ", " == "):
                cases.append(("wide", sep.join(rng.choice(units) for _ in range(n))))
            cases.append(("wide", "[" + ", ".join(rng.choice(units) for _ in range(n)) + "]"))
            cases.append(("wide", "a" + "".join(rng.choice(["[*]", "[]", ".b", "[0]", "[?c]", ".*"]) for _ in range(n))))
    recs = S.parse_run(ctx, cases)
    node_kinds = {}
    f16_seen = None
    second = []      # (rec, text, what)
    for r in recs:
        ctx.evaluations += 1
        nops = sum(r.expr.count(o) for o in ("|", "&&", "==", "!=", "<", ">", "[", ".", "!"))
        if nops >= 2:
            ctx.nontrivial.add(r.expr)
        if not (r.model_ok or r.model_err):
            ctx.tie_broken("stream parse: model driver", f"{r.expr!r}: {r.model[:200]}")
            continue
        if r.model_ok and r.t1 != "ok":
            ctx.tie_broken("theorem T1 vs driver self-check", f"{r.expr!r}: t1={r.t1}")
        if r.model_ok and r.impl_ok:
            for w in r.model_ast.split(" "):
                if w[:1].isupper():
                    node_kinds[w] = node_kinds.get(w, 0) + 1
            if r.impl_ast != r.model_ast:
                ctx.violation("parse", r.expr, r.impl_ast[:400], r.model_ast[:400],
                              "parse tree differs from the tree the binding-power rules assign (offsets ignored)")
                continue
            if r.dev[3] > 0 and f16_seen is None:
                f16_seen = r.expr
            second.append((r, r.par, "fully parenthesised"))
            second.append((r, r.resp, "canonically respelled"))
        elif r.model_ok and not r.impl_ok and not any(r.dev[:3]):
            ctx.violation("parse", r.expr, r.impl[:300], r.model_ast[:400], "a sentence of the grammar was rejected")
        if len(ctx.samples) < 5 and ctx.evaluations % 997 == 1 and r.model_ok:
            ctx.samples.append(dict(expression=r.expr, tree=r.model_ast[:200], parenthesised=r.par))
    # implementation-only oracle: parenthesised / respelled text parses to the same tree
    asts = S.impl_parse(ctx, [t for _, t, _ in second])
    for (r, text, what), ast in zip(second, asts):
        ctx.evaluations += 1
        if ast != r.impl_ast:
            ctx.violation("parse", r.expr, f"{what} text {text!r} parses to {str(ast)[:300]}", r.impl_ast[:300],
                          f"the {what} text must have the same parse tree as the original (implementation vs itself)")
    # implementation-only oracle: same search result with and without the implied parentheses
    rng = ctx.rng
    sample = [r for r, t, w in second if w == "fully parenthesised"]
    if len(sample) > 3000 and ctx.tier == "quick":
        sample = rng.sample(sample, 3000)
    docs = [G.rand_doc(rng, 3) for _ in sample]
    lines = [C.hexs(r.expr) + "\t" + d for r, d in zip(sample, docs)] + [C.hexs(r.par) + "\t" + d for r, d in zip(sample, docs)]
    outs = C.run_parallel([ctx.harness, "eval"], lines)
    n = len(sample)
    import re
    strip = lambda o: re.sub(r" @\d+", "", re.sub(r" off=\d+ line=\d+ col=\d+ expr=[0-9a-f]*", "", o or "NONE"))
    for k, (r, d) in enumerate(zip(sample, docs)):
        ctx.evaluations += 1
        if strip(outs[k]) != strip(outs[n + k]):
            ctx.violation("eval", [r.expr, d], f"with parentheses ({r.par!r}): {strip(outs[n + k])[:200]}", strip(outs[k])[:200],
                          "adding the implied parentheses changed the search result")
    listed = {k["id"]: k for k in ctx.known if k.get("status") == "known"}
    if f16_seen is not None:
        if "F16" in listed:
            ctx.known_hit("F16", f"{listed['F16']['what']} (e.g. {f16_seen!r})")
        else:
            ctx.violation("parse", f16_seen, "tree of the code", "tree of the stated rule", "deviation class F16 not listed as known")
    ctx.coverage["ast_node_kinds"] = node_kinds
    ctx.coverage["streams"] = ["parse", "eval (implementation only)"]
