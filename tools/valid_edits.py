"""Edits of functions.rs / variable.rs for the self-test of the third target of rs2lean.py (`Generated/ValidCode.lean`,
checked by `JmesVerif.Lemmas.ValidEquiv`).  Used by `rs2lean_selftest.py valid`.  Each entry: name -> [(file, old, new, count)]."""


def R(file, old, new, count=1):
    return (file, old, new, count)


IS_VALID_OLD = """        match *self {
            Any => true,
            Null if value.is_null() => true,
            String if value.is_string() => true,
            Number if value.is_number() => true,
            Object if value.is_object() => true,
            Bool if value.is_boolean() => true,
            Expref if value.is_expref() => true,
            Array if value.is_array() => true,
            TypedArray(ref t) if value.is_array() => {
                if let Some(array) = value.as_array() {
                    array.iter().all(|v| t.is_valid(v))
                } else {
                    false
                }
            }
            Union(ref types) => types.iter().any(|t| t.is_valid(value)),
            _ => false,
        }"""

VALIDATE_OLD = """        self.validate_arity(args.len(), ctx)?;
        if let Some(ref variadic) = self.variadic {
            for (k, v) in args.iter().enumerate() {
                let validator = self.inputs.get(k).unwrap_or(variadic);
                self.validate_arg(ctx, k, v, validator)?;
            }
        } else {
            for (k, v) in args.iter().enumerate() {
                self.validate_arg(ctx, k, v, &self.inputs[k])?;
            }
        }
        Ok(())"""

VALIDATE_ARG_OLD = """        if validator.is_valid(value) {
            Ok(())
        } else {
            let reason = ErrorReason::Runtime(RuntimeError::InvalidType {
                expected: validator.to_string(),
                actual: value.get_type().to_string(),
                position,
            });
            Err(JmespathError::from_ctx(ctx, reason))
        }"""

FLOAT_EQ_OLD = """    let abs_a = a.abs();
    let abs_b = b.abs();
    let diff = (a - b).abs();
    if a == b {
        true
    } else if !a.is_normal() || !b.is_normal() {
        // a or b is zero or both are extremely close to it
        // relative error is less meaningful here.
        diff < (f64::EPSILON * f64::MIN_POSITIVE)
    } else {
        // use relative error.
        diff / (abs_a + abs_b).min(f64::MAX) < f64::EPSILON
    }"""

EQ_OLD = """        if self.get_type() != other.get_type() {
            false
        } else {
            match self {
                Variable::Number(a) => {
                    if let (Some(a), Some(b)) = (a.as_f64(), other.as_number()) {
                        float_eq(a, b)
                    } else {
                        false
                    }
                }
                Variable::String(ref s) => Some(s) == other.as_string(),
                Variable::Bool(b) => Some(*b) == other.as_boolean(),
                Variable::Array(ref a) => Some(a) == other.as_array(),
                Variable::Object(ref o) => Some(o) == other.as_object(),
                Variable::Expref(ref e) => Some(e) == other.as_expref(),
                Variable::Null => true,
            }
        }"""

VALID_HARMLESS = {
 "is_valid: arms reordered, binders renamed, `match self`": [
   R("functions.rs", IS_VALID_OLD, """        match self {
            Union(alts) => alts.iter().any(|alt| alt.is_valid(value)),
            TypedArray(elem_ty) if value.is_array() => {
                if let Some(items) = value.as_array() {
                    items.iter().all(|item| elem_ty.is_valid(item))
                } else {
                    false
                }
            }
            Array if value.is_array() => true,
            Expref if value.is_expref() => true,
            Bool if value.is_boolean() => true,
            Object if value.is_object() => true,
            Number if value.is_number() => true,
            String if value.is_string() => true,
            Null if value.is_null() => true,
            Any => true,
            _ => false,
        }""")],
 "is_valid: guards moved into the bodies, `match value.as_array()`, no `_` arm": [
   R("functions.rs", IS_VALID_OLD, """        match *self {
            Any => true,
            Null => value.is_null(),
            String => value.is_string(),
            Number => value.is_number(),
            Object => value.is_object(),
            Bool => value.is_boolean(),
            Expref => value.is_expref(),
            Array => value.is_array(),
            TypedArray(ref t) => match value.as_array() {
                Some(array) => array.iter().all(|v| t.is_valid(v)),
                None => false,
            },
            Union(ref types) => types.iter().any(|t| t.is_valid(value)),
        }""")],
 "validate / validate_arg: reflow, comments, attributes, renamed locals": [
   R("functions.rs", VALIDATE_OLD, """        // arity first
        self.validate_arity(
            args.len(),
            ctx,
        )?;
        if let Some(ref rest_ty) = self.variadic {
            /* positional types, then the variadic one */
            for (pos, arg) in args.iter().enumerate() {
                let ty = self.inputs.get(pos).unwrap_or(rest_ty);
                self.validate_arg(ctx, pos, arg, ty)?;
            }
        } else {
            for (pos, arg) in args.iter().enumerate() { self.validate_arg(ctx, pos, arg, &self.inputs[pos])?; }
        }
        Ok(())"""),
   R("functions.rs", "    fn validate_arg(\n        &self,", "    #[inline]\n    #[allow(clippy::all)]\n    fn validate_arg(\n        &self,")],
 "validate_arg: `if !valid { return Err(..) } Ok(())`": [
   R("functions.rs", VALIDATE_ARG_OLD, """        if !validator.is_valid(value) {
            return Err(JmespathError::from_ctx(
                ctx,
                ErrorReason::Runtime(RuntimeError::InvalidType {
                    position,
                    actual: value.get_type().to_string(),
                    expected: validator.to_string(),
                }),
            ));
        }
        Ok(())""")],
 "float_eq: early return, extra locals, renamed": [
   R("variable.rs", FLOAT_EQ_OLD, """    if a == b {
        return true;
    }
    let delta = (a - b).abs();
    if !a.is_normal() || !b.is_normal() {
        return delta < (f64::EPSILON * f64::MIN_POSITIVE);
    }
    let sum = a.abs() + b.abs();
    let denom = sum.min(f64::MAX);
    delta / denom < f64::EPSILON""")],
 "eq: arms reordered, binders renamed, condition flipped, `match *self`": [
   R("variable.rs", EQ_OLD, """        if self.get_type() == other.get_type() {
            match *self {
                Variable::Null => true,
                Variable::Expref(ref ast) => Some(ast) == other.as_expref(),
                Variable::Object(ref map) => Some(map) == other.as_object(),
                Variable::Array(ref items) => Some(items) == other.as_array(),
                Variable::Bool(flag) => Some(flag) == other.as_boolean(),
                Variable::String(ref text) => Some(text) == other.as_string(),
                Variable::Number(ref n) => match (n.as_f64(), other.as_number()) {
                    (Some(x), Some(y)) => float_eq(x, y),
                    _ => false,
                },
            }
        } else {
            false
        }""")],
 "Display: arms reordered, the join inlined": [
   R("functions.rs", """            Union(ref types) => {
                let str_value = types
                    .iter()
                    .map(|t| t.to_string())
                    .collect::<Vec<_>>()
                    .join("|");
                write!(fmt, "{}", str_value)
            }""", """            Union(ref alts) => write!(fmt, "{}", alts.iter().map(|a| a.to_string()).collect::<Vec<_>>().join("|")),"""),
   R("functions.rs", """            Any => write!(fmt, "any"),
            String => write!(fmt, "string"),""", """            String => write!(fmt, "string"),
            Any => write!(fmt, "{}", "any"),""")],
 "cmp: `match` for `if let`, early return": [
   R("variable.rs", """        let var_type = self.get_type();
        // Variables of different types are considered equal.
        if var_type != other.get_type() {
            Ordering::Equal
        } else {""", """        let var_type = self.get_type();
        if var_type != other.get_type() {
            return Ordering::Equal;
        }
        {"""),
   R("variable.rs", """                    if let (Some(a), Some(b)) = (self.as_string(), other.as_string()) {
                        a.cmp(b)
                    } else {
                        Ordering::Equal
                    }""", """                    match (self.as_string(), other.as_string()) {
                        (Some(l), Some(r)) => l.cmp(r),
                        _ => Ordering::Equal,
                    }""")],
 "validate: the two loops merged into one (`.or(self.variadic.as_ref())`, checked index as the fallback)": [
   R("functions.rs", VALIDATE_OLD, """        self.validate_arity(args.len(), ctx)?;
        for (k, v) in args.iter().enumerate() {
            let validator = match self.inputs.get(k).or(self.variadic.as_ref()) {
                Some(t) => t,
                None => &self.inputs[k],
            };
            self.validate_arg(ctx, k, v, validator)?;
        }
        Ok(())""")],
}

VALID_SEMANTIC = {
 "is_valid: `Null` arm accepts everything": [
   R("functions.rs", "            Null if value.is_null() => true,", "            Null => true,")],
 "is_valid: TypedArray checks only the first element": [
   R("functions.rs", "                    array.iter().all(|v| t.is_valid(v))", "                    array.get(0).map_or(true, |v| t.is_valid(v))")],
 "is_valid: Union uses `all`": [
   R("functions.rs", "types.iter().any(|t| t.is_valid(value))", "types.iter().all(|t| t.is_valid(value))")],
 "is_valid: Number accepts strings too": [
   R("functions.rs", "            Number if value.is_number() => true,", "            Number if value.is_number() || value.is_string() => true,")],
 "validate: position 0 is skipped (variadic loop)": [
   R("functions.rs", "                self.validate_arg(ctx, k, v, validator)?;", "                if k > 0 {\n                    self.validate_arg(ctx, k, v, validator)?;\n                }")],
 "validate: position 0 is skipped (non-variadic loop)": [
   R("functions.rs", "                self.validate_arg(ctx, k, v, &self.inputs[k])?;", "                if k > 0 {\n                    self.validate_arg(ctx, k, v, &self.inputs[k])?;\n                }")],
 "validate: types are checked before the arity": [
   R("functions.rs", "        self.validate_arity(args.len(), ctx)?;\n        if let Some(ref variadic) = self.variadic {", "        if let Some(ref variadic) = self.variadic {"),
   R("functions.rs", "                self.validate_arg(ctx, k, v, &self.inputs[k])?;\n            }\n        }\n        Ok(())", "                self.validate_arg(ctx, k, v, &self.inputs[k])?;\n            }\n        }\n        self.validate_arity(args.len(), ctx)?;\n        Ok(())")],
 "validate: the arity check is dropped": [
   R("functions.rs", "        self.validate_arity(args.len(), ctx)?;\n        if let Some(ref variadic) = self.variadic {", "        if let Some(ref variadic) = self.variadic {")],
 "validate: the variadic loop ignores `inputs`": [
   R("functions.rs", "let validator = self.inputs.get(k).unwrap_or(variadic);", "let validator = variadic;")],
 "validate: non-variadic loop indexes `k + 1`": [
   R("functions.rs", "self.validate_arg(ctx, k, v, &self.inputs[k])?;", "self.validate_arg(ctx, k, v, &self.inputs[k + 1])?;")],
 "validate_arg: `position: position + 1`": [
   R("functions.rs", "                position,\n            });", "                position: position + 1,\n            });")],
 "validate_arg: expected / actual swapped": [
   R("functions.rs", "                expected: validator.to_string(),\n                actual: value.get_type().to_string(),", "                expected: value.get_type().to_string(),\n                actual: validator.to_string(),")],
 "validate_arg: condition negated": [
   R("functions.rs", "        if validator.is_valid(value) {\n            Ok(())", "        if !validator.is_valid(value) {\n            Ok(())")],
 "Display ArgumentType: `boolean` -> `bool`": [
   R("functions.rs", 'Bool => write!(fmt, "boolean"),', 'Bool => write!(fmt, "bool"),')],
 "Display ArgumentType: union joined with `, `": [
   R("functions.rs", '.join("|");', '.join(", ");')],
 "Display JmespathType: Object => `array`": [
   R("variable.rs", 'JmespathType::Object => "object",', 'JmespathType::Object => "array",')],
 "float_eq: without `.min(f64::MAX)`": [
   R("variable.rs", "diff / (abs_a + abs_b).min(f64::MAX) < f64::EPSILON", "diff / (abs_a + abs_b) < f64::EPSILON")],
 "float_eq: `<` -> `<=` (relative branch)": [
   R("variable.rs", "diff / (abs_a + abs_b).min(f64::MAX) < f64::EPSILON", "diff / (abs_a + abs_b).min(f64::MAX) <= f64::EPSILON")],
 "float_eq: `||` -> `&&`": [
   R("variable.rs", "} else if !a.is_normal() || !b.is_normal() {", "} else if !a.is_normal() && !b.is_normal() {")],
 "eq: different types are equal": [
   R("variable.rs", "        if self.get_type() != other.get_type() {\n            false\n        } else {\n            match self {", "        if self.get_type() != other.get_type() {\n            true\n        } else {\n            match self {")],
 "eq: arrays compared on the common prefix only": [
   R("variable.rs", "Variable::Array(ref a) => Some(a) == other.as_array(),", "Variable::Array(ref a) => other.as_array().map_or(false, |b| a.iter().zip(b.iter()).all(|(x, y)| x == y)),")],
 "eq: booleans always equal": [
   R("variable.rs", "Variable::Bool(b) => Some(*b) == other.as_boolean(),", "Variable::Bool(_) => true,")],
 "eq: numbers compared exactly (`a == b` instead of float_eq)": [
   R("variable.rs", "                        float_eq(a, b)\n", "                        a == b\n")],
 "cmp: `unwrap_or(Ordering::Greater)`": [
   R("variable.rs", "a.partial_cmp(&b).unwrap_or(Ordering::Less)", "a.partial_cmp(&b).unwrap_or(Ordering::Greater)")],
 "cmp: strings compared in reverse": [
   R("variable.rs", "                        a.cmp(b)\n", "                        b.cmp(a)\n")],
 "as_array also accepts objects' absence (is_array via as_object)": [
   R("variable.rs", "    pub fn is_array(&self) -> bool {\n        self.as_array().is_some()", "    pub fn is_array(&self) -> bool {\n        self.as_object().is_some()")],
 "outside the table: `.take(1)`": [
   R("functions.rs", "                    array.iter().all(|v| t.is_valid(v))", "                    array.iter().take(1).all(|v| t.is_valid(v))")],
 "outside the table: `enumerate().skip(1)`": [
   R("functions.rs", "            for (k, v) in args.iter().enumerate() {\n                let validator", "            for (k, v) in args.iter().enumerate().skip(1) {\n                let validator")],
 "outside the table: `{:?}` in write!": [
   R("functions.rs", 'TypedArray(ref t) => write!(fmt, "array[{}]", t),', 'TypedArray(ref t) => write!(fmt, "array[{:?}]", t),')],
}

# equivalent rewrites that need maintenance: the translation is right, but the generic proofs / Lean's termination checker do
# not absorb them (outcome: broken tie, `no-failing-input-found`)
VALID_LIMITS = {
 "eq: `other.as_object() == Some(o)` (operands of `==` swapped: the recursion descends into the payload of `other`, which Lean's structural termination check does not see)": [
   R("variable.rs", "Variable::Object(ref o) => Some(o) == other.as_object(),", "Variable::Object(ref o) => other.as_object() == Some(o),")],
}
