"""Shared machinery for the checks: building, running the two executors, auditing proofs,
evidence / replay / known-findings handling.  See DESIGN.md §2."""
import hashlib
import json
import os
import queue
import re
import subprocess
import sys
import threading
import time

VERIF = os.path.dirname(os.path.dirname(os.path.abspath(__file__)))
REPO = os.environ.get("VERIF_REPO", "/repo")
LEAN = os.path.join(VERIF, "lean")
HARNESS = os.path.join(VERIF, "harness")
EVIDENCE = os.path.join(VERIF, "evidence")
REPLAYS = os.path.join(VERIF, "replays")
CORPUS = os.path.join(VERIF, "corpus")
DRIVER = os.path.join(LEAN, ".lake", "build", "bin", "jmdriver")
ALLOWED_AXIOMS = {"propext", "Classical.choice", "Quot.sound"}
NCPU = os.cpu_count() or 4
MAX_HANGS = 6

ENV = dict(os.environ)
ENV["CARGO_NET_OFFLINE"] = "true"
ENV.setdefault("CARGO_TERM_COLOR", "never")


def log(msg):
    print(msg, flush=True)


def sh(cmd, cwd=None, timeout=3600, env=None):
    p = subprocess.run(cmd, cwd=cwd, env=env or ENV, stdout=subprocess.PIPE, stderr=subprocess.STDOUT,
                       timeout=timeout, text=True, errors="replace")
    return p.returncode, p.stdout


# ----------------------------------------------------------------------------- building

class BuildError(Exception):
    pass


def translate():
    """Regenerate Generated/*.lean from /repo's current source (no-op until translate.py exists)."""
    t = os.path.join(VERIF, "tools", "translate.py")
    if os.path.exists(t):
        rc, out = sh([sys.executable, t], cwd=VERIF)
        return rc == 0, out
    return True, ""


def lake_build(targets):
    """Build Lean targets; returns (ok, log)."""
    rc, out = sh(["lake", "build"] + targets, cwd=LEAN, timeout=3600)
    return rc == 0, out


def parse_axioms(build_log_or_src_outputs):
    """'Foo.bar' depends on axioms: [a, b]  /  'Foo.bar' does not depend on any axioms"""
    res = {}
    for m in re.finditer(r"'([^']+)' depends on axioms: \[([^\]]*)\]", build_log_or_src_outputs):
        res[m.group(1)] = [a.strip() for a in m.group(2).split(",") if a.strip()]
    for m in re.finditer(r"'([^']+)' does not depend on any axioms", build_log_or_src_outputs):
        res[m.group(1)] = []
    return res


def sources_digest():
    h = hashlib.sha256()
    for root, dirs, files in os.walk(LEAN):
        dirs[:] = sorted(d for d in dirs if d != ".lake")
        for f in sorted(files):
            if f.endswith(".lean") or f.endswith(".toml"):
                p = os.path.join(root, f)
                h.update(p.encode())
                h.update(open(p, "rb").read())
    return h.hexdigest()


def prop_axioms(module):
    """Re-elaborate one Props module to read its `#print axioms` output (after `lake build` has checked the
    proofs).  The output is cached under .lake keyed by a digest of *all* Lean sources, so an unchanged
    project is not re-elaborated on every run."""
    path = os.path.join(LEAN, *module.split(".")) + ".lean"
    cdir = os.path.join(LEAN, ".lake", "axioms_cache")
    os.makedirs(cdir, exist_ok=True)
    key = sources_digest()
    cfile = os.path.join(cdir, module + ".json")
    if os.path.exists(cfile):
        try:
            c = json.load(open(cfile))
            if c.get("key") == key:
                return True, c["out"], parse_axioms(c["out"])
        except Exception:
            pass
    rc, out = sh(["lake", "env", "lean", path], cwd=LEAN, timeout=1800)
    if rc == 0:
        json.dump(dict(key=key, out=out), open(cfile, "w"))
    return rc == 0, out, parse_axioms(out)


FORBIDDEN = re.compile(r"\b(sorry|admit|native_decide|bv_decide|implemented_by)\b|^\s*axiom\s|\bunsafe\s|maxHeartbeats\s+0\b")


def strip_comments(src):
    # remove block comments (nested-safe enough for our sources) and line comments
    out, depth, i = [], 0, 0
    while i < len(src):
        if src.startswith("/-", i):
            depth += 1
            i += 2
        elif src.startswith("-/", i) and depth > 0:
            depth -= 1
            i += 2
        elif depth > 0:
            if src[i] == "\n":
                out.append("\n")
            i += 1
        elif src.startswith("--", i):
            while i < len(src) and src[i] != "\n":
                i += 1
        else:
            out.append(src[i])
            i += 1
    return "".join(out)


def audit_sources():
    """grep every Lean source of the project for escape hatches; returns list of hits."""
    hits = []
    for root, _, files in os.walk(LEAN):
        if ".lake" in root:
            continue
        for f in files:
            if f.endswith(".lean"):
                p = os.path.join(root, f)
                src = strip_comments(open(p, encoding="utf-8").read())
                for n, line in enumerate(src.split("\n"), 1):
                    if FORBIDDEN.search(line):
                        hits.append(f"{os.path.relpath(p, VERIF)}:{n}: {line.strip()}")
    return hits


def cargo_build(features=(), nightly=False, target_dir=None, package="vharness"):
    cmd = ["cargo"] + (["+nightly"] if nightly else []) + ["build", "--release", "--offline", "-p", package]
    if features:
        cmd += ["--features", ",".join(features)]
    env = dict(ENV)
    if target_dir:
        env["CARGO_TARGET_DIR"] = target_dir
    # keep the lock file in step with /repo's (path dependency)
    rc, out = sh(cmd, cwd=HARNESS, timeout=3600, env=env)
    tdir = target_dir or os.path.join(HARNESS, "target")
    return rc == 0, out, os.path.join(tdir, "release", package)


# ----------------------------------------------------------------------------- executors

def run_exec(cmd, lines, idle_timeout=20.0, env=None, cwd=None):
    """Feed `lines` to `cmd` (one case per line), collect one output line per case.
    A process death is attributed to the case whose output is missing ('ABORT sig=…'), a silence
    longer than idle_timeout to 'HANG'; the executor is restarted after the offending case."""
    results = [None] * len(lines)
    start = 0
    hangs = 0
    while start < len(lines):
        if hangs >= MAX_HANGS:
            # an executor that keeps hanging would turn a check of seconds into one of hours: stop feeding it, mark the rest
            for k in range(start, len(lines)):
                results[k] = "HANG-SKIPPED"
            break
        chunk = lines[start:]
        p = subprocess.Popen(cmd, stdin=subprocess.PIPE, stdout=subprocess.PIPE, stderr=subprocess.DEVNULL,
                             env=env or ENV, cwd=cwd)
        q = queue.Queue()

        def feeder():
            try:
                for l in chunk:
                    p.stdin.write((l + "\n").encode())
                p.stdin.close()
            except (BrokenPipeError, OSError):
                pass

        def reader():
            for raw in p.stdout:
                q.put(raw.decode(errors="replace").rstrip("\n"))
            q.put(None)

        threading.Thread(target=feeder, daemon=True).start()
        threading.Thread(target=reader, daemon=True).start()
        got = 0
        status = None
        while got < len(chunk):
            try:
                item = q.get(timeout=idle_timeout)
            except queue.Empty:
                p.kill()
                status = "HANG"
                hangs += 1
                break
            if item is None:
                p.wait()
                rc = p.returncode
                status = f"ABORT rc={rc}"
                break
            results[start + got] = item
            got += 1
        if status is None:
            try:
                p.wait(timeout=10)
            except subprocess.TimeoutExpired:
                p.kill()
            break
        results[start + got] = status
        try:
            p.kill()
        except OSError:
            pass
        start = start + got + 1
    return results


def run_parallel(cmd, lines, nproc=None, **kw):
    """Split the case list over several executor processes."""
    nproc = nproc or min(NCPU, max(1, len(lines) // 500))
    if nproc <= 1:
        return run_exec(cmd, lines, **kw)
    size = (len(lines) + nproc - 1) // nproc
    parts = [lines[i:i + size] for i in range(0, len(lines), size)]
    outs = [None] * len(parts)

    def work(k):
        outs[k] = run_exec(cmd, parts[k], **kw)

    ths = [threading.Thread(target=work, args=(k,)) for k in range(len(parts))]
    for t in ths:
        t.start()
    for t in ths:
        t.join()
    res = []
    for o in outs:
        res.extend(o)
    return res


# ----------------------------------------------------------------------------- findings / replay / evidence

def load_known():
    p = os.path.join(VERIF, "known_findings.json")
    if not os.path.exists(p):
        return []
    return json.load(open(p)).get("findings", [])


def write_replay(prop, kind, payload):
    os.makedirs(REPLAYS, exist_ok=True)
    body = dict(property=prop, kind=kind, **payload)
    h = hashlib.sha1(json.dumps(body, sort_keys=True).encode()).hexdigest()[:12]
    path = os.path.join(REPLAYS, f"{prop}-{h}.json")
    with open(path, "w") as f:
        json.dump(body, f, indent=1, sort_keys=True)
    return path


def write_evidence(prop, tier, seed, level, coverage, assumptions, wall, violations):
    os.makedirs(EVIDENCE, exist_ok=True)
    ev = dict(property_id=prop, tier=tier, seed=seed, level=level, coverage=coverage,
              assumptions=assumptions, wall_s=round(wall, 2), violations=violations)
    tmp = os.path.join(EVIDENCE, f".{prop}.json.tmp")
    with open(tmp, "w") as f:
        json.dump(ev, f, indent=1)
    os.replace(tmp, os.path.join(EVIDENCE, f"{prop}.json"))


def hexs(s):
    return s.encode("utf-8").hex()


def unhexs(h):
    return bytes.fromhex(h).decode("utf-8", errors="replace")
