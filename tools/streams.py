"""Stream runners: feed the same cases to the implementation harness and the Lean driver."""
import re
import common as C
import gen as G


def run_both(ctx, stream, lines, idle_timeout=20.0):
    impl = C.run_parallel([ctx.harness, stream], lines, idle_timeout=idle_timeout)
    model = C.run_parallel([ctx.driver, stream], lines, idle_timeout=max(idle_timeout, 60.0))
    return impl, model


OFFS = re.compile(r" @\d+")


def strip_offsets(ast):
    return OFFS.sub("", ast)


def keep_call_slice_offsets(ast):
    """offsets are compared only where a property speaks about them: Function and Slice nodes (C12)"""
    toks = ast.split(" ")
    out = []
    for i, t in enumerate(toks):
        if t.startswith("@") and not (i > 0 and toks[i - 1] in ("Function", "Slice")):
            continue
        out.append(t)
    return " ".join(out)


def expr_cases(ctx, n_struct, n_near, n_soup, n_char, n_quoted, funcs=True):
    """(kind, expression) list drawn from the structured / near-miss / soup generators"""
    rng = ctx.rng
    eg = G.ExprGen(rng, funcs=funcs)
    out = []
    base = []
    for _ in range(n_struct):
        toks = eg.expr()
        base.append(toks)
        out.append(("struct", G.spell(rng, toks)))
    for _ in range(n_near):
        toks = rng.choice(base) if base else eg.expr()
        out.append(("near", G.spell(rng, G.near_miss(rng, toks))))
    for _ in range(n_soup):
        out.append(("soup", G.spell(rng, G.token_soup(rng), ws=0.5)))
    for _ in range(n_char):
        out.append(("char", G.char_soup(rng)))
    for _ in range(n_quoted):
        out.append(("quoted", G.quoted_soup(rng)))
    return out


class ParseRec:
    __slots__ = ("kind", "expr", "impl", "model", "impl_ok", "model_ok", "impl_ast", "model_ast", "dev", "t1", "par", "resp",
                 "impl_err", "model_err")


def kv_fields(parts):
    d = {}
    for p in parts:
        if "=" in p:
            k, v = p.split("=", 1)
            d[k] = v
    return d


def parse_run(ctx, cases):
    """cases: [(kind, expr)] → [ParseRec]; both executors on every expression"""
    lines = [C.hexs(e) for _, e in cases]
    impl, model = run_both(ctx, "parse", lines)
    recs = []
    for (kind, e), i, m in zip(cases, impl, model):
        r = ParseRec()
        r.kind, r.expr, r.impl, r.model = kind, e, i or "NONE", m or "NONE"
        r.impl_ok = r.impl.startswith("ok ")
        r.impl_err = r.impl.startswith("E parse")
        mf = r.model.split("\t")
        r.model_ok = mf[0].startswith("ok ")
        r.model_err = mf[0].startswith("E parse")
        r.impl_ast = strip_offsets(r.impl[3:]) if r.impl_ok else None
        r.model_ast = strip_offsets(mf[0][3:]) if r.model_ok else None
        f = kv_fields(mf[1:])
        r.t1 = f.get("t1")
        r.dev = tuple(int(x) for x in f["dev"].split(",")) if "dev" in f else (0, 0, 0, 0)
        r.par = C.unhexs(f["par"]) if "par" in f else None
        r.resp = C.unhexs(f["resp"]) if "resp" in f else None
        recs.append(r)
    return recs


def impl_parse(ctx, exprs):
    """implementation only: offset-free AST or None per expression"""
    out = C.run_parallel([ctx.harness, "parse"], [C.hexs(e) for e in exprs])
    return [strip_offsets(o[3:]) if o and o.startswith("ok ") else None for o in out]


def load_corpus(prop):
    """corpus/<prop>/*.txt : one case per line ('#' comments); expressions are stored as plain text lines
    prefixed by 'expr\\t' or as raw stream lines"""
    import os
    d = os.path.join(C.CORPUS, prop)
    out = []
    if os.path.isdir(d):
        for f in sorted(os.listdir(d)):
            for l in open(os.path.join(d, f), encoding="utf-8"):
                l = l.rstrip("\n")
                if l and not l.startswith("#"):
                    out.append(l)
    return out


def corpus_expr(line):
    if line.startswith("expr\t"):
        return line[5:]
    if line.startswith("hex\t"):
        return C.unhexs(line[4:])
    return line


ERRTAIL = re.compile(r" line=\d+ col=\d+ expr=[0-9a-f]*")


def canon_eval(o):
    """canonical form of an eval-stream result: value, or error class/kind/fields/offset (no wording, no line/col)"""
    if o is None:
        return "NONE"
    o = o.split("\t")[0]
    o = ERRTAIL.sub("", o)
    if o.startswith("C E"):
        return "C E"
    return o.replace(" internal", "")


def eval_run(ctx, cases):
    """cases: [(expr, doc-encoding)] → (impl results, model results) raw"""
    lines = [C.hexs(e) + "\t" + d for e, d in cases]
    return run_both(ctx, "eval", lines)


def sem_tag(model_raw):
    for p in (model_raw or "").split("\t")[1:]:
        if p.startswith("sem="):
            return p[4:]
    return None
