"""Stream runners: feed the same cases to the implementation harness and the Lean driver."""
import re
import common as C
import gen as G


def run_both(ctx, stream, lines, idle_timeout=20.0):
    impl = C.run_parallel([ctx.harness, stream], lines, idle_timeout=idle_timeout)
    model = C.run_parallel([ctx.driver, stream], lines, idle_timeout=max(idle_timeout, 60.0))
    return impl, model


OFFS = re.compile(r" @\d+")


def strip_offsets(ast):
    return OFFS.sub("", ast)


def keep_call_slice_offsets(ast):
    """offsets are compared only where a property speaks about them: Function and Slice nodes (C12)"""
    toks = ast.split(" ")
    out = []
    for i, t in enumerate(toks):
        if t.startswith("@") and not (i > 0 and toks[i - 1] in ("Function", "Slice")):
            continue
        out.append(t)
    return " ".join(out)


def expr_cases(ctx, n_struct, n_near, n_soup, n_char, n_quoted, funcs=True):
    """(kind, expression) list drawn from the structured / near-miss / soup generators"""
    rng = ctx.rng
    eg = G.ExprGen(rng, funcs=funcs)
    out = []
    base = []
    for _ in range(n_struct):
        toks = eg.expr()
        base.append(toks)
        out.append(("struct", G.spell(rng, toks)))
    for _ in range(n_near):
        toks = rng.choice(base) if base else eg.expr()
        out.append(("near", G.spell(rng, G.near_miss(rng, toks))))
    for _ in range(n_soup):
        out.append(("soup", G.spell(rng, G.token_soup(rng), ws=0.5)))
    for _ in range(n_char):
        out.append(("char", G.char_soup(rng)))
    for _ in range(n_quoted):
        out.append(("quoted", G.quoted_soup(rng)))
    return out
