#!/usr/bin/env python3
"""rs2lean_parser.py — translate `struct Parser` of jmespath/src/parser.rs (the whole Pratt parser) into Lean 4.

Third target of the function-body translator (`rs2lean.py`): every method of `impl Parser` -> one Lean function in
`lean/JmesVerif/Generated/ParserCode.lean` (namespace `JmesVerif.Generated.ParserCode`); `Lemmas/ParserEquiv.lean` proves
the hand-written parser model (`Model/Parser.lean`, the object of C03/C04/C05/C12) equal to it.  This module only
*imports* rs2lean (tokenizer, item scanner, Rust-subset parser, `Ctx`); the extensions of the Rust subset it needs
(`loop`/`break`/`continue`, tuple expressions and `.0`/`.1`, array literals, `x @ pat` patterns, `||` closures, the
`&self`/`&mut self` distinction) are implemented in the subclass `PParser` below — rs2lean.py itself is not modified.
The translation scheme and the idiom table are spelled out in `HEADER`, which is copied into the generated file.

Usage: `python3 rs2lean_parser.py` writes Generated/ParserCode.lean (only if the content changed; `$RS2LEAN_PARSER_OUT`
redirects it) and prints nothing on success; `generate_parser()` returns the text.  Sources: `$VERIF_SRC`, else
`$VERIF_REPO/jmespath/src`, else /repo/jmespath/src.  Anything outside the subset / idiom table: exit 1 ("broken tie").
"""
import os
import re
import sys

HERE = os.path.dirname(os.path.abspath(__file__))
sys.path.insert(0, HERE)
import rs2lean as R  # noqa: E402
from rs2lean import TieError, fail, walk, pat_binders, atom, LEAN_KEYWORDS  # noqa: E402

OUT_PARSER = os.path.join(os.path.dirname(R.OUT), "ParserCode.lean")


# ----------------------------------------------------------------------------------------------
# Rust subset: extensions of rs2lean.Parser (subclass; rs2lean.py is untouched)
# ----------------------------------------------------------------------------------------------
class PParser(R.Parser):
    def pattern1(self):
        p = super().pattern1()
        if p[0] == "bind" and self.at("@"):
            self.i += 1
            return ("at", p[1], self.pattern1())
        return p

    def block(self):
        self.expect("{")
        stmts, tail = [], None
        while not self.at("}"):
            self.skip_attrs()
            if self.eat(";"):
                continue
            t = self.peek()
            if self.eat("let"):
                pat = self.pattern()
                ty = self.ty() if self.eat(":") else None
                init = self.expr() if self.eat("=") else None
                self.expect(";")
                stmts.append(("let", pat, ty, init, t.line))
                continue
            e = self.expr()
            if self.eat(";"):
                stmts.append(("expr", e, t.line))
            elif self.at("}"):
                tail = e
            elif e[0] in ("if", "match", "while", "block", "for", "loop"):
                stmts.append(("expr", e, t.line))
            else:
                fail(f"unsupported syntax: expected `;` or `}}`, found `{self.peek().text}`", self.peek(), self.sf.name)
        self.expect("}")
        return ("block", stmts, tail)

    def postfix(self, nostruct):
        e = self.primary(nostruct)
        while True:
            t = self.peek()
            if self.at("."):
                self.i += 1
                nt = self.peek()
                if nt.kind == "num":
                    if not nt.text.isdigit():
                        fail("unsupported tuple field", nt, self.sf.name)
                    self.i += 1
                    e = ("tfield", e, int(nt.text), t.line)
                    continue
                name = self.ident()
                if self.at("::"):
                    fail("turbofish is outside the subset", self.peek(), self.sf.name)
                if self.at("("):
                    e = ("mcall", e, name, self.args(), t.line)
                else:
                    e = ("field", e, name, t.line)
            elif self.at("("):
                e = ("call", e, self.args(), t.line)
            elif self.at("["):
                self.i += 1
                idx = self.expr()
                self.expect("]")
                e = ("index", e, idx, t.line)
            elif self.at("?"):
                self.i += 1
                e = ("try", e, t.line)
            else:
                return e

    def primary(self, nostruct):
        t = self.peek()
        if t.kind == "id" and t.text == "loop":
            self.i += 1
            body = self.block()
            return ("loop", body, t.line, self.peek(-1).line)
        if t.kind == "id" and t.text in ("break", "continue"):
            self.i += 1
            if not (self.at(";") or self.at("}") or self.at(",")):
                fail(f"`{t.text}` with a label or a value is outside the subset", t, self.sf.name)
            return (t.text, t.line)
        if self.at("("):
            self.i += 1
            if self.eat(")"):
                return ("unit",)
            items = [self.expr()]
            tup = False
            while self.eat(","):
                tup = True
                if self.at(")"):
                    break
                items.append(self.expr())
            self.expect(")")
            return ("tuple", items, t.line) if tup else items[0]
        if self.at("["):
            self.i += 1
            items = []
            while not self.at("]"):
                items.append(self.expr())
                if self.at(";"):
                    fail("`[x; n]` is outside the subset", self.peek(), self.sf.name)
                if not self.eat(","):
                    break
            self.expect("]")
            return ("array", items, t.line)
        if self.at("||"):
            self.i += 1
            return ("closure", [], self.expr(), t.line)
        if t.kind == "id" and t.text == "match":
            # as in rs2lean.Parser.primary, except that an arm body that starts with `{` ends at its `}` (so that
            # `{ .. } &Token::X => ..` is not read as a `&` operator)
            self.i += 1
            scrut = self.expr(nostruct=True)
            self.expect("{")
            arms = []
            while not self.at("}"):
                self.skip_attrs()
                self.eat("|")
                l0 = self.peek().line
                pat = self.pattern()
                guard = self.expr() if self.eat("if") else None
                self.expect("=>")
                body = self.block() if self.at("{") else self.expr()
                arms.append((pat, guard, body))
                self.sf.arm_lines[id(pat)] = (l0, self.peek(-1).line)
                if not self.eat(",") and not self.at("}"):
                    if body[0] not in ("block", "if", "match"):
                        fail("unsupported syntax in match arm", self.peek(), self.sf.name)
            self.expect("}")
            return ("match", scrut, arms, t.line)
        return super().primary(nostruct)

    def fn(self, header_only=False):
        """as rs2lean.Parser.fn, but records how `self` is taken: ("self", "ref" | "mut" | "value")"""
        j = self.i
        depth = 0
        kind = None
        while True:
            tk = self.toks[j]
            if tk.kind == "eof":
                break
            if tk.kind == "p" and tk.text == "(":
                depth += 1
            elif tk.kind == "p" and tk.text == ")":
                depth -= 1
                if depth == 0:
                    break
            elif depth == 1 and tk.kind == "id" and tk.text == "self" and kind is None:
                prev = [x.text for x in self.toks[max(j - 3, 0):j]]
                if "&" in prev[-3:] and "mut" in prev[-2:]:
                    kind = "mut"
                elif "&" in prev[-3:]:
                    kind = "ref"
                else:
                    kind = "value"
                break
            j += 1
        f = super().fn(header_only)
        f["self"] = kind
        return f


# ----------------------------------------------------------------------------------------------
# types
# ----------------------------------------------------------------------------------------------
class TV:
    """type variable (element type of `vec![]`, type of an unsuffixed integer literal, of `None`)"""

    def __init__(self):
        self.ty = None


def rs(t):
    while isinstance(t, TV) and t.ty is not None:
        t = t.ty
    if isinstance(t, tuple):
        return tuple([t[0]] + [x if isinstance(x, int) else rs(x) for x in t[1:]])
    if isinstance(t, list):
        return [rs(x) for x in t]
    return t


def unify(a, b):
    a, b = rs(a), rs(b)
    if isinstance(a, TV):
        if a is not b:
            a.ty = b
        return True
    if isinstance(b, TV):
        b.ty = a
        return True
    if isinstance(a, tuple) and isinstance(b, tuple):
        ta = "res" if a[0] in ("res_ok", "res_err") else a[0]
        tb = "res" if b[0] in ("res_ok", "res_err") else b[0]
        if len(a) != len(b) or ta != tb:
            return False
        for x, y in zip(a[1:], b[1:]):
            if isinstance(x, int) or isinstance(y, int):
                if x != y:
                    return False
            elif isinstance(x, list) or isinstance(y, list):
                if not (isinstance(x, list) and isinstance(y, list) and len(x) == len(y)
                        and all(unify(p, q) for p, q in zip(x, y))):
                    return False
            elif not unify(x, y):
                return False
        return True
    return a == b


BASE_LTY = {"usize": "Nat", "i32": "Int", "bool": "Bool", "tok": "Tok", "ast": "Ast", "cmp": "Cmp",
            "string": "String", "val": "Val", "kvp": "(String × Ast)", "jerr": "CErr", "unit": "Unit"}


def lty(t):
    t = rs(t)
    if isinstance(t, TV):
        raise TieError("a type could not be inferred (unsuffixed literal / empty `vec![]` / `None` never used)")
    if isinstance(t, str):
        if t in BASE_LTY:
            return BASE_LTY[t]
        raise TieError(f"no Lean type for {t!r}")
    if t[0] == "list":
        return "List " + atom(lty(t[1]))
    if t[0] == "opt":
        return "Option " + atom(lty(t[1]))
    if t[0] == "tuple":
        return "(" + " × ".join(lty(x) for x in t[1]) + ")"
    if t[0] == "array":
        return "(" + " × ".join([lty(t[2])] * t[1]) + ")"
    if t[0] in ("res", "res_ok", "res_err"):
        return "Res " + atom(lty(t[1]))
    raise TieError(f"no Lean type for {t!r}")


def tproj(term, i, n):
    """i-th component (0-based) of a Lean n-tuple term"""
    s = atom(term)
    for _ in range(i):
        s += ".2"
    if i < n - 1:
        s += ".1"
    return s


# model constructors (Model/Lexer.lean `Tok`, Model/Value.lean `Ast` / `Cmp`)
MODEL_TOK = {"Identifier": ("identifier", "string"), "QuotedIdentifier": ("quotedIdentifier", "string"),
             "Number": ("number", "i32"), "Literal": ("literal", "val"), "Dot": ("dot", None), "Star": ("star", None),
             "Flatten": ("flatten", None), "And": ("and", None), "Or": ("or", None), "Pipe": ("pipe", None),
             "Filter": ("filter", None), "Lbracket": ("lbracket", None), "Rbracket": ("rbracket", None),
             "Comma": ("comma", None), "Colon": ("colon", None), "Not": ("not", None), "Ne": ("ne", None),
             "Eq": ("eq", None), "Gt": ("gt", None), "Gte": ("gte", None), "Lt": ("lt", None), "Lte": ("lte", None),
             "At": ("at", None), "Ampersand": ("ampersand", None), "Lparen": ("lparen", None),
             "Rparen": ("rparen", None), "Lbrace": ("lbrace", None), "Rbrace": ("rbrace", None), "Eof": ("eof", None)}
TOK_PAYLOAD_RUST = {"string": "String", "i32": "i32", "val": "Rcvar"}
MODEL_CMP = {"Equal": "eq", "NotEqual": "ne", "LessThan": "lt", "LessThanEqual": "le", "GreaterThan": "gt",
             "GreaterThanEqual": "ge"}
MODEL_AST = R.MODEL_AST
AST_FIELD_TY = {"offset": "usize", "comparator": "cmp", "lhs": "ast", "rhs": "ast", "predicate": "ast", "then": "ast",
                "ast": "ast", "node": "ast", "name": "string", "args": ("list", "ast"), "idx": "i32", "value": "val",
                "elements": None, "start": ("opt", "i32"), "stop": ("opt", "i32"), "step": "i32"}


def ast_field_ty(variant, f):
    if f == "elements":
        return ("list", "kvp") if variant == "MultiHash" else ("list", "ast")
    return AST_FIELD_TY[f]


# ----------------------------------------------------------------------------------------------
# IR:  ("ret", text) | ("let", name, type|None, term, rest) | ("match", scrut, [(pat, comp)]) |
#      ("call", callterm, valpat, ts, off, rest) | ("if", cond, c1, c2)
# ----------------------------------------------------------------------------------------------
def mentions(text, name):
    return re.search(r"(?<![A-Za-z0-9_'.])" + re.escape(name) + r"(?![A-Za-z0-9_'])", text) is not None


def render(c, ind):
    pad = "  " * ind
    k = c[0]
    if k == "ret":
        return [pad + c[1]]
    if k == "let":
        t = None
        if c[2] is not None:
            try:
                t = lty(c[2])
            except TieError:
                t = None
        return [pad + f"let {c[1]}" + (f" : {t}" if t else "") + f" := {c[3]}"] + render(c[4], ind)
    if k == "call":
        return [pad + f"match {c[1]} with", pad + f"| ({c[2]}, {c[3]}, {c[4]}) =>"] + render(c[5], ind + 1)
    if k == "match":
        out = [pad + f"match {c[1]} with"]
        arms = []
        for p, b in c[2]:
            body = render(b, ind + 1)
            if arms and arms[-1][1] == body and not re.search(r"(?<![.A-Za-z0-9_'])[a-z][A-Za-z0-9_']*", p.replace("some ", "").replace("none", "")) \
                    and not re.search(r"(?<![.A-Za-z0-9_'])[a-z][A-Za-z0-9_']*", arms[-1][0].split(" | ")[-1].replace("some ", "").replace("none", "")) \
                    and p != "_":
                arms[-1] = (arms[-1][0] + " | " + p, body)
            else:
                arms.append((p, body))
        for p, body in arms:
            if len(body) == 1 and len(pad) + len(p) + len(body[0].strip()) < 110:
                out.append(pad + f"| {p} => {body[0].strip()}")
            else:
                out.append(pad + f"| {p} =>")
                out += body
        return out
    if k == "if":
        els = render(c[3], ind + 1)
        out = [pad + f"if {c[1]} then"] + render(c[2], ind + 1)
        if len(els) == 1 and len(pad) + len(els[0].strip()) < 105:
            return out + [pad + "else " + els[0].strip()]
        return out + [pad + "else"] + els
    raise AssertionError(k)


def simplify(c):
    k = c[0]
    if k == "ret":
        return c
    if k == "let":
        rest = simplify(c[4])
        if not mentions("\n".join(render(rest, 0)), c[1]):
            return rest
        return ("let", c[1], c[2], c[3], rest)
    if k == "if":
        return ("if", c[1], simplify(c[2]), simplify(c[3]))
    if k == "match":
        return ("match", c[1], [(p, simplify(b)) for p, b in c[2]])
    if k == "call":
        rest = simplify(c[5])
        v = c[2]
        # `match C with | (t, ts, off) => (t, ts, off)`  is  `C`
        if rest == ("ret", f"({v}, {c[3]}, {c[4]})"):
            return ("ret", c[1])
        if v.isidentifier():
            # destructuring `let (a, b) = call;`
            if rest[0] == "match" and rest[1] == v and len(rest[2]) == 1 and \
                    not mentions("\n".join(render(rest[2][0][1], 0)), v):
                return ("call", c[1], rest[2][0][0], c[3], c[4], rest[2][0][1])
            # `call?` : split on the Result inside the pattern of the call
            if rest[0] == "match" and rest[1] == v and len(rest[2]) == 2 and \
                    rest[2][0][0].startswith(".error ") and rest[2][1][0].startswith(".ok ") and \
                    not any(mentions("\n".join(render(b, 0)), v) for _, b in rest[2]):
                return ("match", c[1], [(f"({p}, {c[3]}, {c[4]})", b) for p, b in rest[2]])
            if not mentions("\n".join(render(rest, 0)), v):
                return ("call", c[1], "_", c[3], c[4], rest)
        return ("call", c[1], v, c[3], c[4], rest)
    raise AssertionError(k)


def simplify2(c):
    """second pass: `| (t1, ts, off) => let x := t1; rest` -> `| (x, ts, off) => rest` (also for `.ok t1 =>` arms)"""
    k = c[0]
    if k == "ret":
        return c
    if k == "let":
        return ("let", c[1], c[2], c[3], simplify2(c[4]))
    if k == "if":
        return ("if", c[1], simplify2(c[2]), simplify2(c[3]))
    if k == "call":
        rest = simplify2(c[5])
        v = c[2]
        if v.isidentifier() and re.fullmatch(r"t[0-9]+", v) and rest[0] == "let" and rest[3] == v and rest[1].isidentifier() \
                and not mentions("\n".join(render(rest[4], 0)), v):
            return ("call", c[1], rest[1], c[3], c[4], rest[4])
        return ("call", c[1], v, c[3], c[4], rest)
    if k == "match":
        arms = []
        for p, b in c[2]:
            b = simplify2(b)
            if b[0] == "let" and re.fullmatch(r"t[0-9]+", b[3] or "") and b[1].isidentifier() and mentions(p, b[3]) \
                    and not mentions(p, b[1]) and not mentions("\n".join(render(b[4], 0)), b[3]):
                p = re.sub(r"(?<![A-Za-z0-9_'.])" + b[3] + r"(?![A-Za-z0-9_'])", b[1], p)
                b = b[4]
            arms.append((p, b))
        return ("match", c[1], arms)
    raise AssertionError(k)


PRELUDE_NAMES = {"fuel", "ts", "off", "e", "CErr", "PR", "Res", "TokenTuple", "USIZE_MAX", "tokEq", "eof_token",
                 "parse_tokens", "parseFuel", "run", "Tok", "Ast", "Cmp", "Val", "List", "Option", "some", "none"}


class Unit:
    """what is known about `impl Parser` as a whole"""

    def __init__(self):
        self.methods = {}     # name -> dict(fn, self, params [(name, ty)], ret, fueled, rec, sf)
        self.consts = {}      # name -> (text, ty)
        self.aliases = {}     # type alias -> type tag
        self.const_fields = {}  # field -> (term, ty)  (fields no method assigns, initialised by a constant in `new`)
        self.offset_init = None
        self.queue_param = None

    def rty(self, t, where=""):
        if t[0] == "ref":
            return self.rty(t[1], where)
        if t[0] == "unit":
            return "unit"
        if t[0] == "tuple":
            return ("tuple", [self.rty(x, where) for x in t[1]])
        if t[0] == "slice":
            return ("list", self.rty(t[1], where))
        if t[0] == "path":
            n, a = t[1], t[2]
            if n in ("usize", "i32", "bool"):
                return n
            simple = {"Token": "tok", "Ast": "ast", "Comparator": "cmp", "String": "string", "str": "msg",
                      "Rcvar": "val", "KeyValuePair": "kvp", "JmespathError": "jerr", "Parser": "parser"}
            if n in simple and not a:
                return simple[n]
            if n in ("Box", "Rc", "Arc") and len(a) == 1:
                return self.rty(a[0], where)
            if n in ("Vec", "VecDeque") and len(a) == 1:
                return ("list", self.rty(a[0], where))
            if n == "Option" and len(a) == 1:
                return ("opt", self.rty(a[0], where))
            if n == "Result" and len(a) == 2 and self.rty(a[1], where) == "jerr":
                return ("res", self.rty(a[0], where))
            if n in self.aliases and not a:
                return self.aliases[n]
        raise TieError(f"type {t!r} is outside the subset{where}")


class MethodGen:
    def __init__(self, unit, sf, info):
        self.u, self.sf, self.info = unit, sf, info
        self.fn = info["fn"]
        self.name = self.fn["name"]
        self.pure = info["self"] == "ref"
        self.reserved = set(PRELUDE_NAMES) | set(unit.methods) | set(unit.consts) | set(unit.const_fields)
        self.taken = set(self.reserved)
        self.loops = []
        self.in_closure = 0

    # -- helpers
    def err(self, msg, line=None):
        where = f"{self.sf.name}:{line}" if line else self.sf.name
        raise TieError(f"fn {self.name} ({where}): {msg}")

    def fresh(self, base):
        if base in LEAN_KEYWORDS:
            base += "_"
        if base not in self.taken:
            self.taken.add(base)
            return base
        i = 1
        while f"{base}_{i}" in self.taken:
            i += 1
        self.taken.add(f"{base}_{i}")
        return f"{base}_{i}"

    def fresh_num(self, base):
        i = 1
        while f"{base}{i}" in self.taken:
            i += 1
        self.taken.add(f"{base}{i}")
        return f"{base}{i}"

    def fresh_state(self):
        i = 1
        while f"ts{i}" in self.taken or f"off{i}" in self.taken:
            i += 1
        self.taken |= {f"ts{i}", f"off{i}"}
        return f"ts{i}", f"off{i}"

    def snapshot(self):
        return set(self.taken)

    def restore(self, snap):
        self.taken = set(snap)

    @staticmethod
    def as_dyn(t, ty):
        ty = rs(ty)
        if isinstance(ty, tuple) and ty[0] == "res_ok":
            return f".ok {atom(t)}"
        if isinstance(ty, tuple) and ty[0] == "res_err":
            return f".error {atom(t)}"
        return t

    @staticmethod
    def dyn_ty(ty):
        ty = rs(ty)
        if isinstance(ty, tuple) and ty[0] in ("res_ok", "res_err"):
            return ("res", ty[1])
        return ty

    @staticmethod
    def is_res(ty):
        ty = rs(ty)
        return isinstance(ty, tuple) and ty[0] in ("res", "res_ok", "res_err")

    def ret_value(self, value, env):
        """the method returns the Lean term `value`"""
        if self.pure:
            return ("ret", value)
        return ("ret", f"({value}, {env['%ts']}, {env['%off']})")

    def retk(self, t, ty, env):
        want = rs(self.info["ret"])
        ty = rs(ty)
        if self.in_closure:
            self.err("`return` / `?` inside a closure is outside the subset")
        if self.is_res(want):
            if not self.is_res(ty):
                self.err(f"the method returns {ty}, expected a `Result`")
            if ty[0] != "res_err" and not unify(want[1], ty[1]):
                self.err(f"the method returns `Result` of {ty[1]}, expected {want[1]}")
            return self.ret_value(self.as_dyn(t, ty), env)
        if not unify(want, ty):
            self.err(f"the method returns {ty}, expected {want}")
        return self.ret_value(t, env)

    def fault(self, kind, env, line):
        if not self.is_res(self.info["ret"]) or self.pure:
            self.err(f"a checked operation (`{kind}`) in a method that does not return a `Result`", line)
        return self.ret_value(f".error .{kind}", env)

    # -- expressions
    def E(self, e, env, k, exp=None):
        m = getattr(self, "E_" + e[0].replace("continue", "continue_").replace("break", "break_"), None)
        if m is None:
            self.err(f"expression kind `{e[0]}` is outside the subset", e[-1] if isinstance(e[-1], int) else None)
        return m(e, env, k, exp)

    def E_path(self, e, env, k, exp):
        segs = e[1]
        if len(segs) == 1:
            n = segs[0]
            if n in env:
                return k(env[n][0], env[n][1], env)
            if n == "None":
                want = rs(exp)
                if isinstance(want, tuple) and want[0] == "opt":
                    return k("none", want, env)
                return k("none", ("opt", TV()), env)
            if n in self.u.consts:
                return k(n, self.u.consts[n][1], env)
            self.err(f"unknown name `{n}`", e[2])
        if len(segs) == 2 and segs[0] == "Token" and segs[1] in MODEL_TOK:
            ctor, pty = MODEL_TOK[segs[1]]
            if pty is not None:
                self.err(f"`Token::{segs[1]}` needs a payload", e[2])
            return k(f"Tok.{ctor}", "tok", env)
        if len(segs) == 2 and segs[0] == "Comparator" and segs[1] in MODEL_CMP:
            return k(f"Cmp.{MODEL_CMP[segs[1]]}", "cmp", env)
        self.err(f"path `{'::'.join(segs)}` is outside the idiom table", e[2])

    def E_int(self, e, env, k, exp):
        ty = e[2] or (rs(exp) if rs(exp) in ("usize", "i32") else None)
        if ty is None:
            ty = exp if isinstance(rs(exp), TV) else TV()
        elif ty not in ("usize", "i32"):
            self.err(f"integer literal of type {ty}", e[3])
        elif e[1] > (2147483647 if ty == "i32" else 18446744073709551615):
            self.err("integer literal out of range", e[3])
        return k(str(e[1]), ty, env)

    def E_bool(self, e, env, k, exp):
        return k("true" if e[1] else "false", "bool", env)

    def E_unit(self, e, env, k, exp):
        return k("()", "unit", env)

    def E_lit(self, e, env, k, exp):
        if e[1].startswith('"') or e[1].startswith("r"):
            return k("()", "msg", env)
        self.err("character literals are outside the subset", e[2])

    def E_unary(self, e, env, k, exp):
        op = e[1]
        if op in ("&", "*"):
            return self.E(e[2], env, k, exp)
        if op == "!":
            def kn(t, ty, env2):
                ty = rs(ty)
                if ty == "bool":
                    return k(f"!{atom(t)}", "bool", env2)
                if ty == "prop":
                    return k(f"¬ {atom(t)}", "prop", env2)
                self.err("`!` on a non-boolean", e[3])
            return self.E(e[2], env, kn, "bool")
        if op == "-" and e[2][0] == "int":
            return k(f"(-{e[2][1]})", "i32", env)
        self.err(f"unary `{op}` is outside the subset", e[3])

    def E_binary(self, e, env, k, exp):
        op, l, r, line = e[1], e[2], e[3], e[4]

        def kl(lt, lty_, env1):
            def kr(rt, rty_, env2):
                a, b = rs(lty_), rs(rty_)
                if op in ("&&", "||"):
                    if env2["%ts"] != env1["%ts"] or env2["%off"] != env1["%off"]:
                        self.err(f"right operand of `{op}` changes the parser state", line)
                    if a == "bool" and b == "bool":
                        return k(f"{atom(lt)} {op} {atom(rt)}", "bool", env2)
                    if a in ("bool", "prop") and b in ("bool", "prop"):
                        x = lt if a == "prop" else f"{atom(lt)} = true"
                        y = rt if b == "prop" else f"{atom(rt)} = true"
                        return k(f"{atom(x)} {'∧' if op == '&&' else '∨'} {atom(y)}", "prop", env2)
                    self.err(f"`{op}` between {a} and {b}", line)
                if op in ("==", "!=") and a == "tok" and b == "tok":
                    t = f"tokEq {atom(lt)} {atom(rt)}"
                    return k(t if op == "==" else f"!({t})", "bool", env2)
                if op in ("==", "!=", "<", ">", "<=", ">="):
                    if not unify(lty_, rty_) or rs(lty_) not in ("usize", "i32"):
                        self.err(f"`{op}` between {a} and {b} is outside the subset", line)
                    sym = {"==": "=", "!=": "≠", "<": "<", ">": ">", "<=": "≤", ">=": "≥"}[op]
                    return k(f"{atom(lt)} {sym} {atom(rt)}", "prop", env2)
                self.err(f"operator `{op}` is outside the subset", line)
            return self.E(r, env1, kr, lty_ if rs(lty_) in ("usize", "i32") or isinstance(rs(lty_), TV) else None)
        return self.E(l, env, kl)

    def E_field(self, e, env, k, exp):
        recv, f, line = e[1], e[2], e[3]
        if recv[0] == "path" and recv[1] == ["self"]:
            if f == "offset":
                return k(env["%off"], "usize", env)
            if f == "token_queue":
                return k("%queue", "queue", env)
            if f in self.u.const_fields:
                return k(f, self.u.const_fields[f][1], env)
            if f in self.u.erased_fields:
                return k("()", "msg", env)
            self.err(f"`self.{f}` is outside the idiom table", line)
        self.err(f"field access `.{f}` is outside the idiom table", line)

    def E_tfield(self, e, env, k, exp):
        def kr(t, ty, env2):
            ty = rs(ty)
            if not (isinstance(ty, tuple) and ty[0] == "tuple" and e[2] < len(ty[1])):
                self.err(f"`.{e[2]}` on {ty}", e[3])
            return k(tproj(t, e[2], len(ty[1])), ty[1][e[2]], env2)
        return self.E(e[1], env, kr)

    def E_index(self, e, env, k, exp):
        def kr(t, ty, env2):
            ty = rs(ty)
            if not (isinstance(ty, tuple) and ty[0] == "array"):
                self.err(f"indexing {ty} is outside the subset", e[3])
            if e[2][0] != "int" or e[2][1] >= ty[1]:
                self.err("only a constant in-bounds index may be read from a fixed-size array", e[3])
            return k(tproj(t, e[2][1], ty[1]), ty[2], env2)
        return self.E(e[1], env, kr)

    def rebind(self, name, t, ty, env, k):
        env2 = dict(env)
        lean = self.fresh(name)
        env2[name] = (lean, ty)
        return ("let", lean, ty, t, k("()", "unit", env2))

    def E_assign(self, e, env, k, exp):
        op, lhs, rhs, line = e[1], e[2], e[3], e[4]
        if lhs[0] == "field" and lhs[1][0] == "path" and lhs[1][1] == ["self"]:
            if lhs[2] != "offset" or op != "=" or self.pure:
                self.err(f"assignment `self.{lhs[2]} {op} ..` is outside the idiom table", line)

            def ka(t, ty, env2):
                if not unify("usize", ty):
                    self.err(f"assigning {rs(ty)} to `self.offset`", line)
                i = 1
                while f"off{i}" in self.taken:
                    i += 1
                self.taken.add(f"off{i}")
                return ("let", f"off{i}", "usize", t, k("()", "unit", dict(env2, **{"%off": f"off{i}"})))
            return self.E(rhs, env, ka, "usize")
        if lhs[0] == "path" and len(lhs[1]) == 1 and lhs[1][0] in env:
            name = lhs[1][0]
            vty = env[name][1]
            if op == "=":
                def ka(t, ty, env2):
                    want = self.dyn_ty(env2[name][1])
                    if self.is_res(want):
                        if not self.is_res(ty) or (rs(ty)[0] != "res_err" and not unify(want[1], rs(ty)[1])):
                            self.err(f"assigning {rs(ty)} to `{name}`", line)
                        return self.rebind(name, self.as_dyn(t, ty), want, env2, k)
                    if not unify(want, ty):
                        self.err(f"assigning {rs(ty)} to `{name}` of type {rs(want)}", line)
                    return self.rebind(name, t, want, env2, k)
                return self.E(rhs, env, ka, self.dyn_ty(vty))

            def kc(t, ty, env2):
                cur, cty = env2[name][0], env2[name][1]
                if not unify(cty, ty) or not unify(cty, "usize"):
                    self.err(f"`{op}` on {rs(cty)} is outside the subset (only `usize`)", line)
                if op == "+=":
                    return ("if", f"{atom(cur)} + {atom(t)} ≤ USIZE_MAX",
                            self.rebind(name, f"{atom(cur)} + {atom(t)}", "usize", env2, k), self.fault("overflow", env2, line))
                return ("if", f"{atom(t)} ≤ {atom(cur)}",
                        self.rebind(name, f"{atom(cur)} - {atom(t)}", "usize", env2, k), self.fault("overflow", env2, line))
            return self.E(rhs, env, kc, vty)
        if lhs[0] == "index" and lhs[1][0] == "path" and len(lhs[1][1]) == 1 and lhs[1][1][0] in env and op == "=":
            name = lhs[1][1][0]
            aty = rs(env[name][1])
            if not (isinstance(aty, tuple) and aty[0] == "array"):
                self.err(f"`{name}[..] = ..` where `{name}` is not a fixed-size array", line)
            n = aty[1]

            def ki(it, ity_, env1):
                if not unify(ity_, "usize"):
                    self.err("array index that is not a `usize`", line)

                def kv(vt, vty, env2):
                    if not unify(aty[2], vty):
                        self.err(f"storing {rs(vty)} into an array of {rs(aty[2])}", line)
                    cur = env2[name][0]

                    def upd(i):
                        return "(" + ", ".join(vt if j == i else tproj(cur, j, n) for j in range(n)) + ")"
                    if it.isdigit():
                        if int(it) >= n:
                            return self.fault("outOfBounds", env2, line)
                        return self.rebind(name, upd(int(it)), env2[name][1], env2, k)
                    arms = []
                    snap = self.snapshot()
                    for i in range(n):
                        self.restore(snap)
                        arms.append((str(i), self.rebind(name, upd(i), env2[name][1], env2, k)))
                    self.restore(snap)
                    arms.append(("_", self.fault("outOfBounds", env2, line)))
                    return ("match", it, arms)
                return self.E(rhs, env1, kv, aty[2])
            return self.E(lhs[2], env, ki, "usize")
        self.err("assignment to something that is neither a local, `self.offset` nor an array slot", line)

    def E_call(self, e, env, k, exp):
        f, args, line = e[1], e[2], e[3]
        if f[0] != "path":
            self.err("call of a computed function is outside the subset", line)
        name = "::".join(f[1])
        if name == "Ok" and len(args) == 1:
            want = rs(exp)
            inner = want[1] if self.is_res(want) else None
            return self.E(args[0], env, lambda t, ty, env2: k(t, ("res_ok", ty), env2), inner)
        if name == "Err" and len(args) == 1:
            def ke(t, ty, env2):
                if rs(ty) != "jerr":
                    self.err(f"`Err` of {rs(ty)}: only `JmespathError` values are in the idiom table", line)
                want = rs(exp)
                return k(t, ("res_err", want[1] if self.is_res(want) else TV()), env2)
            return self.E(args[0], env, ke)
        if name == "Some" and len(args) == 1:
            want = rs(exp)
            inner = want[1] if isinstance(want, tuple) and want[0] == "opt" else None
            return self.E(args[0], env, lambda t, ty, env2: k(f"some {atom(t)}", ("opt", ty), env2), inner)
        if name in ("Box::new", "Rc::new", "Arc::new") and len(args) == 1:
            return self.E(args[0], env, k, exp)
        if len(f[1]) == 2 and f[1][0] == "Token" and f[1][1] in MODEL_TOK and len(args) == 1:
            ctor, pty = MODEL_TOK[f[1][1]]
            if pty is None:
                self.err(f"`Token::{f[1][1]}` takes no payload", line)

            def kp(t, ty, env2):
                if not unify(pty, ty):
                    self.err(f"`Token::{f[1][1]}` applied to {rs(ty)}", line)
                return k(f"Tok.{ctor} {atom(t)}", "tok", env2)
            return self.E(args[0], env, kp, pty)
        if name == "JmespathError::new" and len(args) == 3:
            def k1(t1, ty1, env1):
                if rs(ty1) != "msg":
                    self.err("`JmespathError::new` whose first argument is not the expression text", line)

                def k2(t2, ty2, env2):
                    if not unify(ty2, "usize"):
                        self.err("`JmespathError::new` whose second argument is not a `usize`", line)

                    def k3(t3, ty3, env3):
                        if rs(ty3) != "msg":
                            self.err("`JmespathError::new` whose third argument is not `ErrorReason::Parse(..)`", line)
                        return k(f"CErr.at {atom(t2)}", "jerr", env3)
                    return self.E(args[2], env2, k3)
                return self.E(args[1], env1, k2, "usize")
            return self.E(args[0], env, k1)
        if name == "ErrorReason::Parse" and len(args) == 1:
            def kq(t, ty, env2):
                if rs(ty) != "msg":
                    self.err("`ErrorReason::Parse` of something that is not a message", line)
                return k("()", "msg", env2)
            return self.E(args[0], env, kq)
        self.err(f"call of `{name}` is outside the idiom table", line)

    def call_method(self, m, args, env, k, line):
        if m not in self.u.methods:
            self.err(f"`self.{m}(..)` is not a method of `impl Parser`", line)
        info = self.u.methods[m]
        if len(args) != len(info["params"]):
            self.err(f"`self.{m}` called with {len(args)} arguments", line)

        def go(i, env1, acc):
            if i == len(args):
                fuel = ["fuel"] if info["fueled"] else []
                if info["self"] == "ref":
                    return k(" ".join([m, env1["%ts"], env1["%off"]] + fuel + acc), info["ret"], env1)
                if self.pure:
                    self.err(f"a `&self` method calls the `&mut self` method `{m}`", line)
                callterm = " ".join([m] + fuel + acc + [env1["%ts"], env1["%off"]])
                v = self.fresh_num("t")
                ts, off = self.fresh_state()
                return ("call", callterm, v, ts, off, k(v, info["ret"], dict(env1, **{"%ts": ts, "%off": off})))
            pname, pty = info["params"][i]

            def ka(t, ty, env2):
                if rs(pty) == "msg":
                    if rs(ty) != "msg":
                        self.err(f"argument `{pname}` of `{m}` is not a message", line)
                    return go(i + 1, env2, acc)
                if self.is_res(ty) or not unify(pty, ty):
                    self.err(f"argument `{pname}` of `{m}`: {rs(ty)} where {rs(pty)} is expected", line)
                return go(i + 1, env2, acc + [atom(t)])
            return self.E(args[i], env1, ka, pty)
        return go(0, env, [])

    def E_mcall(self, e, env, k, exp):
        recv, m, args, line = e[1], e[2], e[3], e[4]
        if recv[0] == "path" and recv[1] == ["self"]:
            return self.call_method(m, args, env, k, line)
        # statements on a local collection / message buffer
        if recv[0] == "path" and len(recv[1]) == 1 and recv[1][0] in env:
            name = recv[1][0]
            vty = rs(env[name][1])
            if m == "push" and len(args) == 1 and isinstance(vty, tuple) and vty[0] == "list":
                def kp(t, ty, env2):
                    if self.is_res(ty) or not unify(vty[1], ty):
                        self.err(f"pushing {rs(ty)} onto a Vec of {rs(vty[1])}", line)
                    return self.rebind(name, f"{env2[name][0]} ++ [{t}]", env2[name][1], env2, k)
                return self.E(args[0], env, kp, vty[1])
            if m == "push_str" and len(args) == 1 and vty == "msg":
                return self.E(args[0], env, lambda t, ty, env2: k("()", "unit", env2))

        def kr(r, rty, env2):
            rty = rs(rty)
            if rty == "queue":
                if m == "pop_front" and not args:
                    if self.pure:
                        self.err("`pop_front` in a `&self` method", line)
                    return k("%pop", ("popfront",), env2)
                if m == "get" and len(args) == 1:
                    def kg(t, ty, env3):
                        if not unify(ty, "usize"):
                            self.err("`token_queue.get` of a non-`usize`", line)
                        return k(f"{env3['%ts']}[{t}]?", ("opt", ("tuple", ["usize", "tok"])), env3)
                    return self.E(args[0], env2, kg, "usize")
                self.err(f"`self.token_queue.{m}` is outside the idiom table", line)
            if m in ("clone", "to_owned", "to_string", "as_ref", "as_str") and not args and \
                    (rty in ("tok", "ast", "val", "cmp", "string", "msg", "kvp") or
                     (isinstance(rty, tuple) and rty[0] in ("list", "opt", "tuple", "array"))):
                return k(r, rty, env2)
            if rty == "tok" and m == "lbp" and not args:
                return k(f"Tok.lbp {atom(r)}", "usize", env2)
            if isinstance(rty, tuple) and rty[0] == "list" and m == "is_empty" and not args:
                return k(f"List.isEmpty {atom(r)}", "bool", env2)
            if isinstance(rty, tuple) and rty[0] == "opt" and m == "unwrap_or" and len(args) == 1:
                def kd(t, ty, env3):
                    if not unify(rty[1], ty):
                        self.err(f"`unwrap_or` of {rs(ty)} on an Option of {rs(rty[1])}", line)
                    return k(f"{atom(r)}.getD {atom(t)}", rty[1], env3)
                return self.E(args[0], env2, kd, rty[1])
            if isinstance(rty, tuple) and rty[0] == "opt" and m == "ok_or_else" and len(args) == 1:
                cl = args[0]
                if cl[0] != "closure" or cl[1]:
                    self.err("`ok_or_else` whose argument is not a `|| ..` closure", line)
                snap = self.snapshot()
                v = self.fresh_num("t")
                some = k(v, ("res_ok", rty[1]), env2)
                self.restore(snap)
                self.in_closure += 1

                def kn(t, ty, env3):
                    if rs(ty) != "jerr":
                        self.err("`ok_or_else` closure that does not build a `JmespathError`", line)
                    self.in_closure -= 1
                    c = k(t, ("res_err", rty[1]), env3)
                    self.in_closure += 1
                    return c
                none = self.E(cl[2], env2, kn)
                self.in_closure -= 1
                self.restore(snap)
                return ("match", r, [(f"some {v}", some), ("none", none)])
            if self.is_res(rty) and m == "and_then" and len(args) == 1:
                cl = args[0]
                if cl[0] != "closure" or len(cl[1]) != 1 or cl[1][0][0] != "bind":
                    self.err("`and_then` whose argument is not a one-parameter closure", line)
                x = cl[1][0][1]

                def body(payload, env3):
                    self.in_closure += 1

                    def kb(t, ty, env4):
                        if not self.is_res(ty):
                            self.err("`and_then` closure that does not return a `Result`", line)
                        self.in_closure -= 1
                        env5 = dict(env4)
                        if x in env2:
                            env5[x] = env2[x]
                        else:
                            env5.pop(x, None)
                        c = k(t, ty, env5)
                        self.in_closure += 1
                        return c
                    c = self.E(cl[2], dict(env3, **{x: (payload, rty[1])}), kb)
                    self.in_closure -= 1
                    return c
                if rty[0] == "res_ok":
                    return body(r, env2)
                if rty[0] == "res_err":
                    return k(r, ("res_err", TV()), env2)
                snap = self.snapshot()
                ename = self.fresh("e")
                errc = k(ename, ("res_err", TV()), env2)
                self.restore(snap)
                lx = self.fresh(x)
                okc = body(lx, env2)
                self.restore(snap)
                return ("match", r, [(f".error {ename}", errc), (f".ok {lx}", okc)])
            self.err(f"method `.{m}` on {rty} is outside the idiom table", line)
        return self.E(recv, env, kr)

    def E_try(self, e, env, k, exp):
        def kt(t, ty, env2):
            ty = rs(ty)
            if self.in_closure:
                self.err("`?` inside a closure is outside the subset", e[2])
            if not self.is_res(ty):
                self.err(f"`?` applied to {ty}", e[2])
            if not self.is_res(self.info["ret"]):
                self.err("`?` in a method that does not return a `Result`", e[2])
            if ty[0] == "res_ok":
                return k(t, ty[1], env2)
            if ty[0] == "res_err":
                return self.ret_value(f".error {atom(t)}", env2)
            snap = self.snapshot()
            ename = self.fresh("e")
            errc = self.ret_value(f".error {ename}", env2)
            self.restore(snap)
            v = self.fresh_num("t")
            okc = k(v, ty[1], env2)
            self.restore(snap)
            return ("match", t, [(f".error {ename}", errc), (f".ok {v}", okc)])
        want = rs(exp)
        return self.E(e[1], env, kt, ("res", exp) if exp is not None else None)

    def E_struct(self, e, env, k, exp):
        segs, fields, line = e[1], e[2], e[3]
        if len(segs) == 2 and segs[0] == "Ast" and segs[1] in MODEL_AST:
            ctor, order = MODEL_AST[segs[1]]
            if sorted(f for f, _ in fields) != sorted(order):
                self.err(f"`Ast::{segs[1]} {{ .. }}` does not give exactly the fields {order}", line)
            ftys = {f: ast_field_ty(segs[1], f) for f in order}
            rty_, build = "ast", lambda vals: " ".join([f"Ast.{ctor}"] + [atom(vals[f]) for f in order])
        elif segs == ["KeyValuePair"]:
            if sorted(f for f, _ in fields) != ["key", "value"]:
                self.err("`KeyValuePair { .. }` does not give exactly `key` and `value`", line)
            ftys = {"key": "string", "value": "ast"}
            rty_, build = "kvp", lambda vals: f"({vals['key']}, {vals['value']})"
        else:
            self.err(f"struct literal `{'::'.join(segs)}` is outside the idiom table", line)

        def go(i, env1, vals):
            if i == len(fields):
                return k(build(vals), rty_, env1)
            f, fe = fields[i]

            def kf(t, ty, env2):
                if self.is_res(ty) or not unify(ftys[f], ty):
                    self.err(f"field `{f}` of `{'::'.join(segs)}`: {rs(ty)} where {rs(ftys[f])} is expected", line)
                return go(i + 1, env2, dict(vals, **{f: t}))
            return self.E(fe, env1, kf, ftys[f])
        return go(0, env, {})

    def E_tuple(self, e, env, k, exp):
        items = e[1]

        def go(i, env1, ts_, tys):
            if i == len(items):
                return k("(" + ", ".join(ts_) + ")", ("tuple", tys), env1)
            return self.E(items[i], env1, lambda t, ty, env2: go(i + 1, env2, ts_ + [t], tys + [ty]))
        return go(0, env, [], [])

    def E_array(self, e, env, k, exp):
        items = e[1]
        elt = TV()
        if not items:
            self.err("empty array literal", e[2])

        def go(i, env1, ts_):
            if i == len(items):
                return k("(" + ", ".join(ts_) + ")", ("array", len(items), elt), env1)

            def ki(t, ty, env2):
                if self.is_res(ty) or not unify(elt, ty):
                    self.err("array literal with elements of different types", e[2])
                return go(i + 1, env2, ts_ + [t])
            return self.E(items[i], env1, ki, elt)
        return go(0, env, [])

    def E_macro(self, e, env, k, exp):
        if e[1] == "vec" and not e[2]:
            want = rs(exp)
            if isinstance(want, tuple) and want[0] == "list":
                return k("[]", want, env)
            return k("[]", ("list", TV()), env)
        if e[1] == "format":
            return k("()", "msg", env)
        self.err(f"macro `{e[1]}!` is outside the subset", e[3])

    def E_closure(self, e, env, k, exp):
        self.err("a closure outside `and_then(|x| ..)` / `ok_or_else(|| ..)` is outside the subset", e[3])

    def E_return(self, e, env, k, exp):
        if e[1] is None:
            self.err("`return;` is outside the subset", e[2])
        return self.E(e[1], env, self.retk, self.info["ret"])

    def E_break_(self, e, env, k, exp):
        if "%break" not in env:
            self.err("`break` outside a loop", e[1])
        return env["%break"](env)

    def E_continue_(self, e, env, k, exp):
        if "%continue" not in env:
            self.err("`continue` outside a loop", e[1])
        return env["%continue"](env)

    def E_block(self, e, env, k, exp):
        return self.B(e, env, k, exp)

    @staticmethod
    def scoped(k, outer, names):
        def k2(t, ty, env2):
            env3 = dict(env2)
            for n in names:
                if n in outer:
                    env3[n] = outer[n]
                else:
                    env3.pop(n, None)
            return k(t, ty, env3)
        return k2

    def B(self, block, env, k, exp=None):
        stmts, tail = block[1], block[2]
        declared = []
        for s in stmts:
            if s[0] == "let":
                declared += pat_binders(s[1])
        k = self.scoped(k, env, declared)

        def go(i, env1):
            if i == len(stmts):
                if tail is None:
                    return k("()", "unit", env1)
                return self.E(tail, env1, k, exp)
            s = stmts[i]
            if s[0] == "let":
                pat, ty, init, line = s[1], s[2], s[3], s[4]
                if init is None:
                    self.err("`let` without initialiser is outside the subset", line)
                dty = self.u.rty(ty) if ty else None

                def kl(t, tty, env2):
                    tty_ = rs(tty)
                    if tty_ in ("unit", "queue") or tty_ == ("popfront",):
                        self.err("`let` bound to something that is not a value", line)
                    if dty is not None and not unify(dty, self.dyn_ty(tty)):
                        self.err(f"`let` of declared type {rs(dty)} initialised with {tty_}", line)
                    env3 = dict(env2)
                    if pat[0] == "wild":
                        return go(i + 1, env3)
                    if pat[0] == "bind":
                        name = pat[1]
                        if tty_ == "msg":
                            env3[name] = ("()", "msg")
                            return go(i + 1, env3)
                        if isinstance(tty_, tuple) and tty_[0] in ("res_ok", "res_err"):
                            t, tty = self.as_dyn(t, tty), self.dyn_ty(tty)
                        lean = self.fresh(name)
                        env3[name] = (lean, tty)
                        return ("let", lean, tty, t, go(i + 1, env3))
                    if pat[0] == "tuple" and isinstance(tty_, tuple) and tty_[0] == "tuple" and \
                            len(pat[1]) == len(tty_[1]) and all(p[0] in ("bind", "wild") for p in pat[1]):
                        parts = []
                        for p, pt in zip(pat[1], tty_[1]):
                            if p[0] == "wild":
                                parts.append("_")
                            else:
                                lean = self.fresh(p[1])
                                env3[p[1]] = (lean, pt)
                                parts.append(lean)
                        return ("match", t, [("(" + ", ".join(parts) + ")", go(i + 1, env3))])
                    self.err("`let` pattern outside the subset (a name or a tuple of names)", line)
                return self.E(init, env1, kl, dty)
            e = s[1]

            def ke(t, tty, env2):
                if self.is_res(tty):
                    self.err("a `Result` is dropped without `?`", s[2])
                return go(i + 1, env2)
            return self.E(e, env1, ke)
        return go(0, env)

    # -- patterns
    def P(self, pat, sty, s, env, top=True, line=None, reuse=None):
        """-> (lean pattern, env').  `s` = Lean term of the scrutinee (for whole-value binders at top level)"""
        env = dict(env)
        sty = rs(sty)
        kind = pat[0]
        if kind == "wild":
            return "_", env
        if kind == "bind":
            if top:
                env[pat[1]] = (s, sty)
                return "_", env
            lean = self.fresh(pat[1])
            env[pat[1]] = (lean, sty)
            return lean, env
        if kind == "at":
            if not top:
                self.err("`x @ pat` below the top of a pattern is outside the subset", line)
            lp, env = self.P(pat[2], sty, s, env, True, line)
            term = s
            if sty == "tok" and lp.startswith(".") and "_" not in lp.split():
                term = "Tok" + lp if " " not in lp else "(Tok" + lp + ")"
            env[pat[1]] = (term, sty)
            return lp, env
        if kind == "lit" and sty in ("usize", "i32") and pat[1].lstrip("-").isdigit():
            return pat[1], env
        if kind == "tuple" and isinstance(sty, tuple) and sty[0] == "tuple" and len(sty[1]) == len(pat[1]):
            parts = []
            for p, pt in zip(pat[1], sty[1]):
                lp, env = self.P(p, pt, None, env, False, line)
                parts.append(lp)
            return "(" + ", ".join(parts) + ")", env
        name = "::".join(pat[1]) if kind in ("tstruct", "ppath", "pstruct") else None

        def sub(p, pty):
            nonlocal env
            lp, env = self.P(p, pty, None, env, False, line)
            return lp if (" " not in lp or lp.startswith("(")) else f"({lp})"
        if sty == ("popfront",):
            if kind == "tstruct" and name == "Some" and len(pat[2]) == 1:
                lp = sub(pat[2][0], ("tuple", ["usize", "tok"]))
                i = 1
                while f"ts{i}" in self.taken:
                    i += 1
                self.taken.add(f"ts{i}")
                env["%ts"] = f"ts{i}"
                return f"{lp} :: ts{i}", env
            if kind == "ppath" and name == "None":
                env["%ts"] = "[]"
                return "[]", env
        if isinstance(sty, tuple) and sty[0] == "opt":
            if kind == "tstruct" and name == "Some" and len(pat[2]) == 1:
                return f"some {sub(pat[2][0], sty[1])}", env
            if kind == "ppath" and name == "None":
                return "none", env
        if sty == "tok" and kind in ("tstruct", "ppath") and len(pat[1]) == 2 and pat[1][0] == "Token" and pat[1][1] in MODEL_TOK:
            ctor, pty = MODEL_TOK[pat[1][1]]
            if pty is None and kind == "ppath":
                return f".{ctor}", env
            if pty is not None and kind == "tstruct" and len(pat[2]) == 1:
                return f".{ctor} {sub(pat[2][0], pty)}", env
        if sty == "cmp" and kind == "ppath" and len(pat[1]) == 2 and pat[1][0] == "Comparator" and pat[1][1] in MODEL_CMP:
            return f".{MODEL_CMP[pat[1][1]]}", env
        if sty == "ast" and kind == "pstruct" and len(pat[1]) == 2 and pat[1][0] == "Ast" and pat[1][1] in MODEL_AST:
            variant = pat[1][1]
            ctor, order = MODEL_AST[variant]
            given = dict(pat[2])
            for f in given:
                if f not in order:
                    self.err(f"`Ast::{variant}` has no field `{f}`", line)
            if not pat[3] and set(given) != set(order):
                self.err(f"pattern `Ast::{variant} {{ .. }}` does not name every field", line)
            parts = [sub(given[f], ast_field_ty(variant, f)) if f in given else "_" for f in order]
            return " ".join([f".{ctor}"] + parts), env
        self.err(f"pattern {name or pat!r} on {sty} is outside the subset", line)

    @staticmethod
    def pat_head(pat):
        p = pat
        while p[0] == "at":
            p = p[2]
        if p[0] in ("wild", "bind"):
            return ("any",)
        if p[0] in ("ppath", "tstruct", "pstruct"):
            subs = p[2] if p[0] == "tstruct" else ([q for _, q in p[2]] if p[0] == "pstruct" else [])

            def simple(q):
                return q[0] in ("wild", "bind") or (q[0] == "tuple" and all(simple(x) for x in q[1]))
            return ("ctor", "::".join(p[1]), all(simple(q) for q in subs), len(subs))
        return ("other",)

    def E_if(self, e, env, k, exp):
        cnd, then, els, line = e[1], e[2], e[3], e[4]

        def else_comp(env2):
            if els is None:
                return k("()", "unit", env2)
            if els[0] == "if":
                return self.E_if(els, env2, k, exp)
            return self.B(els, env2, k, exp)
        if cnd[0] == "letcond":
            pat, scrut = cnd[1], cnd[2]

            def ks(s, sty, env2):
                if pat[0] in ("bind", "wild"):
                    self.err("irrefutable `if let`", line)
                snap = self.snapshot()
                scr = env2["%ts"] if rs(sty) == ("popfront",) else s
                lp, env3 = self.P(pat, sty, s, env2, True, line)
                c1 = self.B(then, env3, self.scoped(k, env2, pat_binders(pat)), exp)
                self.restore(snap)
                c2 = else_comp(env2)
                self.restore(snap)
                return ("match", scr, [(lp, c1), ("_", c2)])
            return self.E(scrut, env, ks)

        def kc(t, ty, env2):
            if rs(ty) not in ("bool", "prop"):
                self.err(f"condition of type {rs(ty)}", line)
            if t == "true":
                return self.B(then, env2, k, exp)
            if t == "false":
                return else_comp(env2)
            snap = self.snapshot()
            c1 = self.B(then, env2, k, exp)
            self.restore(snap)
            c2 = else_comp(env2)
            self.restore(snap)
            return ("if", t, c1, c2)
        return self.E(cnd, env, kc, "bool")

    def E_match(self, e, env, k, exp):
        scrut, arms, line = e[1], e[2], e[3]

        def ks(s, sty, env2):
            sty_ = rs(sty)
            if self.is_res(sty_):
                self.err("`match` on a `Result` is outside the subset (use `?` / `and_then`)", line)
            scr = env2["%ts"] if sty_ == ("popfront",) else s
            flat = []
            for pat, guard, body in arms:
                for a in (pat[1] if pat[0] == "or" else [pat]):
                    flat.append((a, guard, body))
            snap = self.snapshot()

            def arm_body(i, env3):
                pat, guard, body = flat[i]
                kb = self.scoped(k, env2, pat_binders(pat))
                if guard is None:
                    return self.E(body, env3, kb, exp)

                def kg(t, ty, env4):
                    if rs(ty) not in ("bool", "prop"):
                        self.err("match guard that is not a condition", line)
                    if env4["%ts"] != env3["%ts"] or env4["%off"] != env3["%off"]:
                        self.err("match guard that changes the parser state", line)
                    inner = self.snapshot()
                    c1 = self.E(body, env4, kb, exp)
                    self.restore(inner)
                    c2 = fall(i)
                    self.restore(inner)
                    return ("if", t, c1, c2)
                return self.E(guard, env3, kg, "bool")

            def fall(i):
                """the guard of arm i failed: what the later arms do with a value that matches pattern i"""
                hi = self.pat_head(flat[i][0])
                cands = []
                for j in range(i + 1, len(flat)):
                    hj = self.pat_head(flat[j][0])
                    if hj == ("any",) or hi == ("any",) or hj[0] == "other" or hi[0] == "other" or hj[1] == hi[1]:
                        cands.append(j)
                    if hj == ("any",) and flat[j][1] is None:
                        break
                if not cands:
                    self.err("a guarded match arm is not followed by an arm for the same values", line)
                j = cands[0]
                hj = self.pat_head(flat[j][0])
                if hj == ("any",) or (hi[0] == "ctor" and hj[0] == "ctor" and hj[1] == hi[1] and hj[3] == 0):
                    _, envj = self.P(flat[j][0], sty, s, env2, True, line)
                    return arm_body(j, envj)
                out = []
                inner = self.snapshot()
                for j in cands:
                    self.restore(inner)
                    lp, envj = self.P(flat[j][0], sty, s, env2, True, line)
                    out.append((lp, arm_body(j, envj)))
                self.restore(inner)
                return ("match", scr, out)

            out, covered = [], []
            for i, (pat, guard, body) in enumerate(flat):
                hi = self.pat_head(pat)
                if any(h == ("any",) or (h[0] == "ctor" and hi[0] == "ctor" and h[1] == hi[1] and h[2]) for h in covered):
                    continue     # only reachable through the fall-through of an earlier guarded arm
                self.restore(snap)
                lp, env3 = self.P(pat, sty, s, env2, True, line)
                out.append((lp, arm_body(i, env3)))
                covered.append(hi)
                if hi == ("any",):
                    break
            self.restore(snap)
            if len(out) == 1 and out[0][0] == "_":
                return out[0][1]
            return ("match", scr, out)
        return self.E(scrut, env, ks)

    # -- loops: `while c { .. }` / `loop { .. }` become a function that also contains the rest of the method
    def E_while(self, e, env, k, exp):
        return self.loop(e[1], e[2], env, k, e[3], e[4], "while")

    def E_loop(self, e, env, k, exp):
        return self.loop(None, e[1], env, k, e[2], e[3], "loop")

    def loop(self, cond, body, env, k, line, endline, what):
        if self.pure or not self.is_res(self.info["ret"]):
            self.err("a loop in a method that is `&self` or does not return a `Result` is outside the subset", line)
        if self.in_closure:
            self.err("a loop inside a closure is outside the subset", line)
        idx = len(self.loops) + 1
        lname = f"{self.name}_loop" + ("" if idx == 1 else f"_{idx}")
        slot = {"name": lname}
        self.loops.append(slot)
        outer_vars = [n for n in env if not n.startswith("%")]
        assigned = set(R.assigned_vars(body))
        for n in walk(body):
            if n[0] == "assign" and n[2][0] == "index" and n[2][1][0] == "path" and len(n[2][1][1]) == 1:
                assigned.add(n[2][1][1][0])
        state = [n for n in outer_vars if n in assigned]
        saved_taken = self.taken
        self.taken = set(self.reserved)
        lenv, formals = {}, {}
        for n in outer_vars:
            ty = self.dyn_ty(env[n][1])
            if rs(ty) == "msg":
                lenv[n] = ("()", "msg")
                continue
            f = self.fresh(n)
            formals[n] = (f, ty)
            lenv[n] = (f, ty)
        lenv["%ts"], lenv["%off"] = "ts", "off"
        outer_break, outer_cont = env.get("%break"), env.get("%continue")

        def again(env_cur):
            return ("ret", " ".join([lname, "fuel", "%READS%"] +
                                    [atom(self.as_dyn(env_cur[n][0], env_cur[n][1])) for n in state] +
                                    [env_cur["%ts"], env_cur["%off"]]))

        def leave(env_cur):
            env2 = dict(env_cur)
            for key, v in (("%break", outer_break), ("%continue", outer_cont)):
                if v is None:
                    env2.pop(key, None)
                else:
                    env2[key] = v
            return k("()", "unit", env2)
        lenv["%break"], lenv["%continue"] = leave, again

        def run_body(env1):
            return self.B(body, env1, lambda t, ty, env2: again(env2))
        if cond is None:
            comp = run_body(lenv)
        else:
            def kc(t, ty, env1):
                if rs(ty) not in ("bool", "prop"):
                    self.err("loop condition that is not a condition", line)
                snap = self.snapshot()
                c1 = run_body(env1)
                self.restore(snap)
                c2 = leave(env1)
                self.restore(snap)
                return ("if", t, c1, c2)
            comp = self.E(cond, lenv, kc, "bool")
        comp = simplify2(simplify(comp))
        text = "\n".join(render(comp, 0))
        reads = [n for n in outer_vars if n not in state and n in formals and mentions(text, formals[n][0])]
        slot.update(comp=comp, reads=[(formals[n][0], formals[n][1]) for n in reads],
                    state=[(formals[n][0], formals[n][1]) for n in state], line=line, endline=endline, what=what)
        self.taken = saved_taken
        start = " ".join([lname, "fuel"] + [atom(self.as_dyn(env[n][0], env[n][1])) for n in reads + state] +
                         [env["%ts"], env["%off"]])
        return ("ret", start)

    # -- the method
    def gen(self):
        info, fn = self.info, self.fn
        env = {}
        for pname, pty in info["params"]:
            if rs(pty) == "msg":
                env[pname] = ("()", "msg")
                continue
            lean = self.fresh(pname)
            env[pname] = (lean, pty)
        self.formals = [(env[p][0], t) for p, t in info["params"] if rs(t) != "msg"]
        env["%ts"], env["%off"] = "ts", "off"
        self.taken |= {"ts", "off", "fuel"}
        comp = self.E(fn["body"], env, self.retk, info["ret"])
        return simplify2(simplify(comp))


def render_loop_reads(lines, reads):
    r = " ".join(f for f, _ in reads)
    return [ln.replace("%READS% ", (r + " ") if r else "").replace(" %READS%", (" " + r) if r else "") for ln in lines]


HEADER = r"""/- GENERATED by tools/rs2lean_parser.py from `impl Parser` of /repo/jmespath/src/parser.rs — do not edit.

Translation scheme (trusted; `Lemmas/ParserEquiv.lean` proves the hand model `Model/Parser.lean` equal to the result):
  * `struct Parser { token_queue, eof_token, expr, offset }`: every method takes the mutable part of `self` as two
    arguments `(ts : List TokenTuple) (off : Nat)` = `self.token_queue`, `self.offset`.  A `&mut self` method
    `fn f(&mut self, a, b) -> T` becomes `f [fuel] a b ts off : PR T` where `PR T = T × List TokenTuple × Nat` (value, queue and
    offset after the call — also when the value is an `Err`: Rust keeps the state, see `expr`); a `&self` method
    becomes `f ts off [fuel] a b : T`.  States are numbered (`ts1, off1, ..`), never shadowed.  `self.eof_token` is a
    field that no method assigns: the constant `Parser::new` stores.  `self.expr: &str` and every `&str` / `String`
    message (`error_msg`, `buff`, `message`, `format!(..)`) are only used to render error texts: erased.
  * `Result<T, JmespathError>` ↦ `Res T = Except CErr T`; `JmespathError::new(self.expr, pos, ErrorReason::Parse(_))`
    ↦ `CErr.at pos` (the error's offset; the message is dropped).  `e?` returns `(.error e, ts, off)` with the current
    state.  `Ok(..)`/`Err(..)`/`Some(..)`/`None`, `Box::new(x)`/`*x`/`&x`/`x.clone()` ↦ constructors / `x`.
  * Fuel: every method on a cycle of the call graph and every loop takes a fuel argument and spends one unit when
    entered (`(.error .fuel, ts, off)` when exhausted); every call and the next iteration get what is left.  Methods
    that merely call such methods pass their fuel on.  The Rust code has no such bound: its behaviour is the limit.
  * Control flow is translated in continuation-passing style (`match`/`if`/`if let`/`let`/blocks/early `return`; the
    rest of a block is copied into every branch).  A `while c { .. }` / `loop { .. }` becomes its own function
    `<method>_loop` of the `mutual` block whose arguments are the fuel, the variables it reads, the variables it
    assigns and the state, and which ALSO contains the rest of the method after the loop (`break` / a false condition
    continue there; `continue` / the end of the body call the function again; `return`/`?` return from the method).
  * `match` arms are tried in order: or-patterns are expanded, an arm with a guard `p if g => a` becomes
    `| p => if g then a else <what the later arms do on p>`, `x @ p` / a binding catch-all `t =>` name the scrutinee.
    Struct literals evaluate their fields in the order written (this fixes which `self.offset` a node gets).
  * API idioms, fixed table:
      self.token_queue.pop_front() under `match` ↦ match ts with | x :: ts1 => (Some(x), queue ts1) | [] => (None)
      self.token_queue.get(i) ↦ ts[i]?              t.lbp() ↦ Tok.lbp t (Model/Lexer.lean; tied to lexer.rs by C04_lbp_table)
      a == b / a != b on `Token` ↦ tokEq a b / !(tokEq a b) (prelude: the derived `PartialEq`)
      Token::X / Comparator::X / Ast::X { .. } / KeyValuePair { key, value } ↦ Tok.x / Cmp.x / Ast.x .. / (key, value)
      vec![] ↦ []   v.push(x) ↦ v ++ [x]   v.is_empty() ↦ List.isEmpty v   o.unwrap_or(d) ↦ o.getD d
      o.ok_or_else(|| e) ↦ match o with | some v => Ok(v) | none => Err(e)      r.and_then(|x| b) ↦ match r with | .error e => Err(e) | .ok x => b
      [a, b, c] (fixed-size array) ↦ the tuple (a, b, c);  arr[i] with a literal i ↦ projection;  arr[i] = v ↦
          case analysis on i, `.error .outOfBounds` beyond the length (the Rust panic)
      x += n / x -= n on `usize` ↦ checked (`.error .overflow` is the Rust panic with overflow checks)
    An idiom outside the table makes the translator exit 1 (broken tie).
-/
import JmesVerif.Model.Lexer
import JmesVerif.Model.Value
import JmesVerif.Model.Compare
set_option linter.unusedVariables false
namespace JmesVerif.Generated.ParserCode
open JmesVerif

/-! ### fixed prelude (not generated from the source) -/

/-- errors of the embedding: `at pos` is `JmespathError::new(self.expr, pos, ErrorReason::Parse(_))`; `overflow` and
`outOfBounds` are Rust panics; `fuel` is the recursion budget of the embedding -/
inductive CErr
  | fuel
  | overflow
  | outOfBounds
  | at (pos : Nat)
  deriving DecidableEq, Repr

/-- `lexer::TokenTuple = (usize, Token)` -/
abbrev TokenTuple := Nat × Tok
/-- value, `self.token_queue`, `self.offset` after the call -/
abbrev PR (α : Type) := α × List TokenTuple × Nat
abbrev Res (α : Type) := Except CErr α

def USIZE_MAX : Nat := 18446744073709551615

/-- `#[derive(PartialEq)]` of `enum Token` (payloads: `String`, `i32`, and `Rcvar` compared by `Variable::eq` = `Val.beq`) -/
def tokEq : Tok → Tok → Bool
%TOKEQ%
  | _, _ => false
"""

EPILOGUE = r"""/-! ### fixed epilogue -/

/-- `Parser::new(tokens, expr).parse()` (the free function `parse` after `tokenize`): %NEWDOC% -/
def parse_tokens (fuel : Nat) (tokens : List TokenTuple) : Res Ast :=
  (parse fuel tokens %OFFINIT%).1

/-- recursion budget that `Lemmas/ParserEquiv.lean` proves sufficient for every token list -/
def parseFuel (tokens : List TokenTuple) : Nat := 72 * tokens.length + 72

def run (tokens : List TokenTuple) : Res Ast := parse_tokens (parseFuel tokens) tokens
"""


def sccs(graph):
    """Tarjan; graph: name -> set of names"""
    index, low, stack, on, out, counter = {}, {}, [], set(), [], [0]

    def visit(v):
        index[v] = low[v] = counter[0]
        counter[0] += 1
        stack.append(v)
        on.add(v)
        for w in graph[v]:
            if w not in index:
                visit(w)
                low[v] = min(low[v], low[w])
            elif w in on:
                low[v] = min(low[v], index[w])
        if low[v] == index[v]:
            comp = []
            while True:
                w = stack.pop()
                on.discard(w)
                comp.append(w)
                if w == v:
                    break
            out.append(comp)
    for v in graph:
        if v not in index:
            visit(v)
    return out


def generate_parser():
    ctx = R.Ctx()
    sf = ctx.file("parser.rs")
    lex = ctx.file("lexer.rs")
    ast = ctx.file("ast.rs")
    u = Unit()
    # --- vocabularies the idiom table relies on
    if "Token" not in lex.enums:
        raise TieError("cannot find `enum Token` in lexer.rs")
    p = PParser(lex, lex.enums["Token"])
    a0 = p.i
    _, tvariants, _, _ = p.enum()
    ctx.add_region(lex, a0, p.i)
    have = {v: [t for _, t in fs] for v, fs in tvariants}
    if list(have) != list(MODEL_TOK):
        raise TieError(f"`enum Token` has variants {list(have)}, the model's `Tok` has {list(MODEL_TOK)}")
    for v, (ctor, pty) in MODEL_TOK.items():
        want = [] if pty is None else [TOK_PAYLOAD_RUST[pty]]
        got = [t[1] if t[0] == "path" else "?" for t in have[v]]
        if got != want:
            raise TieError(f"`Token::{v}` carries {got}, the model's `Tok.{ctor}` carries {want}")
    if not any(t.text == "PartialEq" for t in lex.toks[max(lex.enums["Token"] - 14, 0):lex.enums["Token"]]):
        raise TieError("`enum Token` no longer derives `PartialEq` (the idiom `tokEq`)")
    for en, table in (("Comparator", MODEL_CMP),):
        if en not in ast.enums:
            raise TieError(f"cannot find `enum {en}` in ast.rs")
        q = PParser(ast, ast.enums[en])
        a0 = q.i
        _, cv, _, _ = q.enum()
        ctx.add_region(ast, a0, q.i)
        if [v for v, _ in cv] != list(table) or any(fs for _, fs in cv):
            raise TieError(f"`enum {en}` is no longer {list(table)}")
    q = PParser(ast, ast.enums["Ast"])
    a0 = q.i
    _, avariants, _, _ = q.enum()
    ctx.add_region(ast, a0, q.i)
    havea = {v: sorted(f for f, _ in fs) for v, fs in avariants}
    for v, (ctor, order) in MODEL_AST.items():
        if havea.get(v) != sorted(order):
            raise TieError(f"`Ast::{v}` in ast.rs has fields {havea.get(v)}, the model's `Ast.{ctor}` has {order}")
    if set(havea) != set(MODEL_AST):
        raise TieError("`enum Ast` has variants without counterpart in the model")
    if "KeyValuePair" not in ast.structs:
        raise TieError("cannot find `struct KeyValuePair` in ast.rs")
    q = PParser(ast, ast.structs["KeyValuePair"])
    a0 = q.i
    _, kfields, _, _ = q.struct()
    ctx.add_region(ast, a0, q.i)
    if [(f, t[1]) for f, t in kfields if t[0] == "path"] != [("key", "String"), ("value", "Ast")] or len(kfields) != 2:
        raise TieError("`struct KeyValuePair` is no longer `{ key: String, value: Ast }`")
    # --- type aliases and constants
    for f in (lex, sf):
        toks = f.toks
        for i, t in enumerate(toks):
            if t.kind == "id" and t.text == "type" and toks[i + 1].kind == "id" and toks[i + 2].text == "=":
                q = PParser(f, i + 3)
                ty = q.ty()
                try:
                    u.aliases[toks[i + 1].text] = u.rty(ty)
                except TieError:
                    pass
            if f is sf and t.kind == "id" and t.text == "const" and toks[i + 1].kind == "id" and toks[i + 2].text == ":":
                q = PParser(f, i + 3)
                ty = u.rty(q.ty())
                q.expect("=")
                v = q.expr()
                if ty != "usize" or v[0] != "int":
                    raise TieError(f"`const {toks[i + 1].text}` is not a `usize` literal")
                u.consts[toks[i + 1].text] = (str(v[1]), "usize")
                ctx.add_region(f, i, q.i)
    # --- the struct and its methods
    if "Parser" not in sf.structs:
        raise TieError("cannot find `struct Parser` in parser.rs")
    q = PParser(sf, sf.structs["Parser"])
    # `struct Parser<'a> {` : skip the generics
    j = sf.structs["Parser"]
    while sf.toks[j].text != "{":
        j += 1
    fields, jj = [], j + 1
    q = PParser(sf, jj)
    while not q.at("}"):
        q.skip_attrs()
        q.eat("pub")
        fname = q.ident()
        q.expect(":")
        fields.append((fname, q.ty()))
        if not q.eat(","):
            break
    ctx.add_region(sf, j, q.i)
    ftys = {}
    for fname, t in fields:
        ftys[fname] = u.rty(t, f" (field `{fname}` of `struct Parser`)")
    if ftys.get("token_queue") != ("list", ("tuple", ["usize", "tok"])) or ftys.get("offset") != "usize":
        raise TieError("`struct Parser` no longer has `token_queue: VecDeque<TokenTuple>` and `offset: usize`")
    u.erased_fields = {f for f, t in ftys.items() if t == "msg"}
    methods = [(impl, name, pos) for impl, name, pos in sf.fns if impl == "Parser"]
    for _, name, pos in methods:
        fn = PParser(sf, pos).fn()
        ctx.add_region(sf, fn["toks"][0], fn["toks"][1])
        params = [(pn, u.rty(pt, f" (parameter `{pn}` of `{name}`)")) for pn, pt in fn["params"] if pn != "self"]
        ret = u.rty(fn["ret"], f" (return type of `{name}`)")
        u.methods[name] = {"fn": fn, "self": fn["self"], "params": params, "ret": ret, "sf": sf}
    # `Parser::new`: initial values of the fields
    if "new" not in u.methods or u.methods["new"]["self"] is not None:
        raise TieError("cannot find the associated function `Parser::new`")
    new = u.methods.pop("new")
    body = new["fn"]["body"]
    lit = body[2]
    if body[1] or lit is None or lit[0] != "struct" or lit[1] != ["Parser"]:
        raise TieError("`Parser::new` is no longer a single `Parser { .. }` literal")
    init = dict(lit[2])
    pnames = [pn for pn, _ in new["params"]]
    if init.get("token_queue", ("?",))[0] != "path" or init["token_queue"][1] != [pnames[0]] or \
            new["params"][0][1] != ("list", ("tuple", ["usize", "tok"])):
        raise TieError("`Parser::new` does not store its first argument as `token_queue`")
    if init.get("offset", ("?",))[0] != "int":
        raise TieError("`Parser::new` does not initialise `offset` with a literal")
    u.offset_init = init["offset"][1]
    assigned_fields = set()
    for info in u.methods.values():
        for n in walk(info["fn"]["body"]):
            if n[0] == "assign" and n[2][0] == "field" and n[2][1][0] == "path" and n[2][1][1] == ["self"]:
                assigned_fields.add(n[2][2])
            if n[0] == "unary" and n[1] == "&" and n[2][0] == "field" and n[2][1] == ("path", ["self"], n[2][1][2]) and False:
                pass
    for fname, t in ftys.items():
        if fname in ("token_queue", "offset") or t == "msg":
            continue
        if fname in assigned_fields:
            raise TieError(f"field `{fname}` of `struct Parser` is assigned by a method: not in the translation scheme")
        v = init.get(fname)
        if t == "tok" and v and v[0] == "path" and len(v[1]) == 2 and v[1][0] == "Token" and \
                MODEL_TOK.get(v[1][1], (None, 1))[1] is None:
            u.const_fields[fname] = (f"Tok.{MODEL_TOK[v[1][1]][0]}", "tok")
        else:
            raise TieError(f"field `{fname}` of `struct Parser` is not a constant token set by `Parser::new`")
    # the free function `parse`
    pf = PParser(sf, sf.find_fn(None, "parse", True)).fn()
    ctx.add_region(sf, pf["toks"][0], pf["toks"][1])
    tail = pf["body"][2]
    ok = tail is not None and tail[0] == "mcall" and tail[2] == "parse" and not tail[3] and tail[1][0] == "call" and \
        tail[1][1][0] == "path" and tail[1][1][1] == ["Parser", "new"] and len(tail[1][2]) == 2
    if not ok or "parse" not in u.methods:
        raise TieError("the free function `parse` is no longer `.. Parser::new(tokens, expr).parse()`")
    # --- call graph, fuel
    graph = {}
    for name, info in u.methods.items():
        callees = set()
        for n in walk(info["fn"]["body"]):
            if n[0] == "mcall" and n[1][0] == "path" and n[1][1] == ["self"] and n[2] in u.methods:
                callees.add(n[2])
        graph[name] = callees
        info["loops"] = any(n[0] in ("while", "loop", "for") for n in walk(info["fn"]["body"]))
    rec = set()
    for comp in sccs(graph):
        if len(comp) > 1 or comp[0] in graph[comp[0]]:
            rec |= set(comp)
    fueled = set(rec) | {n for n, i in u.methods.items() if i["loops"]}
    changed = True
    while changed:
        changed = False
        for n in graph:
            if n not in fueled and graph[n] & fueled:
                fueled.add(n)
                changed = True
    for n, info in u.methods.items():
        info["fueled"], info["rec"] = n in fueled, n in rec
        if info["loops"] and n not in rec:
            raise TieError(f"fn {n} has a loop but is not part of the recursion: not in the translation scheme")
        if info["self"] not in ("ref", "mut"):
            raise TieError(f"fn {n} takes `self` by value or not at all: not in the translation scheme")
        if n in rec and (info["self"] != "mut" or not MethodGen.is_res(info["ret"])):
            raise TieError(f"fn {n} is recursive but is not a `&mut self` method returning a `Result`")
    # --- translate
    order = [name for _, name, _ in methods if name in u.methods]
    done = {}
    for name in order:
        g = MethodGen(u, sf, u.methods[name])
        done[name] = (g, g.gen())

    def sig(g, info, name):
        ptys = [lty(t) for _, t in g.formals]
        return ptys

    def plain_def(name):
        g, comp = done[name]
        info = u.methods[name]
        fn = info["fn"]
        st = "(ts : List TokenTuple) (off : Nat)"
        ps = " ".join(f"({f} : {lty(t)})" for f, t in g.formals)
        fuel = "(fuel : Nat) " if info["fueled"] else ""
        if info["self"] == "ref":
            head = f"def {name} {st} {fuel}{ps}".rstrip() + f" : {lty(info['ret'])} :="
        else:
            head = f"def {name} {fuel}{ps}{' ' if ps else ''}{st} : PR {atom(lty(info['ret']))} :="
        doc = f"/-- `fn {name}`, {sf.name}:{fn['start']}-{fn['end']} -/"
        return "\n".join([doc, head] + render(comp, 1))

    def rec_defs(name):
        g, comp = done[name]
        info = u.methods[name]
        fn = info["fn"]
        out = []
        ptys = [lty(t) for _, t in g.formals]
        rt = f"PR {atom(lty(info['ret']))}"
        lines = [f"/-- `fn {name}`, {sf.name}:{fn['start']}-{fn['end']} -/",
                 f"def {name} : " + " → ".join(["Nat"] + ptys + ["List TokenTuple", "Nat", rt]),
                 "  | " + ", ".join(["0"] + ["_"] * len(ptys) + ["ts", "off"]) + " => (.error .fuel, ts, off)",
                 "  | " + ", ".join(["fuel + 1"] + [f for f, _ in g.formals] + ["ts", "off"]) + " =>"]
        lines += render(comp, 2)
        out.append("\n".join(lines))
        for slot in g.loops:
            ps = slot["reads"] + slot["state"]
            ptys = [lty(t) for _, t in ps]
            lines = [f"/-- `{slot['what']}` of `{name}`, {sf.name}:{slot['line']}-{slot['endline']}, and the rest of `{name}` "
                     f"after it; reads: {', '.join(f for f, _ in slot['reads']) or '-'}; state: "
                     f"{', '.join([f for f, _ in slot['state']] + ['self'])} -/",
                     f"def {slot['name']} : " + " → ".join(["Nat"] + ptys + ["List TokenTuple", "Nat", rt]),
                     "  | " + ", ".join(["0"] + ["_"] * len(ptys) + ["ts", "off"]) + " => (.error .fuel, ts, off)",
                     "  | " + ", ".join(["fuel + 1"] + [f for f, _ in ps] + ["ts", "off"]) + " =>"]
            lines += render_loop_reads(render(slot["comp"], 2), slot["reads"])
            out.append("\n".join(lines))
        # the start of a loop from the method body (and from an enclosing loop)
        fixed = []
        for text in out:
            for slot in g.loops:
                pass
            fixed.append(text)
        return fixed

    # `%READS%` also occurs where a loop is *started*: there the reads are passed in the same order, already rendered
    def topo(names):
        seen, res = set(), []

        def visit(n):
            if n in seen:
                return
            seen.add(n)
            for m in sorted(graph[n]):
                if m in names:
                    visit(m)
            res.append(n)
        for n in order:
            if n in names:
                visit(n)
        return res
    before = topo({n for n in order if n not in fueled})
    after = topo({n for n in order if n in fueled and n not in rec})
    toklines = []
    for v, (ctor, pty) in MODEL_TOK.items():
        if pty is not None:
            cmp_ = "Val.beq a b" if pty == "val" else "a == b"
            toklines.append(f"  | .{ctor} a, .{ctor} b => {cmp_}")
    nullary = [f".{c}, .{c}" for v, (c, pty) in MODEL_TOK.items() if pty is None]
    for i in range(0, len(nullary), 6):
        toklines.append("  | " + " | ".join(nullary[i:i + 6]) + (" => true" if i + 6 >= len(nullary) else ""))
    out = [HEADER.replace("%TOKEQ%", "\n".join(toklines))]
    out.append(f"/-! ### parser.rs: constants, the fields `Parser::new` fixes, helper methods -/")
    for cname, (val, cty) in u.consts.items():
        out.append(f"/-- `const {cname}` -/\ndef {cname} : {lty(cty)} := {val}")
    for fname, (term, fty) in u.const_fields.items():
        out.append(f"/-- `{fname}: {init[fname][1][0]}::{init[fname][1][1]}` of `Parser::new`; no method assigns it -/\n"
                   f"def {fname} : {lty(fty)} := {term}")
    for n in before:
        out.append(plain_def(n))
    block = ["/-! ### parser.rs: the recursive methods and their loops -/\nmutual"]
    for n in order:
        if n in rec:
            block += rec_defs(n)
    block.append("end")
    out.append("\n\n".join(block))
    for n in after:
        out.append(plain_def(n))
    out.append(EPILOGUE.replace("%OFFINIT%", str(u.offset_init))
               .replace("%NEWDOC%", f"the queue is `{pnames[0]}`, `offset: {u.offset_init}`"))
    out.append(f"/-- SHA-256 over the tokens of the translated regions (informational) -/\n"
               f"def sourceDigest : String := \"{ctx.digest.hexdigest()}\"")
    out.append("end JmesVerif.Generated.ParserCode")
    return "\n\n".join(out) + "\n"


def main():
    try:
        text = generate_parser()
    except TieError as e:
        sys.stderr.write(f"rs2lean_parser.py: broken tie: {e}\n")
        sys.exit(1)
    except (IndexError, KeyError, TypeError, ValueError, AssertionError, RecursionError, StopIteration,
            AttributeError) as e:
        sys.stderr.write(f"rs2lean_parser.py: broken tie: the source could not be processed ({type(e).__name__}: {e})\n")
        sys.exit(1)
    R.write_if_changed(os.environ.get("RS2LEAN_PARSER_OUT") or OUT_PARSER, text)


if __name__ == "__main__":
    main()
