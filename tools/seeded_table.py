#!/usr/bin/env python3
"""Render seeded/*/meta.json as the markdown table of DESIGN.md §11."""
import json, os, re
V = os.path.dirname(os.path.dirname(os.path.abspath(__file__)))
rows = []
for n in sorted(os.listdir(os.path.join(V, "seeded"))):
    mp = os.path.join(V, "seeded", n, "meta.json")
    if not os.path.exists(mp):
        continue
    m = json.load(open(mp))
    desc = m.get("description", "")
    desc = desc if len(desc) <= 170 else desc[:167] + "…"
    desc = desc.replace("|", "\\|")
    for p, r in sorted(m.get("checks", {}).items()):
        how = ""
        if r.get("replay"):
            how = (r["replay"].get("stream") or "") + ": " + (r["replay"].get("case") or "")[:70].replace("|", "\\|").replace("\n", " ")
        rows.append(f"| {n} | {desc} | {p} {r.get('tier','quick')} | {'caught' if r['caught'] else 'MISSED'}"
                    f"{' (no-failing-input-found)' if r.get('no_failing_input') else ''} | {m.get('first_result','')} | `{how}` |")
print("| change | what it does | check | result now | first run | replay (stream: case) |")
print("|---|---|---|---|---|---|")
print("\n".join(rows))
