#!/usr/bin/env python3
"""Regenerates MANIFEST.json from the table below (kept in one place so it stays valid)."""
import json, os
V = os.path.dirname(os.path.dirname(os.path.abspath(__file__)))
ALL = ["C%02d" % i for i in range(1, 19)]

CLAIMED = {
 "C07": dict(
   text="Machine-checked theorem (Lean 4): for every array, every optional start/stop over all integers and every non-zero step, "
        "the model of variable.rs's slice loop returns exactly Python's xs[start:stop:step] without overflow or out-of-bounds access "
        "(C07_slice_eq_python, by induction on the loop), plus the characterisation of the selected positions and negative indexes. "
        "The hand-written model is tied to the code on every run by the `slice` correspondence stream (model vs Variable::slice vs "
        "end-to-end search, boundary grid + PRNG; thorough: exhaustive small scope).",
   note="Trusted: Lean kernel (+propext, Classical.choice, Quot.sound); the model↔code correspondence is sampled (boundary grid, exhaustive for len<=6 in thorough), "
        "array length assumed to fit i32.",
   design="DESIGN.md §7 C07",
   technique="Lean 4 theorem over a hand-written model + model/implementation correspondence (differential) check"),
}

NOT_YET = "check not built yet in this session (work in progress; see DESIGN.md §10 for the order of work)"

def main():
    checks = []
    for pid in ALL:
        if pid in CLAIMED:
            c = CLAIMED[pid]
            checks.append(dict(
                property_id=pid,
                quick_cmd=f"python3 tools/check.py {pid} --tier quick",
                thorough_cmd=f"python3 tools/check.py {pid} --tier thorough",
                evidence_file=f"/verif/evidence/{pid}.json",
                replay_cmd_template=f"python3 tools/check.py {pid} --replay {{path}}",
                engine="lean4-model+correspondence",
                level_claimed=dict(category="proof", text=c["text"], design_ref=c["design"]),
                level_note=c["note"],
                technique=c["technique"]))
    m = dict(
        version=1,
        setup_cmd="cd /verif/lean && lake build JmesVerif jmdriver && cd /verif/harness && CARGO_NET_OFFLINE=true cargo build --release --offline",
        hooks=dict(guard="jmespath_rs_verif", enable="none needed: the harness links /repo/jmespath as a path dependency and uses only its public API",
                   baseline_off_cmd="cd /repo/jmespath && CARGO_NET_OFFLINE=true cargo test --offline",
                   source_commits=[], add_only=True),
        engines=[dict(name="lean4-model+correspondence", path="/verif/tools/check.py",
                      serves_properties=sorted(CLAIMED),
                      kind_free_text="Lean 4 model + theorems (lean/), Rust harness linking /repo/jmespath (harness/), compiled Lean driver, Python orchestrator")],
        checks=checks,
        notes="Every check: translate → lake build Props.<id> (+ #print axioms audit, sorry/axiom grep) → cargo build harness against /repo working tree → "
              "correspondence streams → property oracle → evidence. See DESIGN.md.",
        not_applicable=[dict(property_id=p, reason=NOT_YET) for p in ALL if p not in CLAIMED],
    )
    json.dump(m, open(os.path.join(V, "MANIFEST.json"), "w"), indent=1)

if __name__ == "__main__":
    main()
