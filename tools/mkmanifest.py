#!/usr/bin/env python3
"""Regenerates MANIFEST.json from the table below (kept in one place so it stays valid)."""
import json, os
V = os.path.dirname(os.path.dirname(os.path.abspath(__file__)))
ALL = ["C%02d" % i for i in range(1, 19)]

CLAIMED = {
 "C07": dict(
   text="Machine-checked theorem (Lean 4): for every array, every optional start/stop over all integers and every non-zero step, "
        "the model of variable.rs's slice loop returns exactly Python's xs[start:stop:step] without overflow or out-of-bounds access "
        "(C07_slice_eq_python, by induction on the loop), plus the characterisation of the selected positions and negative indexes. "
        "The bodies of slice, adjust_slice_endpoint, get_index, get_negative_index and the Index arm of interpret are RE-TRANSLATED from the Rust "
        "source on every run (tools/rs2lean.py -> Generated/Code.lean, checked i32/usize arithmetic, casts and indexing at every site) and proved "
        "equal to that model on the whole i32 domain (Lemmas/CodeEquiv), so C07_translated_slice_eq_python / C07_translated_index_eq_python state the "
        "Python rule for the code as it reads now. "
        "The hand-written model is tied to the code on every run by the `slice` correspondence stream (model vs Variable::slice vs "
        "end-to-end search, boundary grid + PRNG; thorough: exhaustive small scope).",
   note="Trusted: Lean kernel (+propext, Classical.choice, Quot.sound); the model↔code correspondence is sampled (boundary grid, exhaustive for len<=6 in thorough), "
        "array length assumed to fit i32.",
   design="DESIGN.md §7 C07",
   technique="Lean 4 theorem over a model whose slice/index functions are regenerated from the Rust source on every run (translator) and proved equal to the hand model + model/implementation correspondence (differential) check"),
 "C03": dict(
   text="Machine-checked theorems (Lean 4): the model of lexer.rs/parser.rs accepts a token string iff it is the yield of a `Legal` concrete "
        "syntax tree (T1 soundness: by induction on the parser's fuel over all 15 mutually recursive parser functions; T2 completeness: "
        "every Legal tree of any size parses to itself; fuel sufficiency and monotonicity so the model's fuel is never the reason for a "
        "rejection), lifted to strings through the lexer (C03_language), plus the documented lexical rule for numbers. The published ABNF is "
        "transcribed production by production as an ambiguous context-free grammar over tokens (Spec/Abnf.lean) and C03_abnf_language "
        "proves, for all strings: compile succeeds without one of the three deviations F3/F4/F5 iff the string lexes to a sentence of that "
        "grammar (soundness by induction over trees, completeness by an attach-along-the-right-spine construction over arbitrary ambiguous "
        "derivations). The deviations (shared with jmespath.py) are counted by executable counters and listed as known findings. The model "
        "is tied to the code on every run by the `parse` correspondence stream (structured sentences, near-misses, token soup, character "
        "soup; thorough: all token strings of length <= 3), and generated token strings are additionally judged by an independent chart "
        "recogniser of the ABNF written in Python (tools/abnf.py).",
   note="Trusted: Lean kernel (+propext, Classical.choice, Quot.sound); the hand-written lexer/parser/JSON-text models correspond to the "
        "code as far as the sampled `parse` stream shows; Spec/Abnf.lean as the transcription of the published ABNF (token level: lexical productions are the lexer's); serde_json's JSON grammar is modelled, not verified.",
   design="DESIGN.md §7 C03, Appendix A",
   technique="Lean 4 theorems (parser model = published ABNF modulo three counted deviations; lexer dispatch table regenerated from lexer.rs on every run, compared up to order and grouping) + model/implementation correspondence check + independent ABNF recogniser"),
 "C10": dict(
   text="Machine-checked theorems (Lean 4) on the model of float_eq / PartialEq / Ord / Variable::compare: == is symmetric and (on "
        "well-formed values) reflexive for all values incl. nested containers, != is its negation, values of different types are never "
        "equal, == is exactly the inductively defined deep structural equality, ordering operators are defined iff both operands are "
        "numbers and agree with the order of the operands' rational values, trichotomy and (<= iff < or ==) for well-separated pairs. "
        "Doubles are modelled exactly (rational arithmetic + one RNE rounding per operation). float_eq, PartialEq and Ord for Variable and the gate of "
        "Variable::compare are re-translated from variable.rs on every run and proved equal to the model's (C10_translated_equality, C10_translated_compare_gate). Tied to the code by the `eval` stream on "
        "value pairs (all type pairings, neighbouring doubles, extremes) together with implementation-only oracles for each law.",
   note="Trusted: Lean kernel; model F64 = IEEE-754 binary64 (validated by the streams, not proved against hardware); tolerant equality is the code's documented behaviour and is judged against exact arithmetic outside a 2^-40 band around the 2^-52 threshold.",
   design="DESIGN.md §7 C10",
   technique="Lean 4 theorems over a model whose equality / ordering / comparison-gate functions are regenerated from variable.rs on every run and proved equal to the hand model (exact soft-float) + model/implementation correspondence + algebraic oracles on the implementation"),
 "C04": dict(
   text="Machine-checked theorems (Lean 4): the WHOLE of parser.rs is re-translated into Lean on every run (tools/rs2lean_parser.py -> "
        "Generated/ParserCode.lean: every Parser method, loops, state, binding powers read off the source) and the hand model is proved to compute the same "
        "tree and the same error offset for every string (C04_translated_parser, Lemmas/ParserEquiv, 1000 lines); the binding-power table is re-extracted from lexer.rs on each "
        "run and proved equal to the documented one, as is the public AST / token / comparator vocabulary (C04_ast_vocabulary); the parse of every sentence is `ast` of the unique `Legal` tree spelling its tokens "
        "(T1 + T2: unambiguity), every operand binds tighter than its operator (left associativity), a projection's right-hand side stops "
        "at a token binding below 10, and adding the implied parentheses yields a legal tree with the same `ast` that parses to itself. "
        "The model is tied to the code by the `parse` stream comparing full tree shape on operator-dense sentences (all ordered pairs/triples "
        "of infix operators around operands with prefix/postfix chains), plus implementation-only oracles: parenthesised and respelled "
        "text parse to the same tree and give the same search result. The one deviation of the code from the stated rule (F16) is a known finding.",
   note="Trusted: Lean kernel; translate.py's regex extraction; the parser model's correspondence as sampled; `Legal` mirrors the code at F16 (dotted multi-select list ends the right-hand side), which is reported as a known finding rather than proved conformant.",
   design="DESIGN.md §7 C04, Appendix A",
   technique="Lean 4 theorems (unambiguity, paren-invariance) about a parser model proved equal to the parser regenerated from parser.rs on every run (translator) + regenerated precedence table + correspondence + implementation-only parenthesisation oracle"),
 "C13": dict(
   text="Machine-checked theorem (Lean 4): for every history of compile/clone/drop/search operations over any handles, expressions and documents "
        "(incl. failing ones) the outputs equal those of a stateless specification that recompiles the handle's source text for every search "
        "(by induction over the history with a handle-table invariant). Because an immutable model is pure by construction, the decisive part "
        "is the `history` correspondence stream: the same histories run against the real code with shared Rc documents and the shared default "
        "runtime, each search compared in-process with a fresh compile+search, documents re-encoded afterwards.",
   note="Trusted: Lean kernel; the history model; purity of the real code is observed on sampled histories, not proved about Rust.",
   design="DESIGN.md §7 C13",
   technique="Lean 4 refinement theorem (history vs stateless spec) + history correspondence stream with in-process freshness oracle"),
 "C15": dict(
   text="Machine-checked theorems (Lean 4): after any sequence of register/deregister/register-builtins operations on a fresh runtime, lookup "
        "returns exactly the most recent registration of the name still in force (induction over the history); a call evaluates its arguments "
        "in order against the current node, passes expression references unevaluated, consults the registry, fails with unknown-function at "
        "the call's offset otherwise; a custom function with a signature runs iff validation succeeds and receives the evaluated arguments. "
        "Tied to the code by the `registry` stream (random histories, custom functions that report {id, args}) and a checker-side last-live oracle.",
   note="Trusted: Lean kernel; HashMap modelled as a duplicate-free association list; correspondence sampled.",
   design="DESIGN.md §7 C15",
   technique="Lean 4 theorem (registry history refines last-live lookup) + registry correspondence stream"),
 "C01": dict(
   text="Machine-checked theorem (Lean 4): for every string that compiles to a core expression (any nesting/combination of identifiers, "
        "sub-expressions, indexes, slices, flatten, wildcards, filters, pipes, multi-selects, literals, @, ! && ||, comparators) and every "
        "JSON document, the model of interpreter.rs returns exactly the value an independently written denotational semantics of the "
        "specification assigns (C01_search = parser soundness T1 + C01_conformance, by mutual induction over the concrete syntax; 7 lemma "
        "files). A size side condition bounds the widest array evaluation can build by i32::MAX (the slice code's own assumption); a "
        "machine-checked counterexample shows some such condition is necessary. The model `interp` these theorems are about is proved EQUAL to the evaluator re-translated from interpreter.rs on every run "
        "(tools/rs2lean.py -> Generated/InterpCode.lean: all 18 arms, loops, `?`, ctx.offset; Lemmas/InterpEquiv, C01_translated_interpreter). "
        "Beyond the property's core forms, C01_search_full (Props/C01Full, "
        "8 lemma files) proves the same for the FULL language: calls of the 26 builtins with expression references denoting functions, against "
        "Spec/SemFull.lean. The truth table and type tags are re-translated from variable.rs on every run (C01_translated_truthy_type). Tied to the code by the `eval` stream: implementation vs "
        "model vs the semantics evaluated by the driver, on the compliance suite's expression x document cross product and generated pairs.",
   note="Trusted: Lean kernel; Spec/Sem.lean as the reading of the specification (comparators delegated to C10's operator, slices to C07's rule); "
        "interpreter/parser/value models correspond to the code as sampled; arrays wider than 2^31-1 are outside the theorem (and outside any test).",
   design="DESIGN.md §7 C01",
   technique="Lean 4 theorem (evaluator regenerated from interpreter.rs on every run = hand model = denotational semantics on all core expressions, and on the full language with builtins) + correspondence check with the semantics as oracle"),
 "C12": dict(
   text="Machine-checked theorems (Lean 4): line/column computed by JmespathError::new are exactly the zero-based line and character column "
        "of the byte offset for any text (loop invariant), Display inserts the caret line under that column (render shape), every token / "
        "lex-error / parse-error / tree offset is a character boundary inside the expression, a call node's offset is the position of its "
        "`(` and a slice's of its `]` (induction over all 15 parser functions), validation errors carry the offset of the call being "
        "validated, unknown-function and invalid-slice errors the offset of their node; and the global invariant over whole evaluations "
        "(C12_runtime_error_names_call, C12_search_error_located: for every compiled string and JSON document a runtime error's offset is the "
        "position of a `(` token of a call of the named / bound function, resp. of a slice's `]`; C12_error_classes: every failure is a runtime "
        "error, the F14 internal error, a slice fault needing an array longer than i32::MAX, or budget exhaustion). The error vocabulary is "
        "re-extracted from errors.rs on every run (C12_error_vocabulary). Tied to the code by the `eval` and `errfmt` streams "
        "plus implementation-only oracles (class, expression text, boundary, line/column, caret rendering, `(` / `]` under the offset).",
   note="Trusted: Lean kernel; models of errors.rs/lexer.rs/parser.rs/interpreter.rs as sampled by the streams. Known finding F14 (sum/avg "
        "overflow yields a Parse-class error without expression) is listed, not suppressed beyond its class.",
   design="DESIGN.md §7 C12",
   technique="Lean 4 theorems (line/column spec, offsets are token positions, global error-location invariant by induction over the interpreter) + correspondence + implementation-only location oracles"),
 "C06": dict(
   text="Machine-checked theorems (Lean 4): the 26 signatures and registrations re-extracted from functions.rs/runtime.rs on each run equal the "
        "documented ones; for every signature the validator returns the arity error on a wrong count, the invalid-type error of the first "
        "offending position (naming declared and actual type) otherwise, and succeeds iff every argument satisfies its parameter type; "
        "validity depends only on the argument's type class, which lifts the finite class-level decision table to all values; after a "
        "successful validation no builtin reaches an unreachable!() arm and every result has the declared result type; Signature::validate_arity "
        "and the whole validator (ArgumentType::is_valid, Signature::validate / validate_arg, the type-name Display impls) are re-translated from functions.rs on every run "
        "and proved equal to the model's (C06_translated_validate_arity, C06_translated_validator, incl. that the checked inputs[k] never faults after the arity check); the "
        "ArgumentType / JmespathType / Variable vocabularies are re-extracted too (C06_type_vocabulary). The class-level "
        "decision table (26 builtins x counts 0..declared+2 x 10 classes per position; ~109k cells, exhaustive in the thorough tier, all "
        "cells up to 3 arguments in the quick tier) is run against the code, the model and an independent Python table of the specification.",
   note="Trusted: Lean kernel; translate.py's regex extraction; the Python SPEC table as the reading of the function specification; `any` admits expression references (that is what is declared).",
   design="DESIGN.md §7 C06",
   technique="Lean 4 theorems (generic validator + class-level lifting + regenerated signature tables) + exhaustive class-level decision table against the code"),
 "C05": dict(
   text="Machine-checked theorems (Lean 4) about what a model can carry of totality — recursion depth and loop bounds: lexer and parser terminate on "
        "every input within 8*|tokens|+8 recursion frames; number tokens fit i32 with room for negation; the slice loops never overflow, index "
        "out of bounds or run away for any start/stop/step; no builtin reaches unreachable!() after validation and the validator cannot panic; "
        "in the slice / endpoint / index code as RE-TRANSLATED from the source on every run no i32/usize operation overflows and no indexing faults "
        "on the whole i32 domain (C05_translated_code_no_fault); search terminates with a JSON result on every JSON document for every expression whose expression references stay in expref-typed "
        "parameters; fuel monotonicity. Negative result, also proved: a grammatical expression in which an expression reference reaches the "
        "data diverges for every fuel (known finding F13). The streams run the real code under catch_unwind in child processes and attribute "
        "aborts/hangs to cases: numeric extremes, malformed quoted forms, Unicode soup, huge/deep documents, nesting probes 10..100000.",
   note="PARTIAL BY NATURE: stack bytes and wall-clock time are runtime quantities no theorem about the model exhibits; deep nesting (F12) and the "
        "self-applying expression reference (F13) are known findings, classified by nesting depth > 1000 resp. by the model's divergence.",
   design="DESIGN.md §7 C05",
   technique="Lean 4 theorems (fuel sufficiency, termination, no-fault slices, divergence witness) + panic/abort/hang harness streams"),
 "C02": dict(
   text="Machine-checked theorems (Lean 4): C02_every_builtin_meets_spec — for each of the 26 builtins and every argument list that satisfies its "
        "signature, a successful call returns a value allowed by ONE independently written relational specification of the function "
        "specification (Spec/Functions.lean; one visible exclusion: to_number of a number padded with JSON white space); and 57 lemmas, 23 restated "
        "as property theorems, over the model of functions.rs, each for all well-typed "
        "arguments: sort/sort_by are stable ascending permutations (code-point order on strings, double order on numbers), max/min/max_by/"
        "min_by return an input element with the extreme key (first on ties for *_by), merge is right-biased, length/reverse count code points, "
        "keys/values zip to the members, to_number yields a number or null only, avg [] = null and avg = sum/len, map preserves length and "
        "evaluates the reference once per element in order, not_null returns the first non-null, contains/starts_with/ends_with are "
        "infix/prefix/suffix, join is intercalate; abs / floor / ceil return exactly |x|, the floor and the ceiling of every finite number, and "
        "the arithmetic behind sum and avg is IEEE-754 round-to-nearest-even of the exact result (the model's rounding is proved nearest, "
        "ties-to-even, with overflow exactly from 2^1024-2^970, and exact on representable values: Lemmas/F64Spec, 1500 lines). Tied to the code by the `eval` stream on generated well-typed calls (arrays to 64 "
        "elements with duplicate keys, all Unicode planes, calls inside projections and other calls), each result compared with the model "
        "and with an independent Python reference semantics of the function specification (tools/fnspec.py).",
   note="Trusted: Lean kernel; slice::sort modelled as a stable merge sort (List.mergeSort); that the hardware's doubles behave as "
        "IEEE-754 binary64 (what the soft-float model is proved to be) is validated by the stream against Python floats; tools/fnspec.py as the reading of the function specification.",
   design="DESIGN.md §7 C02",
   technique="Lean 4 theorem (all 26 builtin models meet one relational function specification) + contract theorems per builtin + correspondence + independent reference-semantics oracle"),
 "C11": dict(
   text="Machine-checked theorems (Lean 4): with big-step evaluation `Evals` (enough fuel, any value of the offset register), each compound "
        "node is characterised exactly (iff) by the evaluations of its parts, for all sub-trees (function calls included) and documents: "
        "pipe/sub-expression = composition; a projection over an array result = the right-hand side applied to each element in order, nulls "
        "dropped, first failure wins; filter step (condition), flatten, object values; multi-select list/hash = tuple/record of the members; "
        "! && || = truth-table combination with short circuit; comparison. The offset register provably never influences a value or an "
        "error, evaluation is deterministic, and `(L) | (R)` parses to the sub-expression node of the parses. The check evaluates the laws "
        "on the implementation alone (search of the compound vs recombination of searches of the parts, intermediate results fed back as "
        "documents) and compares the compound with the model.",
   note="Trusted: Lean kernel; interpreter/parser models as sampled by the `eval` stream. No law is stated for function-call nodes themselves (their arguments are covered as sub-trees).",
   design="DESIGN.md §7 C11",
   technique="Lean 4 theorems (big-step compositional characterisations of an evaluator model proved equal to the evaluator regenerated from interpreter.rs on every run) + implementation-only recombination oracle"),
 "C08": dict(
   text="Machine-checked theorems (Lean 4). Repository code: the identity query returns the document; conversion to and from serde_json::Value is "
        "lossless on library values. JSON text layer (serde_json's, modelled): parsing the compact or pretty printed text of a value yields "
        "the value, for every nesting below the parser's limit, every string (all code points, escapes), every integer in the u64 / negative "
        "i64 range — 4 lemma files, induction over values with fuel/depth invariants — and every double in the property's exact domain: the "
        "number parser is proved correctly rounded for significands up to 2^53 with decimal exponents within +-22 (one IEEE rounding of an "
        "exact product/quotient of exactly representable doubles), the shortest-digits printer is proved to print a numeral that rounds "
        "back, and the two are composed through all five print layouts (C08_float_roundtrip_exact_domain, 5 lemma files). Outside that "
        "domain the float round trip stays a stated hypothesis (FloatRoundTrips), which is false for some doubles with serde_json's "
        "default parser: a machine-checked counterexample (7205759403792820.0 re-reads as ...819.0, replayed on the real code) is kept. The `json` stream runs random JSON texts (escapes, surrogate pairs, duplicate keys, "
        "integers across/beyond i64/u64, decimals inside/outside the exact domain, deep nesting, malformed texts) through from_json, `@`, "
        "to_string, re-parse and Value conversions, judged by an independent Python oracle (exact for <= 15 digits & |exp| <= 22, 2 ulp otherwise).",
   note="PARTIAL for the text layer: decimal<->double algorithms are serde_json's — modelled (from the vendored source) and validated by the stream; on the exact domain their composition is proved, outside it "
        "the float round trip is a hypothesis in the theorem and a measured <= 2 ulp bound in the check.",
   design="DESIGN.md §7 C08",
   technique="Lean 4 theorems (parse . print = id over a model of serde_json; Value round trip) + json correspondence stream with an exact-arithmetic oracle"),
 "C09": dict(
   text="Machine-checked theorems (Lean 4) over the lexer model: for every string without an odd backslash run before a quote or at its end, the "
        "raw-string spelling lexes and evaluates to exactly that string, and for every other string it does not (the guard is exact: only "
        "backslash-quote is an escape); for every member name — any Unicode string — its JSON-string spelling lexes to the quoted identifier "
        "of that name and selects exactly that member; for every JSON value, the backtick literal of its JSON text (backticks escaped) lexes "
        "and evaluates to the value (printed JSON is proved backtick-safe; assumes the text parses back, C08). The `eval` stream spells "
        "delimiter-dense strings and values in the checker, evaluates them with the code and compares; malformed quoted forms must be rejected.",
   note="Trusted: Lean kernel; lexer/JSON-text models as sampled; Spec/Spelling.lean as the meaning of 'the spelling of'; doubles inside literals inherit C08's float caveat.",
   design="DESIGN.md §7 C09",
   technique="Lean 4 round-trip theorems over the lexer model + correspondence stream with checker-side spelling"),
 "C17": dict(
   text="Machine-checked theorems (Lean 4): the feature table and every cfg(feature) site are re-extracted from Cargo.toml/src on each run and "
        "proved to be the whitelist — two features, all feature-dependent items in lib.rs, `sync` guarding exactly the two `Rcvar` alias "
        "definitions; the specialised ToJmespath fast paths (Value, Variable, Rcvar, strings, all integer widths, f32/f64, bool, unit) "
        "produce the same value as the generic serde path for every JSON-representable input (induction over Value / Variable). The "
        "`features` stream builds the harness against /repo under default, sync, specialized and sync+specialized (nightly) and runs the "
        "same eval / parse / serde / tojm cases under all four, comparing outputs with each other and with the model.",
   note="Trusted: Lean kernel; translate.py; cargo/rustc stable+nightly; conversion model as sampled. Non-finite float inputs differ between the paths "
        "(null vs error) but are not JSON-representable: counted in evidence, outside the quantifier.",
   design="DESIGN.md §7 C17",
   technique="Lean 4 theorems (regenerated cfg whitelist; specialised = generic conversion) + cross-build correspondence streams"),
 "C14": dict(
   text="Machine-checked theorems (Lean 4) over a model of the library's Serializer and Deserializer-for-Variable against serde's data model and its "
        "standard / derive visitors: for every data-model value with string-keyed maps (all serializer entry points, nested arbitrarily) the "
        "conversion for searching equals the JSON value serde_json produces; decoding equals serde_json's decoding (the machine-checked "
        "counterexample of the repaired defect F15 — trailing elements silently dropped — and the proof that the length check was the only "
        "difference are kept); a well-typed Rust value survives serialise -> convert -> decode (5-way mutual induction; the exact side "
        "conditions, e.g. Some(()) and NaN, are characterised with counterexamples). The `serde` stream drives the real code: a dynamic "
        "Serialize impl hits every entry point through Variable::from_serializable and serde_json::to_value; 33 derive(Deserialize) types "
        "are decoded from the same data by T::deserialize(variable) and serde_json::from_value; results must agree with each other and the model.",
   note="Trusted: Lean kernel; serde / serde_derive / serde_json are external — svToJson and deJson are the specification, modelled (deJson is "
        "identified with the kind-directed core + length check) and validated by running the real serde_json next to the library on every case. "
        "Non-string map keys are outside the property (the library rejects, serde_json stringifies).",
   design="DESIGN.md §7 C14",
   technique="Lean 4 theorems over a model of the serde bridge + differential correspondence stream against serde_json"),
 "C16": dict(
   text="Machine-checked theorems (Lean 4) over an interleaving model (atomic steps over shared immutable expressions/documents and the once-cell of "
        "the default runtime): a step's result does not depend on the state it is taken in, the first-use race has a single outcome, and "
        "under every schedule each thread obtains exactly the results its program yields when run alone (induction over schedules). The "
        "Send + Sync obligations for Expression, Runtime, Variable, Rcvar and JmespathError are compiled into the harness and re-checked by "
        "rustc with --features sync on every run; the `threads` stream releases 2/8/16 real threads at a barrier in a fresh process per case "
        "(so the first compile races on the lazy default runtime) and compares per-thread results with a sequential run and the model.",
   note="PARTIAL BY NATURE: atomicity and data-race freedom are provided by Rust's type system, Arc and lazy_static, which the model assumes; the "
        "stream observes a sample of real schedules and cannot enumerate them.",
   design="DESIGN.md §7 C16",
   technique="Lean 4 schedule-independence theorem over an interleaving model + rustc-checked Send/Sync obligations + real-thread stream"),
 "C18": dict(
   text="Machine-checked theorems (Lean 4) over a model of jp's decision logic with the library models plugged in: exit 0 with the pretty-printed "
        "result and a newline exactly when an expression is given in exactly one way, compiles, the input is readable valid JSON and the "
        "search succeeds; every failure prints nothing to stdout, something to stderr and exits non-zero; --unquoted affects string "
        "results only; --ast never reads the input; the clap argument table, die!'s stderr + exit code and the stage order of main are "
        "re-extracted from main.rs on every run and proved to be what the model assumes (C18_cli_surface). The `cli` stream runs the real binary (built from /repo/jmespath-cli/src/main.rs) on "
        "generated combinations of expressions, inputs (valid / invalid JSON, non-UTF-8, missing files), -e / -f / -u / --ast, and "
        "compares exit status, stdout bytes and stderr-non-empty with the model, plus shape oracles on the binary alone.",
   note="PARTIAL BY NATURE: process exit, pipes, the file system and clap's argument parsing are observed on sampled runs, not modelled; the Debug "
        "rendering printed by --ast and of expression-reference results is not modelled (only presence is checked).",
   design="DESIGN.md §7 C18",
   technique="Lean 4 theorems over a model of the CLI's decision logic + real-binary correspondence stream"),
}

NOT_YET = "check not built yet in this session (work in progress; see DESIGN.md §10 for the order of work)"

def main():
    checks = []
    for pid in ALL:
        if pid in CLAIMED:
            c = CLAIMED[pid]
            checks.append(dict(
                property_id=pid,
                quick_cmd=f"python3 tools/check.py {pid} --tier quick",
                thorough_cmd=f"python3 tools/check.py {pid} --tier thorough",
                evidence_file=f"/verif/evidence/{pid}.json",
                replay_cmd_template=f"python3 tools/check.py {pid} --replay {{path}}",
                engine="lean4-model+correspondence",
                level_claimed=dict(category="proof", text=c["text"], design_ref=c["design"]),
                level_note=c["note"],
                technique=c["technique"]))
    m = dict(
        version=1,
        setup_cmd="cd /verif && python3 tools/translate.py && cd /verif/lean && lake build JmesVerif jmdriver && cd /verif/harness && CARGO_NET_OFFLINE=true cargo build --release --offline && python3 /verif/tools/warm.py",
        hooks=dict(guard="jmespath_rs_verif", enable="none needed: the harness links /repo/jmespath as a path dependency and uses only its public API",
                   baseline_off_cmd="cd /repo/jmespath && CARGO_NET_OFFLINE=true cargo test --offline",
                   source_commits=[], add_only=True),
        engines=[dict(name="lean4-model+correspondence", path="/verif/tools/check.py",
                      serves_properties=sorted(CLAIMED),
                      kind_free_text="Lean 4 model + theorems (lean/), Rust harness linking /repo/jmespath (harness/), compiled Lean driver, Python orchestrator")],
        checks=checks,
        notes="Every check: translate → lake build Props.<id> (+ #print axioms audit, sorry/axiom grep) → cargo build harness against /repo working tree → "
              "correspondence streams → property oracle → evidence. See DESIGN.md.",
        not_applicable=[dict(property_id=p, reason=NOT_YET) for p in ALL if p not in CLAIMED],
    )
    json.dump(m, open(os.path.join(V, "MANIFEST.json"), "w"), indent=1)

if __name__ == "__main__":
    main()
