"""An independent recogniser for the published JMESPath ABNF at token level (chart parsing over spans), written from the
specification's grammar — it shares nothing with the Lean model, `Legal`, or parser.rs.  Used by C03 as the oracle that
decides whether a generated token string is a sentence."""
import re
from functools import lru_cache

CMP = {"<", "<=", "==", ">=", ">", "!="}
BIN = CMP | {"||", "&&", "|"}
IDENT = re.compile(r"^[A-Za-z_][A-Za-z0-9_]*$")
NUM = re.compile(r"^-?[0-9]+$")


def classify(tok):
    if tok in BIN or tok in {".", "*", "@", "!", "(", ")", "[", "]", "[]", "[?", "{", "}", ",", ":", "&"}:
        return tok
    if IDENT.match(tok):
        return "id"
    if tok.startswith('"') and tok.endswith('"') and len(tok) >= 2:
        return "qid"
    if (tok.startswith("'") and tok.endswith("'") or tok.startswith("`") and tok.endswith("`")) and len(tok) >= 2:
        return "lit"
    if NUM.match(tok):
        return "num"
    return "?"


def is_sentence(tokens):
    t = [classify(x) for x in tokens]
    n = len(t)
    if n == 0 or "?" in t:
        return False

    @lru_cache(maxsize=None)
    def E(i, j):
        if j <= i:
            return False
        if j - i == 1:
            return t[i] in ("id", "qid", "lit", "*", "@") or BS(i, j)
        if BS(i, j) or MSL(i, j) or MSH(i, j) or FN(i, j):
            return True
        if t[i] == "!" and E(i + 1, j):
            return True
        if t[i] == "(" and t[j - 1] == ")" and E(i + 1, j - 1):
            return True
        for k in range(i + 1, j):
            if t[k] == "." and SUB(k + 1, j) and E(i, k):
                return True
            if t[k] in BIN and k + 1 < j and E(i, k) and E(k + 1, j):
                return True
            if t[k] in ("[", "[]", "[?") and BS(k, j) and E(i, k):
                return True
        return False

    @lru_cache(maxsize=None)
    def SUB(i, j):
        if j - i == 1:
            return t[i] in ("id", "qid", "*")
        return MSL(i, j) or MSH(i, j) or FN(i, j)

    @lru_cache(maxsize=None)
    def BS(i, j):
        if j - i == 1:
            return t[i] == "[]"
        if t[i] == "[?":
            return t[j - 1] == "]" and E(i + 1, j - 1)
        if t[i] != "[" or t[j - 1] != "]":
            return False
        inner = t[i + 1:j - 1]
        if inner == ["num"] or inner == ["*"]:
            return True
        # slice-expression = [number] ":" [number] [ ":" [number] ]
        s = "".join("n" if x == "num" else x if x == ":" else "?" for x in inner)
        return re.fullmatch(r"n?:n?(:n?)?", s) is not None

    @lru_cache(maxsize=None)
    def MSL(i, j):
        return j - i >= 3 and t[i] == "[" and t[j - 1] == "]" and EL(i + 1, j - 1)

    @lru_cache(maxsize=None)
    def EL(i, j):
        if E(i, j):
            return True
        return any(t[k] == "," and E(i, k) and EL(k + 1, j) for k in range(i + 1, j - 1))

    @lru_cache(maxsize=None)
    def MSH(i, j):
        return j - i >= 5 and t[i] == "{" and t[j - 1] == "}" and KL(i + 1, j - 1)

    @lru_cache(maxsize=None)
    def KL(i, j):
        if j - i < 3 or t[i] not in ("id", "qid") or t[i + 1] != ":":
            return False
        if E(i + 2, j):
            return True
        return any(t[k] == "," and E(i + 2, k) and KL(k + 1, j) for k in range(i + 3, j - 1))

    @lru_cache(maxsize=None)
    def FN(i, j):
        if j - i < 3 or t[i] != "id" or t[i + 1] != "(" or t[j - 1] != ")":
            return False
        return j - i == 3 or AL(i + 2, j - 1)

    @lru_cache(maxsize=None)
    def FA(i, j):
        return E(i, j) or (t[i] == "&" and E(i + 1, j))

    @lru_cache(maxsize=None)
    def AL(i, j):
        if j <= i:
            return False
        if FA(i, j):
            return True
        return any(t[k] == "," and FA(i, k) and AL(k + 1, j) for k in range(i + 1, j - 1))

    return E(0, n)
