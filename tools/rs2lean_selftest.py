#!/usr/bin/env python3
"""rs2lean_selftest.py — self-test of rs2lean.py + Lemmas/CodeEquiv.lean + Lemmas/InterpEquiv.lean against realistic
edits of the source.

Copies `$VERIF_REPO/jmespath/src` (default /repo) to a scratch directory, applies one edit at a time, runs
`rs2lean.py` with `VERIF_SRC` pointing at the scratch copy and rebuilds `JmesVerif.Lemmas.CodeEquiv`:
  * harmless rewrites (reformatting, renamed locals, reordered branches, ...) must keep the build green;
  * semantic mutations must make the build fail, or the translator exit non-zero (broken tie).
`Generated/Code.lean` is regenerated from the unmodified source at the end and the scratch copy removed.
The edits of `fn interpret` (second target, `Generated/InterpCode.lean`, checked by `JmesVerif.Lemmas.InterpEquiv`) are in
`interp_edits.py`; those of the third target (`Generated/ValidCode.lean`: is_valid, Display, validate, float_eq, eq, cmp; checked by
`JmesVerif.Lemmas.ValidEquiv`) in `valid_edits.py`.
Usage: rs2lean_selftest.py [all|harmless|semantic|limits|interp|interp-harmless|interp-semantic|valid|valid-harmless|valid-semantic|valid-limits]"""
import os, shutil, subprocess, sys, tempfile, time
HERE = os.path.dirname(os.path.abspath(__file__))
sys.path.insert(0, HERE)
from interp_edits import INTERP_HARMLESS, INTERP_SEMANTIC
from valid_edits import VALID_HARMLESS, VALID_SEMANTIC, VALID_LIMITS
SNAP = os.path.join(os.environ.get("VERIF_REPO", "/repo"), "jmespath", "src")
MUT = os.path.join(tempfile.gettempdir(), "rs2lean_selftest_src_%d" % os.getpid())
LEAN = os.path.join(os.path.dirname(HERE), "lean")

def R(file, old, new, count=1):
    return (file, old, new, count)

HARMLESS = {
 "reformat+comments+attrs": [
   R("variable.rs", "fn adjust_slice_endpoint(len: i32, mut endpoint: i32, step: i32) -> i32 {\n    if endpoint < 0 {\n        endpoint += len;\n        if endpoint >= 0 {\n            endpoint\n        } else if step < 0 {\n            -1\n        } else {\n            0\n        }\n    }",
     "#[inline(always)]\n#[allow(clippy::all)]\nfn adjust_slice_endpoint(\n    len: i32,\n    mut endpoint: i32, // the index given\n    step: i32,\n) -> i32\n{\n    /* negative: count /* nested */ from the end */\n    if endpoint<0 { endpoint+=len; if endpoint>=0 { endpoint } else if step<0 { -1 } else { 0 } }"),
   R("variable.rs", "            result.push(array[i as usize].clone());\n            i = i.saturating_add(step);\n        }\n    } else {",
     "            result.push(\n                array[i as usize]\n                    .clone(),\n            ); // keep order\n            i = i\n                .saturating_add(step);\n        }\n    } else {"),
 ],
 "rename locals": [
   R("variable.rs", "fn adjust_slice_endpoint(len: i32, mut endpoint: i32, step: i32) -> i32 {\n    if endpoint < 0 {\n        endpoint += len;\n        if endpoint >= 0 {\n            endpoint\n", "fn adjust_slice_endpoint(n: i32, mut ep: i32, st: i32) -> i32 {\n    if ep < 0 {\n        ep += n;\n        if ep >= 0 {\n            ep\n"),
   R("variable.rs", "        } else if step < 0 {\n            -1\n        } else {\n            0\n        }\n    } else if endpoint < len {\n        endpoint\n    } else if step < 0 {\n        len - 1\n    } else {\n        len\n    }", "        } else if st < 0 {\n            -1\n        } else {\n            0\n        }\n    } else if ep < n {\n        ep\n    } else if st < 0 {\n        n - 1\n    } else {\n        n\n    }"),
   R("variable.rs", "    let mut i = a;\n    if step > 0 {\n        while i < b {\n            result.push(array[i as usize].clone());\n            i = i.saturating_add(step);\n        }\n    } else {\n        while i > b {\n            result.push(array[i as usize].clone());\n            i = i.saturating_add(step);\n        }\n    }\n    result",
     "    let mut cursor = a;\n    if step > 0 {\n        while cursor < b {\n            result.push(array[cursor as usize].clone());\n            cursor = cursor.saturating_add(step);\n        }\n    } else {\n        while cursor > b {\n            result.push(array[cursor as usize].clone());\n            cursor = cursor.saturating_add(step);\n        }\n    }\n    result"),
   R("variable.rs", "let adjusted_index = max(index, 1);\n            if array.len() >= adjusted_index {\n                return array[array.len() - adjusted_index].clone();", "let k = max(index, 1);\n            if array.len() >= k {\n                return array[array.len() - k].clone();"),
 ],
 "reorder else-if branches equivalently": [
   R("variable.rs", "    } else if endpoint < len {\n        endpoint\n    } else if step < 0 {\n        len - 1\n    } else {\n        len\n    }",
     "    } else if endpoint >= len {\n        if step >= 0 {\n            len\n        } else {\n            len - 1\n        }\n    } else {\n        endpoint\n    }"),
   R("functions.rs", "        } else if actual == expected {\n            Ok(())\n        } else if actual < expected {\n            let reason =\n                ErrorReason::Runtime(RuntimeError::NotEnoughArguments { expected, actual });\n            Err(JmespathError::from_ctx(ctx, reason))\n        } else {\n            let reason = ErrorReason::Runtime(RuntimeError::TooManyArguments { expected, actual });\n            Err(JmespathError::from_ctx(ctx, reason))\n        }",
     "        } else if actual < expected {\n            Err(JmespathError::from_ctx(ctx, ErrorReason::Runtime(RuntimeError::NotEnoughArguments { actual: actual, expected })))\n        } else if actual > expected {\n            let reason = ErrorReason::Runtime(RuntimeError::TooManyArguments { expected, actual });\n            return Err(JmespathError::from_ctx(ctx, reason));\n        } else {\n            Ok(())\n        }"),
 ],
 "other equivalent rewrites (+= spelled out, early return, if-let instead of match, arms reordered)": [
   R("variable.rs", "        endpoint += len;\n        if endpoint >= 0 {\n            endpoint\n        }", "        endpoint = endpoint + len;\n        if endpoint >= 0 {\n            return endpoint;\n        }"),
   R("variable.rs", "    let a: i32 = match start {\n        Some(starting_index) => adjust_slice_endpoint(len, starting_index, step),\n        _ if step < 0 => len - 1,\n        _ => 0,\n    };",
     "    let a = if let Some(starting_index) = start {\n        adjust_slice_endpoint(len, starting_index, step)\n    } else if step < 0 {\n        len - 1\n    } else {\n        0i32\n    };"),
   R("variable.rs", "            Variable::Bool(b) => *b,\n            Variable::String(ref s) => !s.is_empty(),", "            Variable::Number(_) => true,\n            Variable::String(ref s) => !s.is_empty(),\n            Variable::Bool(b) => *b,"),
   R("variable.rs", "            Variable::Object(ref o) => !o.is_empty(),\n            Variable::Number(_) => true,\n", "            Variable::Object(ref o) => !o.is_empty(),\n"),
   R("variable.rs", "            Comparator::Equal => Some(*self == *value),\n            Comparator::NotEqual => Some(*self != *value),\n            Comparator::LessThan => Some(*self < *value),", "            Comparator::LessThan => Some(*self < *value),\n            Comparator::NotEqual => Some(*self != *value),\n            Comparator::Equal => Some(*self == *value),"),
   R("interpreter.rs", "            if idx >= 0 {\n                Ok(data.get_index(idx as usize))\n            } else {\n                Ok(data.get_negative_index((-idx) as usize))\n            }", "            if idx < 0 {\n                let neg = -idx;\n                Ok(data.get_negative_index(neg as usize))\n            } else {\n                Ok(data.get_index(idx as usize))\n            }"),
 ],
}

SEMANTIC = {
 "saturating_add -> `i + step` (up loop)": [R("variable.rs", "        while i < b {\n            result.push(array[i as usize].clone());\n            i = i.saturating_add(step);", "        while i < b {\n            result.push(array[i as usize].clone());\n            i = i + step;")],
 "saturating_add -> `i + step` (down loop)": [R("variable.rs", "        while i > b {\n            result.push(array[i as usize].clone());\n            i = i.saturating_add(step);", "        while i > b {\n            result.push(array[i as usize].clone());\n            i += step;")],
 "`endpoint >= 0` -> `endpoint > 0`": [R("variable.rs", "        if endpoint >= 0 {\n            endpoint", "        if endpoint > 0 {\n            endpoint")],
 "`len - 1` -> `len` (adjust_slice_endpoint)": [R("variable.rs", "    } else if step < 0 {\n        len - 1\n    } else {\n        len\n    }", "    } else if step < 0 {\n        len\n    } else {\n        len\n    }")],
 "`len - 1` -> `len` (slice, omitted start)": [R("variable.rs", "        _ if step < 0 => len - 1,", "        _ if step < 0 => len,")],
 "`max(index, 1)` -> `index`": [R("variable.rs", "let adjusted_index = max(index, 1);", "let adjusted_index = index;")],
 "`while i < b` -> `while i <= b`": [R("variable.rs", "        while i < b {", "        while i <= b {")],
 "`idx >= 0` -> `idx > 0` (interpreter)": [R("interpreter.rs", "            if idx >= 0 {\n                Ok(data.get_index(idx as usize))", "            if idx > 0 {\n                Ok(data.get_index(idx as usize))")],
 "`(-idx) as usize` -> `idx as usize`": [R("interpreter.rs", "Ok(data.get_negative_index((-idx) as usize))", "Ok(data.get_negative_index(idx as usize))")],
 "`array.len() >= adjusted_index` -> `>`": [R("variable.rs", "if array.len() >= adjusted_index {", "if array.len() > adjusted_index {")],
 "arity: variadic `actual >= expected` -> `>`": [R("functions.rs", "            if actual >= expected {", "            if actual > expected {")],
 "arity: NotEnough/TooMany payload swapped": [R("functions.rs", "RuntimeError::TooManyArguments { expected, actual }", "RuntimeError::TooManyArguments { expected: actual, actual: expected }")],
 "is_truthy: Number => false": [R("variable.rs", "            Variable::Number(_) => true,", "            Variable::Number(_) => false,")],
 "get_type: Object => Array": [R("variable.rs", "            Variable::Object(_) => JmespathType::Object,", "            Variable::Object(_) => JmespathType::Array,")],
 "compare gate: drop `|| *cmp == Comparator::Equal`": [R("variable.rs", "            || *cmp == Comparator::NotEqual\n            || *cmp == Comparator::Equal)", "            || *cmp == Comparator::NotEqual)")],
 "compare: LessThan => `<=`": [R("variable.rs", "Comparator::LessThan => Some(*self < *value),", "Comparator::LessThan => Some(*self <= *value),")],
 "compare: operands swapped": [R("variable.rs", "Comparator::GreaterThan => Some(*self > *value),", "Comparator::GreaterThan => Some(*value > *self),")],
 "outside the subset: `for` loop in slice": [R("variable.rs", "    let mut i = a;\n    if step > 0 {", "    for _ in 0..1 {}\n    let mut i = a;\n    if step > 0 {")],
 "outside the subset: wrapping_add": [R("variable.rs", "            i = i.saturating_add(step);\n        }\n    } else {", "            i = i.wrapping_add(step);\n        }\n    } else {")],
 "target removed: fn adjust_slice_endpoint renamed": [R("variable.rs", "fn adjust_slice_endpoint(", "fn adjust_endpoint("), R("variable.rs", "adjust_slice_endpoint(len, starting_index, step)", "adjust_endpoint(len, starting_index, step)"), R("variable.rs", "adjust_slice_endpoint(len, ending_index, step)", "adjust_endpoint(len, ending_index, step)")],
}


NEEDS_PROOF_WORK = {}
ADJ_OLD = open(SNAP + "/variable.rs").read()
ADJ_OLD = ADJ_OLD[ADJ_OLD.index("fn adjust_slice_endpoint("):]
ADJ_OLD = ADJ_OLD[:ADJ_OLD.index("\n}\n") + 3]
HARMLESS["imperative rewrite: mutable result, statement ifs, inner `let` shadowing a parameter"] = [
  R("variable.rs", ADJ_OLD, """fn adjust_slice_endpoint(len: i32, mut endpoint: i32, step: i32) -> i32 {
    let mut r = endpoint;
    if endpoint < 0 {
        endpoint += len;
        r = endpoint;
        if endpoint < 0 {
            r = if step < 0 { -1 } else { 0 };
        }
    } else if endpoint >= len {
        let endpoint = if step < 0 { len - 1 } else { len };
        r = endpoint;
    }
    r
}
""")]
HARMLESS["pattern binder shadows an outer variable that is used afterwards"] = [
  R("variable.rs", "    let a: i32 = match start {\n        Some(starting_index) => adjust_slice_endpoint(len, starting_index, step),",
    "    let a: i32 = match start {\n        Some(len) => adjust_slice_endpoint(array.len() as i32, len, step),"),
  R("variable.rs", "if let Some(result) = array.get(index) {\n                return result.clone();", "if let Some(index) = array.get(index) {\n                return index.clone();"),
]
NEEDS_PROOF_WORK["equivalent, but beyond the generic proof script: extra `let b = if b > len { len } else { b }` + inner `let len` shadow (translation is right: fresh name)"] = [
  R("variable.rs", "    let mut i = a;\n    if step > 0 {", "    if step > 0 {\n        let len: i32 = 0;\n        if len == 1 {\n            return result;\n        }\n    }\n    let b = if b > len { len } else { b };\n    let mut i = a;\n    if step > 0 {"),
]

def run(name, edits, target="JmesVerif.Lemmas.CodeEquiv", gen="Code.lean"):
    shutil.rmtree(MUT, ignore_errors=True)
    shutil.copytree(SNAP, MUT)
    for file, old, new, count in edits:
        p = os.path.join(MUT, file)
        s = open(p).read()
        if s.count(old) != count:
            return f"EDIT DID NOT APPLY ({file}: {s.count(old)} occurrences)"
        open(p, "w").write(s.replace(old, new))
    before = open(os.path.join(LEAN, "JmesVerif/Generated", gen)).read()
    env = dict(os.environ, VERIF_SRC=MUT)
    r = subprocess.run([sys.executable, os.path.join(HERE, "rs2lean.py")], env=env, capture_output=True, text=True)
    if r.returncode != 0:
        return "translator: exit %d: %s" % (r.returncode, r.stderr.strip())
    after = open(os.path.join(LEAN, "JmesVerif/Generated", gen)).read()
    strip = lambda t: "\n".join(l for l in t.splitlines() if not l.startswith("/--") and not l.strip().startswith("--") and "sourceDigest" not in l)
    changed = f"{gen} changed" if strip(before) != strip(after) else (f"{gen} changed in comments only" if before != after else f"{gen} unchanged")
    t0 = time.time()
    b = subprocess.run(["lake", "build", target], cwd=LEAN, capture_output=True, text=True)
    dt = time.time() - t0
    if b.returncode == 0:
        return f"{changed}; build OK ({dt:.0f}s)"
    errs = [l for l in (b.stdout + b.stderr).splitlines() if l.startswith("error:") and ".lean:" in l]
    first = errs[0][:150] if errs else "?"
    return f"{changed}; build FAILS ({len(errs)} errors; first: {first})"

def restore():
    shutil.rmtree(MUT, ignore_errors=True)
    env = dict(os.environ)
    env.pop("VERIF_SRC", None)
    subprocess.run([sys.executable, os.path.join(HERE, "rs2lean.py")], env=env, check=True)
    b = subprocess.run(["lake", "build", "JmesVerif.Lemmas.CodeEquiv", "JmesVerif.Lemmas.InterpEquiv", "JmesVerif.Lemmas.ValidEquiv"], cwd=LEAN, capture_output=True, text=True)
    print("restored; build", "OK" if b.returncode == 0 else "FAILS")

if __name__ == "__main__":
    which = sys.argv[1] if len(sys.argv) > 1 else "all"
    try:
        if which in ("all", "harmless"):
            print("== harmless rewrites (expected: build OK)")
            for k, v in HARMLESS.items():
                print(f"  {k}: {run(k, v)}", flush=True)
        if which in ("all", "semantic"):
            print("== semantic mutations (expected: build FAILS or translator exits non-zero)")
            for k, v in SEMANTIC.items():
                print(f"  {k}: {run(k, v)}", flush=True)
        if which in ("all", "limits"):
            print("== equivalent rewrites the generic proofs do not absorb (a false alarm needing proof maintenance)")
            for k, v in NEEDS_PROOF_WORK.items():
                print(f"  {k}: {run(k, v)}", flush=True)
        if which in ("all", "interp", "interp-harmless"):
            print("== interpret: harmless rewrites (expected: InterpCode.lean changes in shape only; build OK)")
            for k, v in INTERP_HARMLESS.items():
                print(f"  {k}: {run(k, v, 'JmesVerif.Lemmas.InterpEquiv', 'InterpCode.lean')}", flush=True)
        if which in ("all", "interp", "interp-semantic"):
            print("== interpret: semantic mutations (expected: build FAILS or translator exits non-zero)")
            for k, v in INTERP_SEMANTIC.items():
                print(f"  {k}: {run(k, v, 'JmesVerif.Lemmas.InterpEquiv', 'InterpCode.lean')}", flush=True)
        if which in ("all", "valid", "valid-harmless"):
            print("== validation / equality: harmless rewrites (expected: ValidCode.lean changes in shape only; build OK)")
            for k, v in VALID_HARMLESS.items():
                print(f"  {k}: {run(k, v, 'JmesVerif.Lemmas.ValidEquiv', 'ValidCode.lean')}", flush=True)
        if which in ("all", "valid", "valid-semantic"):
            print("== validation / equality: semantic mutations (expected: build FAILS or translator exits non-zero)")
            for k, v in VALID_SEMANTIC.items():
                print(f"  {k}: {run(k, v, 'JmesVerif.Lemmas.ValidEquiv', 'ValidCode.lean')}", flush=True)
        if which in ("all", "valid", "valid-limits"):
            print("== validation / equality: equivalent rewrites the generic proofs may not absorb (a false alarm needing proof maintenance)")
            for k, v in VALID_LIMITS.items():
                print(f"  {k}: {run(k, v, 'JmesVerif.Lemmas.ValidEquiv', 'ValidCode.lean')}", flush=True)
    finally:
        restore()
