"""Typed value encoding ⇄ Python structures.  Numbers stay opaque tokens ('u1', 'i-2', 'd3ff…'), strings are ('s', text),
arrays are lists, objects are dicts (key → value, kept in key order), None/True/False as usual; exprefs ('x', text)."""


class Num(str):
    pass


def parse(s):
    toks = [t for t in s.split(" ") if t]
    v, i = _p(toks, 0)
    return v


def _p(t, i):
    x = t[i]
    if x == "n":
        return None, i + 1
    if x == "t":
        return True, i + 1
    if x == "f":
        return False, i + 1
    if x == "[":
        out = []
        i += 1
        while t[i] != "]":
            v, i = _p(t, i)
            out.append(v)
        return out, i + 1
    if x == "{":
        out = {}
        i += 1
        while t[i] != "}":
            k = bytes.fromhex(t[i][1:]).decode("utf-8")
            v, i = _p(t, i + 1)
            out[k] = v
        return out, i + 1
    if x == "x":
        # expression reference: keep the rest opaque (balanced parens)
        depth, j = 0, i + 1
        while True:
            if t[j] == "(":
                depth += 1
            elif t[j] == ")":
                depth -= 1
                if depth == 0:
                    break
            j += 1
        return ("x", " ".join(t[i + 1:j + 1])), j + 1
    if x[0] == "s":
        return ("s", bytes.fromhex(x[1:]).decode("utf-8")), i + 1
    return Num(x), i + 1


def dump(v):
    if v is None:
        return "n"
    if v is True:
        return "t"
    if v is False:
        return "f"
    if isinstance(v, Num):
        return str(v)
    if isinstance(v, tuple):
        if v[0] == "s":
            return "s" + v[1].encode("utf-8").hex()
        return "x " + v[1]
    if isinstance(v, list):
        return "[ " + " ".join(dump(x) for x in v) + " ]" if v else "[ ]"
    if isinstance(v, dict):
        ks = sorted(v, key=lambda k: k.encode("utf-8"))
        return "{ " + " ".join("s" + k.encode("utf-8").hex() + " " + dump(v[k]) for k in ks) + " }" if ks else "{ }"
    raise ValueError(v)


def has_expref(v):
    if isinstance(v, tuple):
        return v[0] == "x"
    if isinstance(v, list):
        return any(has_expref(x) for x in v)
    if isinstance(v, dict):
        return any(has_expref(x) for x in v.values())
    return False


def truthy(v):
    """the specification's truth table: false, null, "", [], {} are false; everything else (incl. 0) is true"""
    if v is None or v is False:
        return False
    if isinstance(v, tuple) and v[0] == "s":
        return v[1] != ""
    if isinstance(v, (list, dict)):
        return len(v) > 0
    return True
