namespace Pratt

inductive Tok | id (s : String) | or | and | pipe | dot | lp | rp | not | wild | eof
deriving DecidableEq, Repr

def lbp : Tok → Nat
  | .pipe => 1 | .or => 2 | .and => 3 | .wild => 55 | .dot => 40 | .not => 45 | .lp => 60 | _ => 0

-- Concrete syntax in spine form: a head (nud) followed by led applications.
mutual
inductive Nud
  | id (s : String)
  | not (e : Expr)
  | paren (e : Expr)
inductive Led
  | or (e : Expr) | and (e : Expr) | pipe (e : Expr)
  | dot (s : String)
  | wild (rhs : Option String)   -- "[*]" optionally followed by ".name" (projection rhs, simplified)
inductive Expr
  | mk (h : Nud) (ls : List Led)
end

abbrev Res := Option (Expr × List Tok)

def peek : List Tok → Tok | [] => .eof | t :: _ => t

mutual
def expr (fuel : Nat) (rbp : Nat) (ts : List Tok) : Res :=
  match fuel with
  | 0 => none
  | fuel+1 =>
    match nud fuel ts with
    | none => none
    | some (h, ts) => loop fuel rbp h [] ts
def loop (fuel : Nat) (rbp : Nat) (h : Nud) (acc : List Led) (ts : List Tok) : Res :=
  match fuel with
  | 0 => none
  | fuel+1 =>
    if rbp < lbp (peek ts) then
      match led fuel ts with
      | none => none
      | some (l, ts) => loop fuel rbp h (acc ++ [l]) ts
    else some (.mk h acc, ts)
def nud (fuel : Nat) (ts : List Tok) : Option (Nud × List Tok) :=
  match fuel with
  | 0 => none
  | fuel+1 =>
    match ts with
    | .id s :: ts => some (.id s, ts)
    | .not :: ts => match expr fuel 45 ts with
        | some (e, ts) => some (.not e, ts) | none => none
    | .lp :: ts => match expr fuel 0 ts with
        | some (e, .rp :: ts) => some (.paren e, ts) | _ => none
    | _ => none
def led (fuel : Nat) (ts : List Tok) : Option (Led × List Tok) :=
  match fuel with
  | 0 => none
  | fuel+1 =>
    match ts with
    | .or :: ts => match expr fuel 2 ts with | some (e, ts) => some (.or e, ts) | none => none
    | .and :: ts => match expr fuel 3 ts with | some (e, ts) => some (.and e, ts) | none => none
    | .pipe :: ts => match expr fuel 1 ts with | some (e, ts) => some (.pipe e, ts) | none => none
    | .dot :: .id s :: ts => some (.dot s, ts)
    | .wild :: ts =>
        match ts with
        | .dot :: .id s :: ts' => some (.wild (some s), ts')
        | t :: _ => if lbp t < 10 then some (.wild none, ts) else none
        | [] => some (.wild none, ts)
    | _ => none
end

-- yield
mutual
def Nud.toks : Nud → List Tok
  | .id s => [.id s]
  | .not e => .not :: e.toks
  | .paren e => .lp :: (e.toks ++ [.rp])
def Led.toks : Led → List Tok
  | .or e => .or :: e.toks | .and e => .and :: e.toks | .pipe e => .pipe :: e.toks
  | .dot s => [.dot, .id s]
  | .wild none => [.wild] | .wild (some s) => [.wild, .dot, .id s]
def Expr.toks : Expr → List Tok
  | .mk h ls => h.toks ++ ledsToks ls
def ledsToks : List Led → List Tok
  | [] => [] | l :: ls => l.toks ++ ledsToks ls
end

#eval (expr 100 0 [.id "a", .or, .id "b", .and, .not, .id "c", .dot, .id "d", .wild, .dot, .id "e", .pipe, .id "f"]).map (fun r => r.1.toks)

end Pratt
