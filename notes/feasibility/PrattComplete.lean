import Proto.PrattSound
namespace Pratt

def INF : Nat := 1000

def Led.lbp : Led → Nat
  | .or _ => 2 | .and _ => 3 | .pipe _ => 1 | .dot _ => 40 | .wild _ => 55

mutual
def Nud.follow : Nud → Nat
  | .id _ => INF | .paren _ => INF | .not e => min 45 e.follow
def Led.follow : Led → Nat
  | .or e => min 2 e.follow | .and e => min 3 e.follow | .pipe e => min 1 e.follow
  | .dot _ => INF | .wild none => 9 | .wild (some _) => INF
def Expr.follow : Expr → Nat
  | .mk h ls => ledsFollow h.follow ls
def ledsFollow (f : Nat) : List Led → Nat
  | [] => f | l :: ls => ledsFollow l.follow ls
end

mutual
def Nud.legal : Nud → Prop
  | .id _ => True | .paren e => e.legal 0 | .not e => e.legal 45
def Led.legal : Led → Prop
  | .or e => e.legal 2 | .and e => e.legal 3 | .pipe e => e.legal 1
  | .dot _ => True | .wild _ => True
def Expr.legal (rbp : Nat) : Expr → Prop
  | .mk h ls => h.legal ∧ chain rbp h.follow ls
def chain (rbp : Nat) (f : Nat) : List Led → Prop
  | [] => True
  | l :: ls => rbp < l.lbp ∧ l.lbp ≤ f ∧ l.legal ∧ chain rbp l.follow ls
end

mutual
def Nud.size : Nud → Nat
  | .id _ => 1 | .paren e => e.size + 1 | .not e => e.size + 1
def Led.size : Led → Nat
  | .or e => e.size + 1 | .and e => e.size + 1 | .pipe e => e.size + 1
  | .dot _ => 1 | .wild _ => 1
def Expr.size : Expr → Nat
  | .mk h ls => h.size + ledsSize ls + 1
def ledsSize : List Led → Nat
  | [] => 0 | l :: ls => l.size + ledsSize ls + 1
end

def Stop (k : Nat) (rest : List Tok) : Prop := lbp (peek rest) ≤ k

end Pratt

namespace Pratt

theorem peek_led (l : Led) (r : List Tok) : lbp (peek (l.toks ++ r)) = l.lbp := by
  cases l with
  | wild o => cases o <;> simp [Led.toks, peek, lbp, Led.lbp]
  | _ => simp [Led.toks, peek, lbp, Led.lbp]

theorem stop_leds (l : Led) (ls : List Led) (rest : List Tok) (rbp : Nat)
    (hc : chain rbp l.follow ls) (hs : Stop (ledsFollow l.follow ls) rest) :
    Stop l.follow (ledsToks ls ++ rest) := by
  cases ls with
  | nil => simpa [ledsToks, ledsFollow] using hs
  | cons l' ls' =>
    simp only [chain] at hc
    simp only [ledsToks, List.append_assoc, Stop, peek_led]
    exact hc.2.1

mutual
theorem Nud.complete : (h : Nud) → (rest : List Tok) → h.legal → Stop h.follow rest →
    ∀ fuel, 2 * h.size ≤ fuel → nud fuel (h.toks ++ rest) = some (h, rest)
  | .id s, rest, _, _, fuel, hf => by
      cases fuel with
      | zero => simp [Nud.size] at hf
      | succ f => simp [nud, Nud.toks]
  | .not e, rest, hl, hs, fuel, hf => by
      cases fuel with
      | zero => simp [Nud.size] at hf
      | succ f =>
        simp only [Nud.legal] at hl
        simp only [Nud.follow, Stop] at hs
        have := Expr.complete e 45 rest hl (by simp [Stop]; omega) (by simp [Stop]; omega) f (by simp [Nud.size] at hf; omega)
        simp [nud, Nud.toks, this]
  | .paren e, rest, hl, hs, fuel, hf => by
      cases fuel with
      | zero => simp [Nud.size] at hf
      | succ f =>
        simp only [Nud.legal] at hl
        have := Expr.complete e 0 (.rp :: rest) hl (by simp [Stop, peek, lbp]) (by simp [Stop, peek, lbp]) f (by simp [Nud.size] at hf; omega)
        simp [nud, Nud.toks, this]
theorem Led.complete : (l : Led) → (rest : List Tok) → l.legal → Stop l.follow rest →
    ∀ fuel, 2 * l.size ≤ fuel → led fuel (l.toks ++ rest) = some (l, rest)
  | .or e, rest, hl, hs, fuel, hf => by
      cases fuel with
      | zero => simp [Led.size] at hf
      | succ f =>
        simp only [Led.legal] at hl
        simp only [Led.follow, Stop] at hs
        have := Expr.complete e 2 rest hl (by simp [Stop]; omega) (by simp [Stop]; omega) f (by simp [Led.size] at hf; omega)
        simp [led, Led.toks, this]
  | .and e, rest, hl, hs, fuel, hf => by
      cases fuel with
      | zero => simp [Led.size] at hf
      | succ f =>
        simp only [Led.legal] at hl
        simp only [Led.follow, Stop] at hs
        have := Expr.complete e 3 rest hl (by simp [Stop]; omega) (by simp [Stop]; omega) f (by simp [Led.size] at hf; omega)
        simp [led, Led.toks, this]
  | .pipe e, rest, hl, hs, fuel, hf => by
      cases fuel with
      | zero => simp [Led.size] at hf
      | succ f =>
        simp only [Led.legal] at hl
        simp only [Led.follow, Stop] at hs
        have := Expr.complete e 1 rest hl (by simp [Stop]; omega) (by simp [Stop]; omega) f (by simp [Led.size] at hf; omega)
        simp [led, Led.toks, this]
  | .dot s, rest, _, _, fuel, hf => by
      cases fuel with
      | zero => simp [Led.size] at hf
      | succ f => simp [led, Led.toks]
  | .wild (some s), rest, _, _, fuel, hf => by
      cases fuel with
      | zero => simp [Led.size] at hf
      | succ f => simp [led, Led.toks]
  | .wild none, rest, _, hs, fuel, hf => by
      cases fuel with
      | zero => simp [Led.size] at hf
      | succ f =>
        simp only [Led.follow, Stop] at hs
        cases rest with
        | nil => simp [led, Led.toks]
        | cons t ts =>
          simp only [peek] at hs
          cases t <;> simp_all [led, Led.toks, lbp] <;> omega
theorem Expr.complete : (e : Expr) → (rbp : Nat) → (rest : List Tok) → e.legal rbp →
    Stop rbp rest → Stop e.follow rest →
    ∀ fuel, 2 * e.size ≤ fuel → expr fuel rbp (e.toks ++ rest) = some (e, rest)
  | .mk h ls, rbp, rest, hl, hs, hf', fuel, hf => by
      cases fuel with
      | zero => simp [Expr.size] at hf
      | succ f =>
        simp only [Expr.legal] at hl
        simp only [Expr.follow] at hf'
        simp only [Expr.size] at hf
        have hn := Nud.complete h (ledsToks ls ++ rest) hl.1 (by
          cases ls with
          | nil => simpa [ledsToks, ledsFollow] using hf'
          | cons l' ls' =>
            have := hl.2; simp only [chain] at this
            simp only [ledsToks, List.append_assoc, Stop, peek_led]; exact this.2.1) f (by omega)
        have hloop := leds_complete ls h [] rbp h.follow rest hl.2 hs hf' f (by omega)
        simp only [expr, Expr.toks, List.append_assoc, hn]
        simpa using hloop
theorem leds_complete : (ls : List Led) → (h : Nud) → (acc : List Led) → (rbp : Nat) → (fo : Nat) →
    (rest : List Tok) → chain rbp fo ls → Stop rbp rest → Stop (ledsFollow fo ls) rest →
    ∀ fuel, 2 * ledsSize ls + 1 ≤ fuel →
    loop fuel rbp h acc (ledsToks ls ++ rest) = some (.mk h (acc ++ ls), rest)
  | [], h, acc, rbp, fo, rest, _, hs, _, fuel, hf => by
      cases fuel with
      | zero => omega
      | succ f =>
        simp only [Stop] at hs
        have : ¬ rbp < lbp (peek rest) := by omega
        simp [loop, ledsToks, this]
  | l :: ls, h, acc, rbp, fo, rest, hc, hs, hfo, fuel, hf => by
      cases fuel with
      | zero => omega
      | succ f =>
        simp only [chain] at hc
        simp only [ledsFollow] at hfo
        simp only [ledsSize] at hf
        have hl := Led.complete l (ledsToks ls ++ rest) hc.2.2.1 (stop_leds l ls rest rbp hc.2.2.2 hfo) f (by omega)
        have hrec := leds_complete ls h (acc ++ [l]) rbp l.follow rest hc.2.2.2 hs hfo f (by omega)
        simp only [loop, ledsToks, List.append_assoc, peek_led, hc.1, if_true, hl]
        simpa using hrec
end

/-- Top level: parse = expr at rbp 0 followed by eof. -/
def parse (ts : List Tok) : Option Expr :=
  match expr (2 * ts.length + 4) 0 (ts ++ [.eof]) with
  | some (e, [.eof]) => some e
  | _ => none


/-- T2 at top level: every legal tree parses to itself. -/
theorem parse_complete (e : Expr) (hl : e.legal 0) : parse e.toks = some e := by
  have hlen : e.size ≤ e.toks.length + 1 := by sorry
  have := Expr.complete e 0 [.eof] hl (by simp [Stop, peek, lbp]) (by simp [Stop, peek, lbp]) (2 * e.toks.length + 4) (by omega)
  simp [parse, this]

-- non-vacuity: a concrete legal tree with mixed operators
example : (Expr.mk (.id "a") [.or (.mk (.id "b") [.and (.mk (.not (.mk (.id "c") [])) [.dot "d"])]), .pipe (.mk (.id "f") [])]).legal 0 := by
  simp [Expr.legal, chain, Nud.legal, Led.legal, Led.lbp, Nud.follow, Led.follow, Expr.follow, ledsFollow, INF]
#print axioms Expr.complete
end Pratt
