import Proto.Pratt
namespace Pratt

theorem ledsToks_append (a b : List Led) : ledsToks (a ++ b) = ledsToks a ++ ledsToks b := by
  induction a with
  | nil => simp [ledsToks]
  | cons x xs ih => simp [ledsToks, ih, List.append_assoc]

/-- Losslessness: the tokens consumed are exactly the yield of the tree returned. -/
theorem sound (fuel : Nat) :
    (∀ rbp ts e rest, expr fuel rbp ts = some (e, rest) → ts = e.toks ++ rest) ∧
    (∀ rbp h acc ts e rest, loop fuel rbp h acc ts = some (e, rest) →
        h.toks ++ ledsToks acc ++ ts = e.toks ++ rest) ∧
    (∀ ts h rest, nud fuel ts = some (h, rest) → ts = h.toks ++ rest) ∧
    (∀ ts l rest, led fuel ts = some (l, rest) → ts = l.toks ++ rest) := by
  induction fuel with
  | zero => simp [expr, loop, nud, led]
  | succ n ih =>
    obtain ⟨ihE, ihL, ihN, ihD⟩ := ih
    refine ⟨?_, ?_, ?_, ?_⟩
    · intro rbp ts e rest h
      simp only [expr] at h
      split at h
      · simp at h
      · rename_i hd ts' hn
        have h1 := ihN _ _ _ hn
        have h2 := ihL _ _ _ _ _ _ h
        simp [ledsToks] at h2
        rw [h1, h2]
    · intro rbp hd acc ts e rest h
      simp only [loop] at h
      split at h
      · split at h
        · simp at h
        · rename_i l ts' hl
          have h1 := ihD _ _ _ hl
          have h2 := ihL _ _ _ _ _ _ h
          rw [ledsToks_append] at h2
          simp [ledsToks] at h2
          rw [h1]; simpa [List.append_assoc] using h2
      · simp at h
        obtain ⟨rfl, rfl⟩ := h
        simp [Expr.toks]
    · intro ts hd rest h
      simp only [nud] at h
      split at h
      · simp at h; obtain ⟨rfl, rfl⟩ := h; simp [Nud.toks]
      · split at h
        · rename_i e ts' he
          simp at h; obtain ⟨rfl, rfl⟩ := h
          have := ihE _ _ _ _ he
          simp [Nud.toks, this]
        · simp at h
      · split at h
        · rename_i e ts' he
          simp at h; obtain ⟨rfl, rfl⟩ := h
          have := ihE _ _ _ _ he
          simp [Nud.toks, this]
        · simp at h
      · simp at h
    · intro ts l rest h
      simp only [led] at h
      split at h
      · split at h
        · rename_i e ts' he; simp at h; obtain ⟨rfl, rfl⟩ := h
          have := ihE _ _ _ _ he; simp [Led.toks, this]
        · simp at h
      · split at h
        · rename_i e ts' he; simp at h; obtain ⟨rfl, rfl⟩ := h
          have := ihE _ _ _ _ he; simp [Led.toks, this]
        · simp at h
      · split at h
        · rename_i e ts' he; simp at h; obtain ⟨rfl, rfl⟩ := h
          have := ihE _ _ _ _ he; simp [Led.toks, this]
        · simp at h
      · simp at h; obtain ⟨rfl, rfl⟩ := h; simp [Led.toks]
      · split at h
        · simp at h; obtain ⟨rfl, rfl⟩ := h; simp [Led.toks]
        · split at h
          · simp at h; obtain ⟨rfl, rfl⟩ := h; simp [Led.toks]
          · simp at h
        · simp at h; obtain ⟨rfl, rfl⟩ := h; simp [Led.toks]
      · simp at h

/-- same statement, automation-heavy variant to gauge `grind` -/
theorem sound' (fuel : Nat) :
    (∀ rbp ts e rest, expr fuel rbp ts = some (e, rest) → ts = e.toks ++ rest) ∧
    (∀ rbp h acc ts e rest, loop fuel rbp h acc ts = some (e, rest) →
        h.toks ++ ledsToks acc ++ ts = e.toks ++ rest) ∧
    (∀ ts h rest, nud fuel ts = some (h, rest) → ts = h.toks ++ rest) ∧
    (∀ ts l rest, led fuel ts = some (l, rest) → ts = l.toks ++ rest) := by
  induction fuel with
  | zero => simp [expr, loop, nud, led]
  | succ n ih =>
    obtain ⟨ihE, ihL, ihN, ihD⟩ := ih
    refine ⟨?_, ?_, ?_, ?_⟩
    · intro rbp ts e rest h
      simp only [expr] at h
      grind [ledsToks, Expr.toks]
    · intro rbp hd acc ts e rest h
      simp only [loop] at h
      grind [ledsToks, Expr.toks, ledsToks_append]
    · intro ts hd rest h
      simp only [nud] at h
      grind [Nud.toks]
    · intro ts l rest h
      simp only [led] at h
      grind [Led.toks]
#print axioms sound
#print axioms sound'
end Pratt
