import Proto.PrattComplete
namespace Pratt

theorem chain_snoc (rbp f : Nat) (acc : List Led) (l : Led) :
    chain rbp f (acc ++ [l]) ↔ (chain rbp f acc ∧ rbp < l.lbp ∧ l.lbp ≤ ledsFollow f acc ∧ l.legal) := by
  induction acc generalizing f with
  | nil => simp [chain, ledsFollow]
  | cons a as ih => simp [chain, ledsFollow, ih, and_assoc]

theorem follow_snoc (f : Nat) (acc : List Led) (l : Led) : ledsFollow f (acc ++ [l]) = l.follow := by
  induction acc generalizing f with
  | nil => simp [ledsFollow]
  | cons a as ih => simp [ledsFollow, ih]

theorem lbp_le_INF (r : List Tok) : lbp (peek r) ≤ INF := by
  cases r <;> simp [peek, INF, lbp]; rename_i t _; cases t <;> simp [lbp]

/-- T1 (legality half): whatever the parser returns is a legal tree, and it stopped for a reason. -/
theorem legal_of_parse (fuel : Nat) :
    (∀ rbp ts e rest, expr fuel rbp ts = some (e, rest) →
        e.legal rbp ∧ Stop rbp rest ∧ Stop e.follow rest) ∧
    (∀ rbp h acc ts e rest, loop fuel rbp h acc ts = some (e, rest) →
        h.legal → chain rbp h.follow acc → Stop (ledsFollow h.follow acc) ts →
        e.legal rbp ∧ Stop rbp rest ∧ Stop e.follow rest) ∧
    (∀ ts h rest, nud fuel ts = some (h, rest) → h.legal ∧ Stop h.follow rest) ∧
    (∀ ts l rest, led fuel ts = some (l, rest) → l.legal ∧ Stop l.follow rest) := by
  induction fuel with
  | zero => simp [expr, loop, nud, led]
  | succ n ih =>
    obtain ⟨ihE, ihL, ihN, ihD⟩ := ih
    refine ⟨?_, ?_, ?_, ?_⟩
    · intro rbp ts e rest h
      simp only [expr] at h
      split at h
      · simp at h
      · rename_i hd ts' hn
        have ⟨h1, h2⟩ := ihN _ _ _ hn
        exact ihL _ _ _ _ _ _ h h1 (by simp [chain]) (by simpa [ledsFollow] using h2)
    · intro rbp hd acc ts e rest h hl hc hs
      simp only [loop] at h
      split at h
      · rename_i hlt
        split at h
        · simp at h
        · rename_i l ts' hled
          have ⟨h1, h2⟩ := ihD _ _ _ hled
          have hy := (sound n).2.2.2 _ _ _ hled
          have hp : lbp (peek ts) = l.lbp := by rw [hy, peek_led]
          refine ihL _ _ _ _ _ _ h hl ?_ ?_
          · rw [chain_snoc]; simp only [Stop] at hs; exact ⟨hc, by omega, by omega, h1⟩
          · rw [follow_snoc]; exact h2
      · simp at h
        obtain ⟨rfl, rfl⟩ := h
        simp only [Expr.legal, Expr.follow, Stop] at *
        exact ⟨⟨hl, hc⟩, by omega, hs⟩
    · intro ts hd rest h
      simp only [nud] at h
      split at h
      · simp at h; obtain ⟨rfl, rfl⟩ := h; simp [Nud.legal, Nud.follow, Stop, lbp_le_INF]
      · split at h
        · rename_i e ts' he; simp at h; obtain ⟨rfl, rfl⟩ := h
          have ⟨a, b, c⟩ := ihE _ _ _ _ he
          simp only [Nud.legal, Nud.follow, Stop] at *; exact ⟨a, by omega⟩
        · simp at h
      · split at h
        · rename_i e ts' he; simp at h; obtain ⟨rfl, rfl⟩ := h
          have ⟨a, b, c⟩ := ihE _ _ _ _ he
          simp only [Nud.legal, Nud.follow, Stop] at *; exact ⟨a, lbp_le_INF _⟩
        · simp at h
      · simp at h
    · intro ts l rest h
      simp only [led] at h
      have big := lbp_le_INF
      split at h
      · split at h
        · rename_i e ts' he; simp at h; obtain ⟨rfl, rfl⟩ := h
          have ⟨a, b, c⟩ := ihE _ _ _ _ he
          simp only [Led.legal, Led.follow, Stop] at *; exact ⟨a, by omega⟩
        · simp at h
      · split at h
        · rename_i e ts' he; simp at h; obtain ⟨rfl, rfl⟩ := h
          have ⟨a, b, c⟩ := ihE _ _ _ _ he
          simp only [Led.legal, Led.follow, Stop] at *; exact ⟨a, by omega⟩
        · simp at h
      · split at h
        · rename_i e ts' he; simp at h; obtain ⟨rfl, rfl⟩ := h
          have ⟨a, b, c⟩ := ihE _ _ _ _ he
          simp only [Led.legal, Led.follow, Stop] at *; exact ⟨a, by omega⟩
        · simp at h
      · simp at h; obtain ⟨rfl, rfl⟩ := h; simp [Led.legal, Led.follow, Stop, big]
      · split at h
        · simp at h; obtain ⟨rfl, rfl⟩ := h; simp [Led.legal, Led.follow, Stop, big]
        · split at h
          · simp at h; obtain ⟨rfl, rfl⟩ := h; simp [Led.legal, Led.follow, Stop, peek]; omega
          · simp at h
        · simp at h; obtain ⟨rfl, rfl⟩ := h; simp [Led.legal, Led.follow, Stop, peek, lbp]
      · simp at h

#print axioms legal_of_parse
end Pratt
