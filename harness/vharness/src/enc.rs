//! Typed, text-free encoding of values / ASTs / errors shared with the Lean driver.
//! Tokens are separated by single spaces; strings are hex-encoded UTF-8; doubles are bit patterns.

use jmespath::ast::{Ast, Comparator};
use jmespath::{ErrorReason, JmespathError, Rcvar, RuntimeError, Variable};
use serde_json::Number;
use std::collections::BTreeMap;

pub fn hex(s: &[u8]) -> String {
    let mut o = String::with_capacity(s.len() * 2);
    for b in s {
        o.push_str(&format!("{:02x}", b));
    }
    o
}

pub fn unhex(s: &str) -> Vec<u8> {
    let b = s.as_bytes();
    let mut o = Vec::with_capacity(b.len() / 2);
    let mut i = 0;
    while i + 1 < b.len() {
        let h = (b[i] as char).to_digit(16).unwrap() as u8;
        let l = (b[i + 1] as char).to_digit(16).unwrap() as u8;
        o.push(h * 16 + l);
        i += 2;
    }
    o
}

pub fn unhex_str(s: &str) -> String {
    String::from_utf8(unhex(s)).expect("case strings are valid UTF-8")
}

pub fn enc_number(n: &Number, out: &mut Vec<String>) {
    if n.is_u64() {
        out.push(format!("u{}", n.as_u64().unwrap()));
    } else if n.is_i64() {
        out.push(format!("i{}", n.as_i64().unwrap()));
    } else {
        out.push(format!("d{:016x}", n.as_f64().unwrap().to_bits()));
    }
}

pub fn enc_value(v: &Variable, out: &mut Vec<String>) {
    match v {
        Variable::Null => out.push("n".into()),
        Variable::Bool(true) => out.push("t".into()),
        Variable::Bool(false) => out.push("f".into()),
        Variable::Number(n) => enc_number(n, out),
        Variable::String(s) => out.push(format!("s{}", hex(s.as_bytes()))),
        Variable::Array(a) => {
            out.push("[".into());
            for e in a {
                enc_value(e, out);
            }
            out.push("]".into());
        }
        Variable::Object(m) => {
            out.push("{".into());
            for (k, e) in m {
                out.push(format!("s{}", hex(k.as_bytes())));
                enc_value(e, out);
            }
            out.push("}".into());
        }
        Variable::Expref(a) => {
            out.push("x".into());
            enc_ast(a, out);
        }
    }
}

pub fn value_str(v: &Variable) -> String {
    let mut out = vec![];
    enc_value(v, &mut out);
    out.join(" ")
}

fn cmp_name(c: &Comparator) -> &'static str {
    match c {
        Comparator::Equal => "eq",
        Comparator::NotEqual => "ne",
        Comparator::LessThan => "lt",
        Comparator::LessThanEqual => "le",
        Comparator::GreaterThan => "gt",
        Comparator::GreaterThanEqual => "ge",
    }
}

pub fn enc_ast(a: &Ast, out: &mut Vec<String>) {
    out.push("(".into());
    match a {
        Ast::Comparison { offset, comparator, lhs, rhs } => {
            out.push("Comparison".into());
            out.push(format!("@{}", offset));
            out.push(cmp_name(comparator).into());
            enc_ast(lhs, out);
            enc_ast(rhs, out);
        }
        Ast::Condition { offset, predicate, then } => {
            out.push("Condition".into());
            out.push(format!("@{}", offset));
            enc_ast(predicate, out);
            enc_ast(then, out);
        }
        Ast::Identity { offset } => {
            out.push("Identity".into());
            out.push(format!("@{}", offset));
        }
        Ast::Expref { offset, ast } => {
            out.push("Expref".into());
            out.push(format!("@{}", offset));
            enc_ast(ast, out);
        }
        Ast::Flatten { offset, node } => {
            out.push("Flatten".into());
            out.push(format!("@{}", offset));
            enc_ast(node, out);
        }
        Ast::Function { offset, name, args } => {
            out.push("Function".into());
            out.push(format!("@{}", offset));
            out.push(format!("s{}", hex(name.as_bytes())));
            for x in args {
                enc_ast(x, out);
            }
        }
        Ast::Field { offset, name } => {
            out.push("Field".into());
            out.push(format!("@{}", offset));
            out.push(format!("s{}", hex(name.as_bytes())));
        }
        Ast::Index { offset, idx } => {
            out.push("Index".into());
            out.push(format!("@{}", offset));
            out.push(format!("{}", idx));
        }
        Ast::Literal { offset, value } => {
            out.push("Literal".into());
            out.push(format!("@{}", offset));
            enc_value(value, out);
        }
        Ast::MultiList { offset, elements } => {
            out.push("MultiList".into());
            out.push(format!("@{}", offset));
            for x in elements {
                enc_ast(x, out);
            }
        }
        Ast::MultiHash { offset, elements } => {
            out.push("MultiHash".into());
            out.push(format!("@{}", offset));
            for kv in elements {
                out.push(format!("s{}", hex(kv.key.as_bytes())));
                enc_ast(&kv.value, out);
            }
        }
        Ast::Not { offset, node } => {
            out.push("Not".into());
            out.push(format!("@{}", offset));
            enc_ast(node, out);
        }
        Ast::Projection { offset, lhs, rhs } => {
            out.push("Projection".into());
            out.push(format!("@{}", offset));
            enc_ast(lhs, out);
            enc_ast(rhs, out);
        }
        Ast::ObjectValues { offset, node } => {
            out.push("ObjectValues".into());
            out.push(format!("@{}", offset));
            enc_ast(node, out);
        }
        Ast::And { offset, lhs, rhs } => {
            out.push("And".into());
            out.push(format!("@{}", offset));
            enc_ast(lhs, out);
            enc_ast(rhs, out);
        }
        Ast::Or { offset, lhs, rhs } => {
            out.push("Or".into());
            out.push(format!("@{}", offset));
            enc_ast(lhs, out);
            enc_ast(rhs, out);
        }
        Ast::Slice { offset, start, stop, step } => {
            out.push("Slice".into());
            out.push(format!("@{}", offset));
            out.push(start.map_or("-".into(), |v| v.to_string()));
            out.push(stop.map_or("-".into(), |v| v.to_string()));
            out.push(step.to_string());
        }
        Ast::Subexpr { offset, lhs, rhs } => {
            out.push("Subexpr".into());
            out.push(format!("@{}", offset));
            enc_ast(lhs, out);
            enc_ast(rhs, out);
        }
    }
    out.push(")".into());
}

pub fn ast_str(a: &Ast) -> String {
    let mut out = vec![];
    enc_ast(a, &mut out);
    out.join(" ")
}

/// `E <class> <kind> <fields…> off=<offset> line=<l> col=<c> expr=<hex>`; message wording is never emitted.
pub fn err_str(e: &JmespathError) -> String {
    let (class, kind) = match &e.reason {
        ErrorReason::Parse(_) => ("parse", "parse".to_string()),
        ErrorReason::Runtime(r) => (
            "runtime",
            match r {
                RuntimeError::InvalidSlice => "invalid-slice".to_string(),
                RuntimeError::TooManyArguments { expected, actual } => {
                    format!("too-many exp={} act={}", expected, actual)
                }
                RuntimeError::NotEnoughArguments { expected, actual } => {
                    format!("not-enough exp={} act={}", expected, actual)
                }
                RuntimeError::UnknownFunction(n) => format!("unknown-function name={}", hex(n.as_bytes())),
                RuntimeError::InvalidType { expected, actual, position } => format!(
                    "invalid-type exp={} act={} pos={}",
                    hex(expected.as_bytes()),
                    hex(actual.as_bytes()),
                    position
                ),
                RuntimeError::InvalidReturnType { expected, actual, position, invocation } => format!(
                    "invalid-return-type exp={} act={} pos={} inv={}",
                    hex(expected.as_bytes()),
                    hex(actual.as_bytes()),
                    position,
                    invocation
                ),
            },
        ),
    };
    format!(
        "E {} {} off={} line={} col={} expr={}",
        class,
        kind,
        e.offset,
        e.line,
        e.column,
        hex(e.expression.as_bytes())
    )
}

// ---------------------------------------------------------------- decoding

pub struct Toks<'a> {
    toks: Vec<&'a str>,
    pos: usize,
}

impl<'a> Toks<'a> {
    pub fn new(s: &'a str) -> Toks<'a> {
        Toks { toks: s.split(' ').filter(|t| !t.is_empty()).collect(), pos: 0 }
    }
    fn next(&mut self) -> &'a str {
        let t = self.toks[self.pos];
        self.pos += 1;
        t
    }
    fn peek(&self) -> &'a str {
        self.toks[self.pos]
    }
}

pub fn dec_value(t: &mut Toks<'_>) -> Variable {
    let tok = t.next();
    let (h, rest) = tok.split_at(1);
    match h {
        "n" => Variable::Null,
        "t" => Variable::Bool(true),
        "f" => Variable::Bool(false),
        "i" => Variable::Number(Number::from(rest.parse::<i64>().unwrap())),
        "u" => Variable::Number(Number::from(rest.parse::<u64>().unwrap())),
        "d" => Variable::Number(
            Number::from_f64(f64::from_bits(u64::from_str_radix(rest, 16).unwrap())).expect("finite double"),
        ),
        "s" => Variable::String(unhex_str(rest)),
        "[" => {
            let mut v = vec![];
            while t.peek() != "]" {
                v.push(Rcvar::new(dec_value(t)));
            }
            t.next();
            Variable::Array(v)
        }
        "{" => {
            let mut m = BTreeMap::new();
            while t.peek() != "}" {
                let k = t.next();
                let key = unhex_str(&k[1..]);
                let v = dec_value(t);
                m.insert(key, Rcvar::new(v));
            }
            t.next();
            Variable::Object(m)
        }
        _ => panic!("bad value token {}", tok),
    }
}

pub fn parse_value(s: &str) -> Variable {
    dec_value(&mut Toks::new(s))
}
