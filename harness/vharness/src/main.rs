//! Executor for the implementation side of the correspondence streams (DESIGN §4.2).
//! `vharness <stream>` reads one case per line on stdin and writes one result line per case,
//! flushing after each so that an abort (stack overflow) is attributable to a case.

mod enc;

use enc::*;
use jmespath::{Rcvar, Variable};
use std::io::{self, BufRead, Write};
use std::panic::{catch_unwind, AssertUnwindSafe};

fn opt_i32(s: &str) -> Option<i32> {
    if s == "-" {
        None
    } else {
        Some(s.parse().unwrap())
    }
}

fn guarded<F: FnOnce() -> String>(f: F) -> String {
    match catch_unwind(AssertUnwindSafe(f)) {
        Ok(s) => s,
        Err(p) => {
            let msg = if let Some(s) = p.downcast_ref::<&str>() {
                s.to_string()
            } else if let Some(s) = p.downcast_ref::<String>() {
                s.clone()
            } else {
                "?".to_string()
            };
            format!("PANIC {}", hex(msg.as_bytes()))
        }
    }
}

/// slice: `len start stop step` → direct `Variable::slice` and end-to-end `[a:b:c]`;
/// index: `len idx` → end-to-end `[idx]`.
fn stream_slice(fields: &[&str]) -> String {
    match fields[0] {
        "slice" => {
            let len: usize = fields[1].parse().unwrap();
            let (a, b, c) = (opt_i32(fields[2]), opt_i32(fields[3]), fields[4].parse::<i32>().unwrap());
            let arr = Rcvar::new(Variable::Array(
                (0..len).map(|i| Rcvar::new(Variable::Number(serde_json::Number::from(i)))).collect(),
            ));
            let show = |v: &[Rcvar]| {
                v.iter().map(|x| x.as_number().unwrap().to_string()).collect::<Vec<_>>().join(",")
            };
            let direct = guarded(|| match arr.slice(a, b, c) {
                Some(v) => format!("ok[{}]", show(&v)),
                None => "null".to_string(),
            });
            let e2e = guarded(|| {
                let s = |o: Option<i32>| o.map_or(String::new(), |v| v.to_string());
                let expr = format!("[{}:{}:{}]", s(a), s(b), c);
                match jmespath::compile(&expr).and_then(|e| e.search(arr.clone())) {
                    Ok(r) => match r.as_array() {
                        Some(v) => format!("ok[{}]", show(v)),
                        None => "null".to_string(),
                    },
                    Err(e) => err_str(&e),
                }
            });
            format!("direct={}\te2e={}", direct, e2e)
        }
        "index" => {
            let len: usize = fields[1].parse().unwrap();
            let idx: i64 = fields[2].parse().unwrap();
            let arr = Rcvar::new(Variable::Array(
                (0..len).map(|i| Rcvar::new(Variable::Number(serde_json::Number::from(i)))).collect(),
            ));
            guarded(|| {
                let expr = format!("[{}]", idx);
                match jmespath::compile(&expr).and_then(|e| e.search(arr.clone())) {
                    Ok(r) => format!("e2e={}", value_str(&r)),
                    Err(e) => format!("e2e={}", err_str(&e)),
                }
            })
        }
        other => format!("BADCASE {}", other),
    }
}

/// parse: `<expr hex>` → `ok <ast>` | `E …`
fn stream_parse(fields: &[&str]) -> String {
    let expr = unhex_str(fields[0]);
    guarded(|| match jmespath::parse(&expr) {
        Ok(ast) => format!("ok {}", ast_str(&ast)),
        Err(e) => err_str(&e),
    })
}

/// eval: `<expr hex>\t<doc value>` → `ok <value>` | `E …` (compile errors are reported as `C E …`)
fn stream_eval(fields: &[&str]) -> String {
    let expr = unhex_str(fields[0]);
    let doc = Rcvar::new(parse_value(fields[1]));
    guarded(|| match jmespath::compile(&expr) {
        Err(e) => format!("C {}", err_str(&e)),
        Ok(c) => match c.search(doc.clone()) {
            Ok(r) => format!("ok {}", value_str(&r)),
            Err(e) => err_str(&e),
        },
    })
}

fn main() {
    std::panic::set_hook(Box::new(|_| {}));
    let stream = std::env::args().nth(1).expect("usage: vharness <stream>");
    let stdin = io::stdin();
    let stdout = io::stdout();
    let mut out = stdout.lock();
    for line in stdin.lock().lines() {
        let line = line.unwrap();
        let fields: Vec<&str> = line.split('\t').collect();
        let res = match stream.as_str() {
            "slice" => stream_slice(&fields),
            "parse" => stream_parse(&fields),
            "eval" => stream_eval(&fields),
            s => panic!("unknown stream {}", s),
        };
        writeln!(out, "{}", res).unwrap();
        out.flush().unwrap();
    }
}
