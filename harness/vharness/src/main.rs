//! Executor for the implementation side of the correspondence streams (DESIGN §4.2).
//! `vharness <stream>` reads one case per line on stdin and writes one result line per case,
//! flushing after each so that an abort (stack overflow) is attributable to a case.

mod enc;
mod serde_stream;

use enc::*;
use jmespath::{Rcvar, Variable};
use std::io::{self, BufRead, Write};
use std::panic::{catch_unwind, AssertUnwindSafe};

fn opt_i32(s: &str) -> Option<i32> {
    if s == "-" {
        None
    } else {
        Some(s.parse().unwrap())
    }
}

fn guarded<F: FnOnce() -> String>(f: F) -> String {
    match catch_unwind(AssertUnwindSafe(f)) {
        Ok(s) => s,
        Err(p) => {
            let msg = if let Some(s) = p.downcast_ref::<&str>() {
                s.to_string()
            } else if let Some(s) = p.downcast_ref::<String>() {
                s.clone()
            } else {
                "?".to_string()
            };
            format!("PANIC {}", hex(msg.as_bytes()))
        }
    }
}

/// slice: `len start stop step` → direct `Variable::slice` and end-to-end `[a:b:c]`;
/// index: `len idx` → end-to-end `[idx]`.
fn stream_slice(fields: &[&str]) -> String {
    match fields[0] {
        "slice" => {
            let len: usize = fields[1].parse().unwrap();
            let (a, b, c) = (opt_i32(fields[2]), opt_i32(fields[3]), fields[4].parse::<i32>().unwrap());
            let arr = Rcvar::new(Variable::Array(
                (0..len).map(|i| Rcvar::new(Variable::Number(serde_json::Number::from(i)))).collect(),
            ));
            let show = |v: &[Rcvar]| {
                v.iter().map(|x| x.as_number().unwrap().to_string()).collect::<Vec<_>>().join(",")
            };
            let direct = guarded(|| match arr.slice(a, b, c) {
                Some(v) => format!("ok[{}]", show(&v)),
                None => "null".to_string(),
            });
            let e2e = guarded(|| {
                let s = |o: Option<i32>| o.map_or(String::new(), |v| v.to_string());
                let expr = format!("[{}:{}:{}]", s(a), s(b), c);
                match jmespath::compile(&expr).and_then(|e| e.search(arr.clone())) {
                    Ok(r) => match r.as_array() {
                        Some(v) => format!("ok[{}]", show(v)),
                        None => "null".to_string(),
                    },
                    Err(e) => err_str(&e),
                }
            });
            format!("direct={}\te2e={}", direct, e2e)
        }
        "index" => {
            let len: usize = fields[1].parse().unwrap();
            let idx: i64 = fields[2].parse().unwrap();
            let arr = Rcvar::new(Variable::Array(
                (0..len).map(|i| Rcvar::new(Variable::Number(serde_json::Number::from(i)))).collect(),
            ));
            guarded(|| {
                let expr = format!("[{}]", idx);
                match jmespath::compile(&expr).and_then(|e| e.search(arr.clone())) {
                    Ok(r) => format!("e2e={}", value_str(&r)),
                    Err(e) => format!("e2e={}", err_str(&e)),
                }
            })
        }
        other => format!("BADCASE {}", other),
    }
}

/// parse: `<expr hex>` → `ok <ast>` | `E …`
fn stream_parse(fields: &[&str]) -> String {
    let expr = unhex_str(fields[0]);
    guarded(|| match jmespath::parse(&expr) {
        Ok(ast) => format!("ok {}", ast_str(&ast)),
        Err(e) => err_str(&e),
    })
}

/// eval: `<expr hex>\t<doc value>` → `ok <value>` | `E …` (compile errors are reported as `C E …`)
fn stream_eval(fields: &[&str]) -> String {
    let expr = unhex_str(fields[0]);
    let doc = Rcvar::new(parse_value(fields[1]));
    guarded(|| match jmespath::compile(&expr) {
        Err(e) => format!("C {}", err_str(&e)),
        Ok(c) => match c.search(doc.clone()) {
            Ok(r) => format!("ok {}", value_str(&r)),
            Err(e) => err_str(&e),
        },
    })
}

/// errfmt: `<expr hex>\t<offset>` → `line=<l> col=<c> text=<hex of Display>` for `JmespathError::new(expr, offset, Parse("x"))`
fn stream_errfmt(fields: &[&str]) -> String {
    let expr = unhex_str(fields[0]);
    let offset: usize = fields[1].parse().unwrap();
    guarded(|| {
        let e = jmespath::JmespathError::new(&expr, offset, jmespath::ErrorReason::Parse("x".to_owned()));
        format!("line={} col={} text={}", e.line, e.column, hex(e.to_string().as_bytes()))
    })
}

fn sig_menu(k: usize) -> Option<jmespath::functions::Signature> {
    use jmespath::functions::{ArgumentType as A, Signature};
    match k {
        0 => None,
        1 => Some(Signature::new(vec![A::Any], None)),
        2 => Some(Signature::new(vec![A::Number, A::String], None)),
        3 => Some(Signature::new(vec![A::Expref, A::Array], None)),
        4 => Some(Signature::new(vec![A::Any], Some(A::Any))),
        5 => Some(Signature::new(
            vec![A::Union(vec![A::TypedArray(Box::new(A::Number)), A::TypedArray(Box::new(A::String))])],
            None,
        )),
        7 => Some(Signature::new(vec![A::String], Some(A::String))),
        8 => Some(Signature::new(vec![], Some(A::Number))),
        9 => Some(Signature::new(vec![A::Number], Some(A::Union(vec![A::Number, A::Null])))),
        10 => Some(Signature::new(vec![A::TypedArray(Box::new(A::TypedArray(Box::new(A::Number))))], None)),
        11 => Some(Signature::new(vec![A::TypedArray(Box::new(A::Union(vec![A::String, A::Number])))], None)),
        12 => Some(Signature::new(
            vec![A::TypedArray(Box::new(A::TypedArray(Box::new(A::Union(vec![A::Null, A::String])))))],
            Some(A::TypedArray(Box::new(A::Any))),
        )),
        13 => Some(Signature::new(vec![A::Array], Some(A::String))),
        14 => Some(Signature::new(vec![A::Any, A::Object], Some(A::Number))),
        15 => Some(Signature::new(vec![A::Union(vec![A::Array, A::String])], Some(A::Array))),
        _ => Some(Signature::new(vec![], None)),
    }
}

fn custom_fn(id: u64, sig: usize) -> Box<dyn jmespath::functions::Function> {
    use jmespath::functions::CustomFunction;
    let body = move |args: &[Rcvar], _ctx: &mut jmespath::Context<'_>| -> Result<Rcvar, jmespath::JmespathError> {
        let mut m = std::collections::BTreeMap::new();
        m.insert("args".to_string(), Rcvar::new(Variable::Array(args.to_vec())));
        m.insert("id".to_string(), Rcvar::new(Variable::Number(serde_json::Number::from(id))));
        Ok(Rcvar::new(Variable::Object(m)))
    };
    match sig_menu(sig) {
        Some(s) => Box::new(CustomFunction::new(s, Box::new(body))),
        None => Box::new(body),
    }
}

/// registry: `<ops>\t<doc>\t<expr hex>,<expr hex>,…` with ops `;`-separated: `r:<namehex>:<id>:<sig>`, `d:<namehex>`, `b`
/// → one result per query, `|`-separated
fn stream_registry(fields: &[&str], via_clone: bool, noise: bool) -> String {
    guarded(|| {
        let mut rt = jmespath::Runtime::new();
        for op in fields[0].split(';').filter(|o| !o.is_empty()) {
            let p: Vec<&str> = op.split(':').collect();
            match p[0] {
                "r" => rt.register_function(&unhex_str(p[1]), custom_fn(p[2].parse().unwrap(), p[3].parse().unwrap())),
                "d" => {
                    rt.deregister_function(&unhex_str(p[1]));
                }
                "b" => rt.register_builtin_functions(),
                _ => panic!("bad op"),
            }
        }
        let doc = Rcvar::new(parse_value(fields[1]));
        let mut outs = vec![];
        for q in fields[2].split(',').filter(|q| !q.is_empty()) {
            let expr = unhex_str(q);
            // `registrynoise`: unrelated activity on the shared DEFAULT runtime (the same text compiled and searched there, and one call of every
            // builtin) happens between the steps of the observed history; purity says it cannot matter
            let make_noise = |doc: &Rcvar| {
                if noise {
                    let _ = jmespath::compile(&expr).and_then(|e| e.search(doc.clone()));
                    let _ = jmespath::compile("[abs(`1`), length(@), type(@), to_string(@), not_null(@), keys(`{}`), max(`[1]`), sort_by(`[]`, &@), map(&@, `[]`), sum(`[]`)]")
                        .and_then(|e| e.search(doc.clone()));
                    let _ = jmespath::compile(&expr).and_then(|e| e.search(doc.clone()));
                }
            };
            make_noise(&doc);
            outs.push(match rt.compile(&expr) {
                Err(e) => format!("C {}", err_str(&e)),
                Ok(c) => {
                    // `registryclone`: the search goes through a clone of the compiled expression, the original is dropped first
                    let c = if via_clone {
                        let k = c.clone();
                        drop(c);
                        k
                    } else {
                        c
                    };
                    make_noise(&doc);
                    match c.search(doc.clone()) {
                        Ok(r) => format!("ok {}", value_str(&r)),
                        Err(e) => err_str(&e),
                    }
                }
            });
        }
        outs.join(" | ")
    })
}

/// history: `<docs ';'-separated>\t<ops ';'-separated>`; ops: `c<k>:<exprhex>` compile into slot k, `l<k>:<j>` clone slot j into k,
/// `s<k>:<docidx>` search, `x<k>` drop.  → per op result, then `docs=same|changed`, then `fresh=ok|DIFF@i`
/// run `f` underneath `frames` ordinary caller frames of about 4 KiB each (the library is called from wherever its user happens to be)
#[inline(never)]
fn under_frames<R>(frames: usize, f: &mut dyn FnMut() -> R) -> R {
    let mut pad = [0u8; 4096];
    pad[frames % 4096] = frames as u8;
    std::hint::black_box(&mut pad);
    let r = if frames == 0 { f() } else { under_frames(frames - 1, f) };
    std::hint::black_box(&pad);
    r
}

fn stream_history(fields: &[&str]) -> String {
    guarded(|| {
        let doc_src: Vec<&str> = fields[0].split(';').collect();
        let docs: Vec<Rcvar> = doc_src.iter().map(|d| Rcvar::new(parse_value(d))).collect();
        let mut slots: Vec<Option<jmespath::Expression<'static>>> = (0..8).map(|_| None).collect();
        let mut outs = vec![];
        let mut fresh = "ok".to_string();
        for (i, op) in fields[1].split(';').filter(|o| !o.is_empty()).enumerate() {
            let kind0 = &op[..1];
            let rest: Vec<&str> = op[1..].split(':').collect();
            let k: usize = rest[0].parse().unwrap();
            // `C` / `S` are `c` / `s` performed underneath rest[2] extra caller frames (a deep call stack is not part of the input)
            let frames: usize = if kind0 == "C" || kind0 == "S" { rest[2].parse().unwrap() } else { 0 };
            let kind = if kind0 == "C" { "c" } else if kind0 == "S" { "s" } else { kind0 };
            match kind {
                "c" => match under_frames(frames, &mut || jmespath::compile(&unhex_str(rest[1]))) {
                    Ok(e) => {
                        outs.push(format!("ok {}", ast_str(e.as_ast())));
                        slots[k] = Some(e);
                    }
                    Err(e) => {
                        outs.push(err_str(&e));
                        slots[k] = None;
                    }
                },
                "l" => {
                    let j: usize = rest[1].parse().unwrap();
                    slots[k] = slots[j].clone();
                    outs.push(if slots[k].is_some() { "cloned".into() } else { "empty".into() });
                }
                "x" => {
                    slots[k] = None;
                    outs.push("dropped".into());
                }
                "s" => {
                    let j: usize = rest[1].parse().unwrap();
                    match &slots[k] {
                        None => outs.push("empty".into()),
                        Some(e) => {
                            let r = match under_frames(frames, &mut || e.search(docs[j].clone())) {
                                Ok(r) => format!("ok {}", value_str(&r)),
                                Err(e) => err_str(&e),
                            };
                            // a fresh compile + search on a fresh copy of the document must agree
                            let f = match jmespath::compile(e.as_str()) {
                                Err(e) => err_str(&e),
                                Ok(c) => match c.search(Rcvar::new(parse_value(doc_src[j]))) {
                                    Ok(r) => format!("ok {}", value_str(&r)),
                                    Err(e) => err_str(&e),
                                },
                            };
                            if f != r && fresh == "ok" {
                                fresh = format!("DIFF@{}", i);
                            }
                            outs.push(r);
                        }
                    }
                }
                _ => panic!("bad op"),
            }
        }
        let same = docs.iter().zip(doc_src.iter()).all(|(d, s)| value_str(d) == *s);
        format!("{}\tdocs={}\tfresh={}", outs.join(" | "), if same { "same" } else { "changed" }, fresh)
    })
}

/// json: `<text hex>` → `ok <typed value>\ttext=<hex of to_string>\tid=<same|DIFF>\tvalue=<same|DIFF|n/a>` | `E`
/// id: search "@" on the parsed value; value: conversion to and from serde_json::Value is lossless
fn stream_json(fields: &[&str]) -> String {
    let text = unhex_str(fields[0]);
    guarded(|| match Variable::from_json(&text) {
        Err(_) => "E".to_string(),
        Ok(v) => {
            let rc = Rcvar::new(v);
            let enc = value_str(&rc);
            let printed = rc.to_string();
            let id = match jmespath::compile("@").and_then(|e| e.search(rc.clone())) {
                Ok(r) => {
                    if value_str(&r) == enc && r.to_string() == printed { "same" } else { "DIFF" }
                }
                Err(_) => "DIFF",
            };
            // Variable -> Value -> Variable, and text -> Value -> Variable
            use std::convert::TryFrom;
            let value = match serde_json::to_value(&*rc) {
                Err(_) => "DIFF-to_value".to_string(),
                Ok(val) => match Variable::try_from(&val) {
                    Err(_) => "DIFF-try_from".to_string(),
                    Ok(back) => {
                        let direct = serde_json::from_str::<serde_json::Value>(&text).ok().and_then(|v| Variable::try_from(v).ok());
                        let d_ok = direct.map(|d| value_str(&d) == enc).unwrap_or(false);
                        if value_str(&back) == enc && d_ok { "same".to_string() } else { "DIFF".to_string() }
                    }
                },
            };
            // Variable as a serde `Deserializer`: decoding it into serde_json's generic value must give the same JSON as serialising it
            let deser = {
                use serde::Deserialize;
                match (serde_json::Value::deserialize((*rc).clone()), serde_json::to_value(&*rc)) {
                    (Ok(a), Ok(b)) => if a == b { "same".to_string() } else { "DIFF".to_string() },
                    (Err(_), _) => "ERR".to_string(),
                    _ => "n/a".to_string(),
                }
            };
            let reparsed = match Variable::from_json(&printed) {
                Ok(r) => if value_str(&r) == enc { "same".to_string() } else { format!("DIFF:{}", value_str(&r)) },
                Err(_) => "ERR".to_string(),
            };
            format!("ok {}\ttext={}\tid={}\tvalue={}\tdeser={}\treparse={}", enc, hex(printed.as_bytes()), id, value, deser, reparsed)
        }
    })
}

/// tojm: `<kind>\t<data>` → the value `compile("@").search(input)` sees for an input of the given Rust type
/// (with feature `specialized` the fast-path `ToJmespath` impls convert it, otherwise the generic serde path)
fn stream_tojm(fields: &[&str]) -> String {
    let kind = fields[0];
    let data = fields[1];
    guarded(|| {
        let e = jmespath::compile("@").unwrap();
        fn show(r: Result<Rcvar, jmespath::JmespathError>) -> String {
            match r {
                Ok(v) => format!("ok {}", value_str(&v)),
                Err(_) => "ERR".to_string(),
            }
        }
        macro_rules! int {
            ($t:ty) => {
                show(e.search(data.parse::<$t>().unwrap()))
            };
        }
        match kind {
            "value" => show(e.search(serde_stream::parse_json_value_str(data))),
            "valueref" => {
                let v = serde_stream::parse_json_value_str(data);
                show(e.search(&v))
            }
            "rcvar" => show(e.search(Rcvar::new(parse_value(data)))),
            "rcvarref" => {
                let v = Rcvar::new(parse_value(data));
                show(e.search(&v))
            }
            "variable" => show(e.search(parse_value(data))),
            "variableref" => {
                let v = parse_value(data);
                show(e.search(&v))
            }
            "string" => show(e.search(unhex_str(data))),
            "str" => {
                let s = unhex_str(data);
                show(e.search(s.as_str()))
            }
            "i8" => int!(i8),
            "i16" => int!(i16),
            "i32" => int!(i32),
            "i64" => int!(i64),
            "u8" => int!(u8),
            "u16" => int!(u16),
            "u32" => int!(u32),
            "u64" => int!(u64),
            "isize" => int!(isize),
            "usize" => int!(usize),
            "f32" => show(e.search(f32::from_bits(u32::from_str_radix(data, 16).unwrap()))),
            "f64" => show(e.search(f64::from_bits(u64::from_str_radix(data, 16).unwrap()))),
            "bool" => show(e.search(data == "t")),
            "unit" => show(e.search(())),
            _ => "BADCASE".to_string(),
        }
    })
}

/// compile-time obligations of C16: with `sync`, these types are Send + Sync (checked by rustc on every build)
#[cfg(feature = "sync")]
#[allow(dead_code)]
fn assert_send_sync() {
    fn is<T: Send + Sync>() {}
    is::<jmespath::Expression<'static>>();
    is::<jmespath::Runtime>();
    is::<Variable>();
    is::<Rcvar>();
    is::<jmespath::JmespathError>();
}

/// threads: `<nthreads>\t<exprs hex ','-sep>\t<docs ';'-sep>\t<ops per thread: thread programs '|'-sep, ops ','-sep>`
/// ops: `s<e>:<d>` search shared expression e (compiled on a private leaked Runtime before the threads start) on shared doc d;
///      `c<e>:<d>` compile expression text e through the *default* runtime inside the thread (first use races) and search doc d.
/// All threads start at a barrier. Output: `threads=<per-thread results>\tsequential=<same ops run afterwards on one thread>\t<same|DIFF>`
#[cfg(feature = "sync")]
fn stream_threads(fields: &[&str]) -> String {
    use std::sync::{Arc, Barrier};
    let n: usize = fields[0].parse().unwrap();
    let texts: Vec<String> = fields[1].split(',').filter(|x| !x.is_empty()).map(unhex_str).collect();
    let docs: Vec<Rcvar> = fields[2].split(';').map(|d| Rcvar::new(parse_value(d))).collect();
    let programs: Vec<Vec<String>> =
        fields[3].split('|').map(|p| p.split(',').filter(|x| !x.is_empty()).map(|x| x.to_string()).collect()).collect();
    let fields_rot = fields.len() > 4 && fields[4] == "rot";
    guarded(move || {
        let rt: &'static jmespath::Runtime = {
            use jmespath::functions::{ArgumentType as A, CustomFunction, Signature};
            let mut r = jmespath::Runtime::new();
            r.register_builtin_functions();
            // higher-order custom functions: `ap(&e, x)` / `ap2(&e, x)` evaluate the expression reference on x through the public API
            // (and so re-enter the runtime — and themselves — from inside a custom function); `cf(x…)` just reports its arguments
            for name in ["ap", "ap2"] {
                r.register_function(
                    name,
                    Box::new(CustomFunction::new(
                        Signature::new(vec![A::Expref, A::Any], None),
                        Box::new(|args: &[Rcvar], ctx: &mut jmespath::Context<'_>| {
                            let ast = args[0].as_expref().unwrap().clone();
                            jmespath::Expression::new("<expref>", ast, ctx.runtime).search(args[1].clone())
                        }),
                    )),
                );
            }
            r.register_function(
                "cf",
                Box::new(CustomFunction::new(
                    Signature::new(vec![], Some(A::Any)),
                    Box::new(|args: &[Rcvar], _ctx: &mut jmespath::Context<'_>| Ok(Rcvar::new(Variable::Array(args.to_vec())))),
                )),
            );
            Box::leak(Box::new(r))
        };
        // `rot` (5th field): two phases. Between them the main thread REPLACES every shared compiled expression in place (slot i gets the expression
        // compiled from text i+1) while the workers wait; the same workers then run their programs again against the same slots.
        let rot = fields_rot;
        let shared: Arc<std::sync::RwLock<Vec<Option<jmespath::Expression<'static>>>>> =
            Arc::new(std::sync::RwLock::new(texts.iter().map(|t| rt.compile(t).ok()).collect()));
        let docs = Arc::new(docs);
        let texts = Arc::new(texts);
        fn run_op(
            op: &str,
            shared: &std::sync::RwLock<Vec<Option<jmespath::Expression<'static>>>>,
            texts: &[String],
            docs: &[Rcvar],
        ) -> String {
            let kind = &op[..1];
            let mut it = op[1..].split(':');
            let e: usize = it.next().unwrap().parse().unwrap();
            let d: usize = it.next().unwrap().parse().unwrap();
            let show = |r: Result<Rcvar, jmespath::JmespathError>| match r {
                Ok(v) => format!("ok {}", value_str(&v)),
                Err(e) => err_str(&e),
            };
            match kind {
                "s" => {
                    let g = shared.read().unwrap();
                    let n = g.len();
                    match &g[e % n] {
                        Some(ex) => show(ex.search(docs[d % docs.len()].clone())),
                        None => "uncompiled".to_string(),
                    }
                }
                _ => match jmespath::compile(&texts[e % texts.len()]) {
                    Ok(ex) => show(ex.search(docs[d % docs.len()].clone())),
                    Err(e) => format!("C {}", err_str(&e)),
                },
            }
        }
        let run_prog = |prog: &Vec<String>, shared: &std::sync::RwLock<Vec<Option<jmespath::Expression<'static>>>>, texts: &[String], docs: &[Rcvar]| {
            prog.iter().map(|op| run_op(op, shared, texts, docs)).collect::<Vec<_>>().join(" ; ")
        };
        // in `rot` mode the sequential results of phase 1 are taken before the workers start (the slots change afterwards)
        let mut seq1 = vec![];
        if rot {
            for t in 0..n {
                seq1.push(run_prog(&programs[t % programs.len()], &shared, &texts, &docs));
            }
        }
        let barrier = Arc::new(Barrier::new(n));
        let phase = Arc::new(Barrier::new(n + 1));
        let mut handles = vec![];
        for t in 0..n {
            let prog = programs[t % programs.len()].clone();
            let (shared, texts, docs, barrier, phase) = (shared.clone(), texts.clone(), docs.clone(), barrier.clone(), phase.clone());
            handles.push(std::thread::spawn(move || {
                barrier.wait();
                let a = prog.iter().map(|op| run_op(op, &shared, &texts, &docs)).collect::<Vec<_>>().join(" ; ");
                if !rot {
                    return a;
                }
                phase.wait(); // phase 1 done
                phase.wait(); // slots replaced
                let b = prog.iter().map(|op| run_op(op, &shared, &texts, &docs)).collect::<Vec<_>>().join(" ; ");
                format!("{} ;; {}", a, b)
            }));
        }
        if rot {
            phase.wait();
            {
                let mut g = shared.write().unwrap();
                let k = g.len();
                for i in 0..k {
                    g[i] = rt.compile(&texts[(i + 1) % k]).ok(); // assignment in place: same slot, same address
                }
            }
            phase.wait();
        }
        let mut per_thread = vec![];
        let mut panicked = false;
        for h in handles {
            match h.join() {
                Ok(s) => per_thread.push(s),
                Err(_) => {
                    panicked = true;
                    per_thread.push("THREAD-PANIC".to_string());
                }
            }
        }
        let mut seq = vec![];
        for t in 0..n {
            let prog = &programs[t % programs.len()];
            let b = run_prog(prog, &shared, &texts, &docs);
            seq.push(if rot { format!("{} ;; {}", seq1[t], b) } else { b });
        }
        let same = !panicked && per_thread == seq;
        format!("threads={}\tsequential={}\t{}", per_thread.join(" || "), seq.join(" || "), if same { "same" } else { "DIFF" })
    })
}

#[cfg(not(feature = "sync"))]
fn stream_threads(_fields: &[&str]) -> String {
    "NOSYNC".to_string()
}

fn main() {
    std::panic::set_hook(Box::new(|_| {}));
    let stream = std::env::args().nth(1).expect("usage: vharness <stream>");
    let stdin = io::stdin();
    let stdout = io::stdout();
    let mut out = stdout.lock();
    for line in stdin.lock().lines() {
        let line = line.unwrap();
        let fields: Vec<&str> = line.split('\t').collect();
        let res = match stream.as_str() {
            "slice" => stream_slice(&fields),
            "parse" => stream_parse(&fields),
            "eval" => stream_eval(&fields),
            "errfmt" => stream_errfmt(&fields),
            "registry" => stream_registry(&fields, false, false),
            "registryclone" => stream_registry(&fields, true, false),
            "registrynoise" => stream_registry(&fields, false, true),
            "json" => stream_json(&fields),
            "serde" => serde_stream::stream_serde(&fields),
            "tojm" => stream_tojm(&fields),
            "threads" => stream_threads(&fields),
            "history" => stream_history(&fields),
            s => panic!("unknown stream {}", s),
        };
        writeln!(out, "{}", res).unwrap();
        out.flush().unwrap();
    }
}
