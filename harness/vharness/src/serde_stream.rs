//! `serde` correspondence stream (wire format: serde-protocol.md).
//!
//! * `ser\tSVAL`            → `var=<ENC|ERR>\tjson=<ENC|ERR>`
//! * `de\tTYPEINDEX\tENC`   → `var=<DBG|ERR>\tjson=<DBG|ERR>`
//!
//! `var` goes through the crate under test (`Variable::from_serializable` / `Variable: Deserializer`),
//! `json` through `serde_json::Value` as the reference.

use crate::enc::{enc_number, hex, parse_value, unhex, unhex_str};
use crate::guarded;
use jmespath::Variable;
use serde::ser::{
    SerializeMap, SerializeSeq, SerializeStruct, SerializeStructVariant, SerializeTuple, SerializeTupleStruct,
    SerializeTupleVariant,
};
use serde::{Deserialize, Serialize, Serializer};
use std::collections::BTreeMap;

// ---------------------------------------------------------------- tokens

struct Cur<'a> {
    toks: Vec<&'a str>,
    pos: usize,
}

impl<'a> Cur<'a> {
    fn new(s: &'a str) -> Cur<'a> {
        Cur { toks: s.split(' ').filter(|t| !t.is_empty()).collect(), pos: 0 }
    }
    fn next(&mut self) -> &'a str {
        let t = *self.toks.get(self.pos).expect("unexpected end of tokens");
        self.pos += 1;
        t
    }
    fn peek(&self) -> &'a str {
        self.toks.get(self.pos).expect("unexpected end of tokens")
    }
    fn expect(&mut self, want: &str) {
        let t = self.next();
        if t != want {
            panic!("expected token {} got {}", want, t);
        }
    }
    fn finish(&self) {
        if self.pos != self.toks.len() {
            panic!("trailing tokens");
        }
    }
}

// ---------------------------------------------------------------- ser: the serde data model

type Name = &'static str;

enum SVal {
    Bool(bool),
    I8(i8),
    I16(i16),
    I32(i32),
    I64(i64),
    U8(u8),
    U16(u16),
    U32(u32),
    U64(u64),
    F32(f32),
    F64(f64),
    Char(char),
    Str(String),
    Bytes(Vec<u8>),
    None,
    Some(Box<SVal>),
    Unit,
    UnitStruct(Name),
    UnitVariant(Name, u32, Name),
    NewtypeStruct(Name, Box<SVal>),
    NewtypeVariant(Name, u32, Name, Box<SVal>),
    Seq(Vec<SVal>),
    Tuple(Vec<SVal>),
    TupleStruct(Name, Vec<SVal>),
    TupleVariant(Name, u32, Name, Vec<SVal>),
    Map(Vec<(SVal, SVal)>),
    Struct(Name, Vec<(Name, SVal)>),
    StructVariant(Name, u32, Name, Vec<(Name, SVal)>),
    /// a type whose `Serialize` impl asks the serializer `is_human_readable()` (as `IpAddr`, `uuid`, `chrono` do):
    /// the first form is written for human-readable formats (JSON is one), the second for compact ones
    Hr(Box<SVal>, Box<SVal>),
}

/// serde wants `&'static str` for type / variant / field names.
fn leak_name(c: &mut Cur<'_>) -> Name {
    Box::leak(unhex_str(c.next()).into_boxed_str())
}

fn idx(c: &mut Cur<'_>) -> u32 {
    c.next().parse().expect("variant index")
}

/// `SVAL* )`
fn svals_until_close(c: &mut Cur<'_>) -> Vec<SVal> {
    let mut v = vec![];
    while c.peek() != ")" {
        v.push(parse_sval(c));
    }
    c.next();
    v
}

/// `(FIELD SVAL)* )`
fn fields_until_close(c: &mut Cur<'_>) -> Vec<(Name, SVal)> {
    let mut v = vec![];
    while c.peek() != ")" {
        let f = leak_name(c);
        v.push((f, parse_sval(c)));
    }
    c.next();
    v
}

fn parse_sval(c: &mut Cur<'_>) -> SVal {
    let tok = c.next();
    match tok {
        "none" => SVal::None,
        "unit" => SVal::Unit,
        "(" => {
            let form = c.next();
            match form {
                "some" => {
                    let v = parse_sval(c);
                    c.expect(")");
                    SVal::Some(Box::new(v))
                }
                "hr" => {
                    let a = parse_sval(c);
                    let b = parse_sval(c);
                    c.expect(")");
                    SVal::Hr(Box::new(a), Box::new(b))
                }
                "ustruct" => {
                    let n = leak_name(c);
                    c.expect(")");
                    SVal::UnitStruct(n)
                }
                "uvar" => {
                    let n = leak_name(c);
                    let i = idx(c);
                    let var = leak_name(c);
                    c.expect(")");
                    SVal::UnitVariant(n, i, var)
                }
                "nstruct" => {
                    let n = leak_name(c);
                    let v = parse_sval(c);
                    c.expect(")");
                    SVal::NewtypeStruct(n, Box::new(v))
                }
                "nvar" => {
                    let n = leak_name(c);
                    let i = idx(c);
                    let var = leak_name(c);
                    let v = parse_sval(c);
                    c.expect(")");
                    SVal::NewtypeVariant(n, i, var, Box::new(v))
                }
                "seq" => SVal::Seq(svals_until_close(c)),
                "tuple" => SVal::Tuple(svals_until_close(c)),
                "tstruct" => {
                    let n = leak_name(c);
                    SVal::TupleStruct(n, svals_until_close(c))
                }
                "tvar" => {
                    let n = leak_name(c);
                    let i = idx(c);
                    let var = leak_name(c);
                    SVal::TupleVariant(n, i, var, svals_until_close(c))
                }
                "map" => {
                    let mut v = vec![];
                    while c.peek() != ")" {
                        let k = parse_sval(c);
                        let x = parse_sval(c);
                        v.push((k, x));
                    }
                    c.next();
                    SVal::Map(v)
                }
                "struct" => {
                    let n = leak_name(c);
                    SVal::Struct(n, fields_until_close(c))
                }
                "svar" => {
                    let n = leak_name(c);
                    let i = idx(c);
                    let var = leak_name(c);
                    SVal::StructVariant(n, i, var, fields_until_close(c))
                }
                _ => panic!("bad sval form {}", form),
            }
        }
        _ => {
            let colon = tok.find(':').unwrap_or_else(|| panic!("bad sval token {}", tok));
            let (k, rest) = (&tok[..colon], &tok[colon + 1..]);
            match k {
                "b" => match rest {
                    "t" => SVal::Bool(true),
                    "f" => SVal::Bool(false),
                    _ => panic!("bad bool {}", tok),
                },
                "i8" => SVal::I8(rest.parse().expect("i8")),
                "i16" => SVal::I16(rest.parse().expect("i16")),
                "i32" => SVal::I32(rest.parse().expect("i32")),
                "i64" => SVal::I64(rest.parse().expect("i64")),
                "u8" => SVal::U8(rest.parse().expect("u8")),
                "u16" => SVal::U16(rest.parse().expect("u16")),
                "u32" => SVal::U32(rest.parse().expect("u32")),
                "u64" => SVal::U64(rest.parse().expect("u64")),
                "f32" => SVal::F32(f32::from_bits(u32::from_str_radix(rest, 16).expect("f32 bits"))),
                "f64" => SVal::F64(f64::from_bits(u64::from_str_radix(rest, 16).expect("f64 bits"))),
                "c" => SVal::Char(std::char::from_u32(rest.parse().expect("char code")).expect("unicode scalar value")),
                "s" => SVal::Str(unhex_str(rest)),
                "y" => SVal::Bytes(unhex(rest)),
                _ => panic!("bad sval token {}", tok),
            }
        }
    }
}

impl Serialize for SVal {
    fn serialize<S: Serializer>(&self, s: S) -> Result<S::Ok, S::Error> {
        match self {
            SVal::Bool(v) => s.serialize_bool(*v),
            SVal::I8(v) => s.serialize_i8(*v),
            SVal::I16(v) => s.serialize_i16(*v),
            SVal::I32(v) => s.serialize_i32(*v),
            SVal::I64(v) => s.serialize_i64(*v),
            SVal::U8(v) => s.serialize_u8(*v),
            SVal::U16(v) => s.serialize_u16(*v),
            SVal::U32(v) => s.serialize_u32(*v),
            SVal::U64(v) => s.serialize_u64(*v),
            SVal::F32(v) => s.serialize_f32(*v),
            SVal::F64(v) => s.serialize_f64(*v),
            SVal::Char(v) => s.serialize_char(*v),
            SVal::Str(v) => s.serialize_str(v),
            SVal::Bytes(v) => s.serialize_bytes(v),
            SVal::None => s.serialize_none(),
            SVal::Some(v) => s.serialize_some(&**v),
            SVal::Hr(a, b) => {
                if s.is_human_readable() {
                    a.serialize(s)
                } else {
                    b.serialize(s)
                }
            }
            SVal::Unit => s.serialize_unit(),
            SVal::UnitStruct(n) => s.serialize_unit_struct(n),
            SVal::UnitVariant(n, i, var) => s.serialize_unit_variant(n, *i, var),
            SVal::NewtypeStruct(n, v) => s.serialize_newtype_struct(n, &**v),
            SVal::NewtypeVariant(n, i, var, v) => s.serialize_newtype_variant(n, *i, var, &**v),
            SVal::Seq(v) => {
                let mut q = s.serialize_seq(Some(v.len()))?;
                for e in v {
                    q.serialize_element(e)?;
                }
                q.end()
            }
            SVal::Tuple(v) => {
                let mut q = s.serialize_tuple(v.len())?;
                for e in v {
                    q.serialize_element(e)?;
                }
                q.end()
            }
            SVal::TupleStruct(n, v) => {
                let mut q = s.serialize_tuple_struct(n, v.len())?;
                for e in v {
                    q.serialize_field(e)?;
                }
                q.end()
            }
            SVal::TupleVariant(n, i, var, v) => {
                let mut q = s.serialize_tuple_variant(n, *i, var, v.len())?;
                for e in v {
                    q.serialize_field(e)?;
                }
                q.end()
            }
            SVal::Map(v) => {
                let mut m = s.serialize_map(Some(v.len()))?;
                for (k, x) in v {
                    m.serialize_key(k)?;
                    m.serialize_value(x)?;
                }
                m.end()
            }
            SVal::Struct(n, v) => {
                let mut m = s.serialize_struct(n, v.len())?;
                for (f, x) in v {
                    m.serialize_field(f, x)?;
                }
                m.end()
            }
            SVal::StructVariant(n, i, var, v) => {
                let mut m = s.serialize_struct_variant(n, *i, var, v.len())?;
                for (f, x) in v {
                    m.serialize_field(f, x)?;
                }
                m.end()
            }
        }
    }
}

// ---------------------------------------------------------------- serde_json::Value <-> typed encoding

fn enc_json(v: &serde_json::Value, out: &mut Vec<String>) {
    use serde_json::Value;
    match v {
        Value::Null => out.push("n".into()),
        Value::Bool(true) => out.push("t".into()),
        Value::Bool(false) => out.push("f".into()),
        Value::Number(n) => enc_number(n, out),
        Value::String(s) => out.push(format!("s{}", hex(s.as_bytes()))),
        Value::Array(a) => {
            out.push("[".into());
            for e in a {
                enc_json(e, out);
            }
            out.push("]".into());
        }
        Value::Object(m) => {
            // serde_json's default Map is a BTreeMap: iteration is in key order.
            out.push("{".into());
            for (k, e) in m {
                out.push(format!("s{}", hex(k.as_bytes())));
                enc_json(e, out);
            }
            out.push("}".into());
        }
    }
}

/// Same text as `enc::value_str` produces for the corresponding `Variable`.
fn value_enc(v: &serde_json::Value) -> String {
    let mut out = vec![];
    enc_json(v, &mut out);
    out.join(" ")
}

fn dec_json(t: &mut Cur<'_>) -> serde_json::Value {
    use serde_json::{Number, Value};
    let tok = t.next();
    let (h, rest) = tok.split_at(1);
    match h {
        "n" => Value::Null,
        "t" => Value::Bool(true),
        "f" => Value::Bool(false),
        "i" => Value::Number(Number::from(rest.parse::<i64>().unwrap())),
        "u" => Value::Number(Number::from(rest.parse::<u64>().unwrap())),
        "d" => Value::Number(
            Number::from_f64(f64::from_bits(u64::from_str_radix(rest, 16).unwrap())).expect("finite double"),
        ),
        "s" => Value::String(unhex_str(rest)),
        "[" => {
            let mut v = vec![];
            while t.peek() != "]" {
                v.push(dec_json(t));
            }
            t.next();
            Value::Array(v)
        }
        "{" => {
            let mut m = serde_json::Map::new();
            while t.peek() != "}" {
                let k = t.next();
                let key = unhex_str(&k[1..]);
                let v = dec_json(t);
                m.insert(key, v);
            }
            t.next();
            Value::Object(m)
        }
        _ => panic!("bad value token {}", tok),
    }
}

pub fn parse_json_value_str(s: &str) -> serde_json::Value {
    parse_json_value(s)
}

fn parse_json_value(s: &str) -> serde_json::Value {
    let mut c = Cur::new(s);
    let v = dec_json(&mut c);
    c.finish();
    v
}

// ---------------------------------------------------------------- de: concrete target types

#[derive(Deserialize, Debug, PartialEq)]
struct P {
    a: i32,
    b: String,
}

#[derive(Deserialize, Debug, PartialEq)]
struct Q {
    x: Option<u8>,
    y: Vec<P>,
    z: (i64, bool),
}

#[derive(Deserialize, Debug, PartialEq)]
struct N(i16);

#[derive(Deserialize, Debug, PartialEq)]
struct T2(i32, i32);

#[derive(Deserialize, Debug, PartialEq)]
struct U;

#[derive(Deserialize, Debug, PartialEq)]
enum E {
    A,
    B(i32),
    C(i32, String),
    D { p: u8, q: Option<bool> },
}

/// enums that accept variant names OUTSIDE serde's static `variants` list (a catch-all, an alias): a decoder must hand the name to the visitor, not
/// look it up in that list itself (harness-only types: judged against serde_json alone, the model does not know them)
#[derive(Deserialize, Debug, PartialEq)]
enum G {
    Known,
    #[serde(other)]
    Unknown,
}

#[derive(Deserialize, Debug, PartialEq)]
enum H {
    #[serde(alias = "b")]
    B(i32),
    A,
    #[serde(other)]
    Rest,
}

/// newtype variants whose payload can itself be null (an enum decoder that looks at the payload to decide "unit variant" gets these wrong)
#[derive(Deserialize, Debug, PartialEq)]
enum F {
    O(Option<i32>),
    U(()),
    S(U),
    V(Vec<i32>),
    X,
}

#[derive(Deserialize, Debug, PartialEq)]
struct W {
    e: E,
    n: N,
    u: U,
    o: Option<P>,
}

// ---------------------------------------------------------------- DBG rendering

trait Dbg {
    fn dbg(&self, out: &mut Vec<String>);
}

fn open(out: &mut Vec<String>, head: &str) {
    out.push("(".into());
    out.push(head.into());
}

fn close(out: &mut Vec<String>) {
    out.push(")".into());
}

macro_rules! dbg_int {
    ($($t:ty)*) => {$(
        impl Dbg for $t {
            fn dbg(&self, out: &mut Vec<String>) {
                out.push(self.to_string());
            }
        }
    )*};
}
dbg_int!(i8 i16 i32 i64 u8 u16 u32 u64);

impl Dbg for bool {
    fn dbg(&self, out: &mut Vec<String>) {
        out.push(if *self { "t" } else { "f" }.into());
    }
}

impl Dbg for f64 {
    fn dbg(&self, out: &mut Vec<String>) {
        out.push(format!("d{:016x}", self.to_bits()));
    }
}

impl Dbg for f32 {
    fn dbg(&self, out: &mut Vec<String>) {
        out.push(format!("e{:08x}", self.to_bits()));
    }
}

impl Dbg for char {
    fn dbg(&self, out: &mut Vec<String>) {
        out.push(format!("c{}", *self as u32));
    }
}

impl Dbg for String {
    fn dbg(&self, out: &mut Vec<String>) {
        out.push(format!("s{}", hex(self.as_bytes())));
    }
}

impl Dbg for () {
    fn dbg(&self, out: &mut Vec<String>) {
        out.push("unit".into());
    }
}

impl<T: Dbg> Dbg for Option<T> {
    fn dbg(&self, out: &mut Vec<String>) {
        match self {
            None => out.push("none".into()),
            Some(x) => {
                open(out, "some");
                x.dbg(out);
                close(out);
            }
        }
    }
}

impl<T: Dbg> Dbg for Vec<T> {
    fn dbg(&self, out: &mut Vec<String>) {
        open(out, "seq");
        for x in self {
            x.dbg(out);
        }
        close(out);
    }
}

impl<A: Dbg> Dbg for (A,) {
    fn dbg(&self, out: &mut Vec<String>) {
        open(out, "seq");
        self.0.dbg(out);
        close(out);
    }
}

impl<A: Dbg, B: Dbg> Dbg for (A, B) {
    fn dbg(&self, out: &mut Vec<String>) {
        open(out, "seq");
        self.0.dbg(out);
        self.1.dbg(out);
        close(out);
    }
}

impl<A: Dbg, B: Dbg, C: Dbg> Dbg for (A, B, C) {
    fn dbg(&self, out: &mut Vec<String>) {
        open(out, "seq");
        self.0.dbg(out);
        self.1.dbg(out);
        self.2.dbg(out);
        close(out);
    }
}

impl<T: Dbg> Dbg for BTreeMap<String, T> {
    fn dbg(&self, out: &mut Vec<String>) {
        open(out, "map");
        for (k, x) in self {
            k.dbg(out);
            x.dbg(out);
        }
        close(out);
    }
}

/// a map keyed by a derived newtype struct over String (JSON object keys are strings; the newtype is transparent)
#[derive(Deserialize, Debug, PartialEq, Eq, PartialOrd, Ord)]
struct UserId(String);

impl<T: Dbg> Dbg for BTreeMap<UserId, T> {
    fn dbg(&self, out: &mut Vec<String>) {
        open(out, "map");
        for (k, x) in self {
            k.0.dbg(out);
            x.dbg(out);
        }
        close(out);
    }
}

impl Dbg for P {
    fn dbg(&self, out: &mut Vec<String>) {
        open(out, "struct");
        self.a.dbg(out);
        self.b.dbg(out);
        close(out);
    }
}

impl Dbg for Q {
    fn dbg(&self, out: &mut Vec<String>) {
        open(out, "struct");
        self.x.dbg(out);
        self.y.dbg(out);
        self.z.dbg(out);
        close(out);
    }
}

impl Dbg for N {
    fn dbg(&self, out: &mut Vec<String>) {
        open(out, "newtype");
        self.0.dbg(out);
        close(out);
    }
}

impl Dbg for T2 {
    fn dbg(&self, out: &mut Vec<String>) {
        open(out, "seq");
        self.0.dbg(out);
        self.1.dbg(out);
        close(out);
    }
}

impl Dbg for U {
    fn dbg(&self, out: &mut Vec<String>) {
        out.push("ustruct".into());
    }
}

impl Dbg for G {
    fn dbg(&self, out: &mut Vec<String>) {
        open(out, "var");
        out.push(hex(match self {
            G::Known => b"Known".as_ref(),
            G::Unknown => b"Unknown".as_ref(),
        }));
        close(out);
    }
}

impl Dbg for H {
    fn dbg(&self, out: &mut Vec<String>) {
        open(out, "var");
        match self {
            H::B(x) => {
                out.push(hex(b"B"));
                x.dbg(out);
            }
            H::A => out.push(hex(b"A")),
            H::Rest => out.push(hex(b"Rest")),
        }
        close(out);
    }
}

impl Dbg for F {
    fn dbg(&self, out: &mut Vec<String>) {
        open(out, "var");
        match self {
            F::O(x) => {
                out.push(hex(b"O"));
                x.dbg(out);
            }
            F::U(x) => {
                out.push(hex(b"U"));
                x.dbg(out);
            }
            F::S(x) => {
                out.push(hex(b"S"));
                x.dbg(out);
            }
            F::V(x) => {
                out.push(hex(b"V"));
                x.dbg(out);
            }
            F::X => out.push(hex(b"X")),
        }
        close(out);
    }
}

impl Dbg for E {
    fn dbg(&self, out: &mut Vec<String>) {
        open(out, "var");
        match self {
            E::A => out.push(hex(b"A")),
            E::B(x) => {
                out.push(hex(b"B"));
                x.dbg(out);
            }
            E::C(x, y) => {
                out.push(hex(b"C"));
                open(out, "seq");
                x.dbg(out);
                y.dbg(out);
                close(out);
            }
            E::D { p, q } => {
                out.push(hex(b"D"));
                open(out, "struct");
                p.dbg(out);
                q.dbg(out);
                close(out);
            }
        }
        close(out);
    }
}

impl Dbg for W {
    fn dbg(&self, out: &mut Vec<String>) {
        open(out, "struct");
        self.e.dbg(out);
        self.n.dbg(out);
        self.u.dbg(out);
        self.o.dbg(out);
        close(out);
    }
}

fn dbg_str<T: Dbg>(x: &T) -> String {
    let mut out = vec![];
    x.dbg(&mut out);
    out.join(" ")
}

// ---------------------------------------------------------------- the two case kinds

fn run<T: for<'de> Deserialize<'de> + Dbg>(var: Variable, val: serde_json::Value) -> String {
    let v = guarded(move || {
        let r: Result<T, _> = Deserialize::deserialize(var);
        match r {
            Ok(x) => dbg_str(&x),
            Err(_) => "ERR".to_string(),
        }
    });
    let j = guarded(move || match serde_json::from_value::<T>(val) {
        Ok(x) => dbg_str(&x),
        Err(_) => "ERR".to_string(),
    });
    format!("var={}\tjson={}", v, j)
}

fn case_ser(fields: &[&str]) -> String {
    let mut c = Cur::new(fields[1]);
    let sval = parse_sval(&mut c);
    c.finish();
    let v = guarded(|| match Variable::from_serializable(&sval) {
        Ok(x) => crate::enc::value_str(&x),
        Err(_) => "ERR".to_string(),
    });
    let j = guarded(|| match serde_json::to_value(&sval) {
        Ok(x) => value_enc(&x),
        Err(_) => "ERR".to_string(),
    });
    format!("var={}\tjson={}", v, j)
}

fn case_de(fields: &[&str]) -> String {
    let ty: usize = match fields[1].parse() {
        Ok(t) => t,
        Err(_) => return format!("BADCASE de {}", fields[1]),
    };
    if ty > 38 {
        return format!("BADCASE de {}", ty);
    }
    let var = parse_value(fields[2]);
    let val = parse_json_value(fields[2]);
    match ty {
        0 => run::<bool>(var, val),
        1 => run::<i8>(var, val),
        2 => run::<i16>(var, val),
        3 => run::<i32>(var, val),
        4 => run::<i64>(var, val),
        5 => run::<u8>(var, val),
        6 => run::<u16>(var, val),
        7 => run::<u32>(var, val),
        8 => run::<u64>(var, val),
        9 => run::<f32>(var, val),
        10 => run::<f64>(var, val),
        11 => run::<char>(var, val),
        12 => run::<String>(var, val),
        13 => run::<()>(var, val),
        14 => run::<Option<i32>>(var, val),
        15 => run::<Vec<i64>>(var, val),
        16 => run::<Vec<Option<String>>>(var, val),
        17 => run::<(i32, i32)>(var, val),
        18 => run::<(u8, String, f64)>(var, val),
        19 => run::<BTreeMap<String, i32>>(var, val),
        20 => run::<P>(var, val),
        21 => run::<Q>(var, val),
        22 => run::<N>(var, val),
        23 => run::<T2>(var, val),
        24 => run::<U>(var, val),
        25 => run::<E>(var, val),
        26 => run::<Option<E>>(var, val),
        27 => run::<Vec<E>>(var, val),
        28 => run::<BTreeMap<String, Vec<T2>>>(var, val),
        29 => run::<Option<()>>(var, val),
        30 => run::<(i32,)>(var, val),
        31 => run::<Vec<(String, bool)>>(var, val),
        32 => run::<W>(var, val),
        33 => run::<F>(var, val),
        34 => run::<Vec<F>>(var, val),
        35 => run::<BTreeMap<UserId, i32>>(var, val),
        36 => run::<G>(var, val),
        37 => run::<Vec<H>>(var, val),
        38 => run::<BTreeMap<String, G>>(var, val),
        _ => unreachable!(),
    }
}

pub fn stream_serde(fields: &[&str]) -> String {
    guarded(|| match fields[0] {
        "ser" if fields.len() >= 2 => case_ser(fields),
        "de" if fields.len() >= 3 => case_de(fields),
        other => format!("BADCASE {}", other),
    })
}
