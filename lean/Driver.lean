import JmesVerif.Model.Slice
import JmesVerif.Spec.PySlice
import JmesVerif.Model.Encode
import JmesVerif.Spec.GrammarCheck
import JmesVerif.Model.Interp
import JmesVerif.Spec.Paren
import JmesVerif.Spec.Sem
/-!
Line-protocol driver for the model side of the correspondence streams (DESIGN §4.2).
`jmdriver <stream>` reads one case per line on stdin and writes one result line per case.
It runs the same definitions the theorems are about (and, next to them, the specification
functions the theorems relate them to, so the check has the property's own oracle at hand).
-/
open JmesVerif

def optInt (s : String) : Option Int := if s == "-" then none else s.toInt?

def showIdx (xs : List Nat) : String := "[" ++ ",".intercalate (xs.map toString) ++ "]"

def faultName : Fault → String
  | .overflow => "overflow" | .outOfBounds => "oob" | .fuel => "fuel"

def streamSlice (fields : List String) : String :=
  match fields with
  | ["slice", len, a, b, c] =>
    match len.toNat?, c.toInt? with
    | some n, some step =>
      let xs := List.range n
      let m := match sliceList xs (optInt a) (optInt b) step with
        | .ok r => "ok" ++ showIdx r
        | .error f => "FAULT " ++ faultName f
      let spec := "ok" ++ showIdx (Spec.pySlice xs (optInt a) (optInt b) step)
      s!"model={m}\tspec={spec}"
    | _, _ => "BADCASE"
  | ["index", len, i] =>
    match len.toNat?, i.toInt? with
    | some n, some idx =>
      let xs := List.range n
      let sh : Option Nat → String := fun o => match o with | some k => s!"u{k}" | none => "n"
      s!"model={sh (indexList xs idx)}\tspec={sh (Spec.pyIndex xs idx)}"
    | _, _ => "BADCASE"
  | _ => "BADCASE"

def lexKind : LexErrKind → String
  | .invalidChar => "invalid-char" | .loneEq => "lone-eq" | .minus => "minus" | .number => "number"
  | .unclosed => "unclosed" | .quoted => "quoted" | .literal => "literal"

def compileErrStr : CompileErr → String
  | .lex e => s!"E parse lex={lexKind e.kind} off={e.pos}"
  | .parse .fuel => "FAULT fuel"
  | .parse (.at p) => s!"E parse syn off={p}"

/-- the statement of theorem T1 evaluated on one concrete successful parse (self-check) -/
def t1Check (ts : List PT) (e : Expr) (a : Ast) : String :=
  let want := (ts.map (fun t => GrammarCheck.tokStr t.2))
  let got := (e.toks ++ [Tok.eof]).map GrammarCheck.tokStr
  if want != got then "FAIL:yield"
  else if !GrammarCheck.exprLegalB 0 e then "FAIL:legal"
  else if Enc.astStr a.strip != Enc.astStr e.ast then "FAIL:ast"
  else "ok"

/-- parse: `<expr hex>` → `ok <ast>\tt1=…\tdev=f3,f4,f5,f16` | `E parse …` -/
def streamParse (fields : List String) : String :=
  match fields with
  | [h] =>
    let cs := (Enc.unhexStr h).toList
    match tokenize cs with
    | .error e => compileErrStr (.lex e)
    | .ok ts =>
      match parseTokens ts with
      | .error e => compileErrStr (.parse e)
      | .ok (e, a) =>
        let d := GrammarCheck.exprDev false e
        let par := Enc.hexStr (Paren.spell (Paren.parenthesize e))
        let resp := Enc.hexStr (Paren.spell e)
        s!"ok {Enc.astStr a}\tt1={t1Check ts e a}\tdev={d.f3},{d.f4},{d.f5},{d.f16}\tpar={par}\tresp={resp}"
  | _ => "BADCASE"

def rtErrStr : RtErr → String
  | .invalidSlice => "invalid-slice"
  | .tooMany e a => s!"too-many exp={e} act={a}"
  | .notEnough e a => s!"not-enough exp={e} act={a}"
  | .unknownFunction n => s!"unknown-function name={Enc.hexStr n}"
  | .invalidType e a p => s!"invalid-type exp={Enc.hexStr e} act={Enc.hexStr a} pos={p}"
  | .invalidReturnType e a p i => s!"invalid-return-type exp={Enc.hexStr e} act={Enc.hexStr a} pos={p} inv={i}"

def evalErrStr : EvalErr → String
  | .runtime e off => s!"E runtime {rtErrStr e} off={off}"
  | .internal _ => "E parse parse off=0 internal"
  | .panic m => s!"PANIC {m}"
  | .fuel => "FAULT fuel"

def evalFuel : Nat := 3000

/-- eval: `<expr hex>\t<doc>` → `ok <value>` | `C E parse …` | `E …` -/
def streamEval (fields : List String) : String :=
  match fields with
  | [h, d] =>
    match Enc.parseVal d with
    | none => "BADCASE doc"
    | some doc =>
      match parseExpr (Enc.unhexStr h).toList with
      | .error e => "C " ++ compileErrStr e
      | .ok (e, a) =>
        let res := search Registry.default evalFuel a doc
        -- the statement of C01_conformance evaluated on this case (core expressions only)
        let semTag :=
          if Sem.exprCore e then
            match Sem.expr doc e, res with
            | some v, .ok v' => if Enc.valStr v == Enc.valStr v' then "ok" else "DIFF:" ++ Enc.valStr v
            | none, .error (.runtime .invalidSlice _) => "ok"
            | some v, _ => "DIFF:" ++ Enc.valStr v
            | none, _ => "DIFF:invalid-slice"
          else "n/a"
        match res with
        | .ok v => "ok " ++ Enc.valStr v ++ "\tsem=" ++ semTag
        | .error e => evalErrStr e ++ "\tsem=" ++ semTag
  | _ => "BADCASE"

partial def loop (h : IO.FS.Stream) (out : IO.FS.Stream) (f : List String → String) : IO Unit := do
  let line ← h.getLine
  if line.isEmpty then return ()
  let line := if line.endsWith "\n" then (line.dropEnd 1).toString else line
  out.putStrLn (f (line.splitOn "\t"))
  loop h out f

def main (args : List String) : IO UInt32 := do
  let stdin ← IO.getStdin
  let stdout ← IO.getStdout
  match args with
  | ["slice"] => loop stdin stdout streamSlice; return 0
  | ["parse"] => loop stdin stdout streamParse; return 0
  | ["eval"] => loop stdin stdout streamEval; return 0
  | _ => IO.eprintln "usage: jmdriver <stream>"; return 2
