import JmesVerif.Model.Slice
import JmesVerif.Spec.PySlice
import JmesVerif.Model.Encode
import JmesVerif.Spec.GrammarCheck
import JmesVerif.Model.Interp
import JmesVerif.Spec.Paren
import JmesVerif.Spec.Sem
import JmesVerif.Model.Errors
import JmesVerif.Model.Registry
import JmesVerif.Model.SerdeWire
import JmesVerif.Model.Convert
import JmesVerif.Model.Threads
import JmesVerif.Model.Cli
/-!
Line-protocol driver for the model side of the correspondence streams (DESIGN §4.2).
`jmdriver <stream>` reads one case per line on stdin and writes one result line per case.
It runs the same definitions the theorems are about (and, next to them, the specification
functions the theorems relate them to, so the check has the property's own oracle at hand).
-/
open JmesVerif

def optInt (s : String) : Option Int := if s == "-" then none else s.toInt?

def showIdx (xs : List Nat) : String := "[" ++ ",".intercalate (xs.map toString) ++ "]"

def faultName : Fault → String
  | .overflow => "overflow" | .outOfBounds => "oob" | .fuel => "fuel"

def streamSlice (fields : List String) : String :=
  match fields with
  | ["slice", len, a, b, c] =>
    match len.toNat?, c.toInt? with
    | some n, some step =>
      let xs := List.range n
      let m := match sliceList xs (optInt a) (optInt b) step with
        | .ok r => "ok" ++ showIdx r
        | .error f => "FAULT " ++ faultName f
      let spec := "ok" ++ showIdx (Spec.pySlice xs (optInt a) (optInt b) step)
      s!"model={m}\tspec={spec}"
    | _, _ => "BADCASE"
  | ["index", len, i] =>
    match len.toNat?, i.toInt? with
    | some n, some idx =>
      let xs := List.range n
      let sh : Option Nat → String := fun o => match o with | some k => s!"u{k}" | none => "n"
      s!"model={sh (indexList xs idx)}\tspec={sh (Spec.pyIndex xs idx)}"
    | _, _ => "BADCASE"
  | _ => "BADCASE"

def lexKind : LexErrKind → String
  | .invalidChar => "invalid-char" | .loneEq => "lone-eq" | .minus => "minus" | .number => "number"
  | .unclosed => "unclosed" | .quoted => "quoted" | .literal => "literal"

def compileErrStr : CompileErr → String
  | .lex e => s!"E parse lex={lexKind e.kind} off={e.pos}"
  | .parse .fuel => "FAULT fuel"
  | .parse (.at p) => s!"E parse syn off={p}"

/-- the statement of theorem T1 evaluated on one concrete successful parse (self-check) -/
def t1Check (ts : List PT) (e : Expr) (a : Ast) : String :=
  let want := (ts.map (fun t => GrammarCheck.tokStr t.2))
  let got := (e.toks ++ [Tok.eof]).map GrammarCheck.tokStr
  if want != got then "FAIL:yield"
  else if !GrammarCheck.exprLegalB 0 e then "FAIL:legal"
  else if Enc.astStr a.strip != Enc.astStr e.ast then "FAIL:ast"
  else "ok"

/-- parse: `<expr hex>` → `ok <ast>\tt1=…\tdev=f3,f4,f5,f16` | `E parse …` -/
def streamParse (fields : List String) : String :=
  match fields with
  | [h] =>
    let cs := (Enc.unhexStr h).toList
    match tokenize cs with
    | .error e => compileErrStr (.lex e)
    | .ok ts =>
      match parseTokens ts with
      | .error e => compileErrStr (.parse e)
      | .ok (e, a) =>
        let d := GrammarCheck.exprDev false e
        let par := Enc.hexStr (Paren.spell (Paren.parenthesize e))
        let resp := Enc.hexStr (Paren.spell e)
        s!"ok {Enc.astStr a}\tt1={t1Check ts e a}\tdev={d.f3},{d.f4},{d.f5},{d.f16}\tpar={par}\tresp={resp}"
  | _ => "BADCASE"

def rtErrStr : RtErr → String
  | .invalidSlice => "invalid-slice"
  | .tooMany e a => s!"too-many exp={e} act={a}"
  | .notEnough e a => s!"not-enough exp={e} act={a}"
  | .unknownFunction n => s!"unknown-function name={Enc.hexStr n}"
  | .invalidType e a p => s!"invalid-type exp={Enc.hexStr e} act={Enc.hexStr a} pos={p}"
  | .invalidReturnType e a p i => s!"invalid-return-type exp={Enc.hexStr e} act={Enc.hexStr a} pos={p} inv={i}"

def evalErrStr : EvalErr → String
  | .runtime e off => s!"E runtime {rtErrStr e} off={off}"
  | .internal _ => "E parse parse off=0 internal"
  | .panic m => s!"PANIC {m}"
  | .fuel => "FAULT fuel"

def evalFuel : Nat := 20000

/-- eval: `<expr hex>\t<doc>` → `ok <value>` | `C E parse …` | `E …` -/
def streamEval (fields : List String) : String :=
  match fields with
  | [h, d] =>
    match Enc.parseVal d with
    | none => "BADCASE doc"
    | some doc =>
      match parseExpr (Enc.unhexStr h).toList with
      | .error e => "C " ++ compileErrStr e
      | .ok (e, a) =>
        let res := search Registry.default evalFuel a doc
        -- the statement of C01_conformance evaluated on this case (core expressions only)
        let semTag :=
          if Sem.exprCore e then
            match Sem.expr doc e, res with
            | some v, .ok v' => if Enc.valStr v == Enc.valStr v' then "ok" else "DIFF:" ++ Enc.valStr v
            | none, .error (.runtime .invalidSlice _) => "ok"
            | some v, _ => "DIFF:" ++ Enc.valStr v
            | none, _ => "DIFF:invalid-slice"
          else "n/a"
        match res with
        | .ok v => "ok " ++ Enc.valStr v ++ "\tsem=" ++ semTag
        | .error e => evalErrStr e ++ "\tsem=" ++ semTag
  | _ => "BADCASE"

/-- errfmt: `<expr hex>\t<offset>` → line, column, rendered message of a parse error with reason "x" -/
def streamErrfmt (fields : List String) : String :=
  match fields with
  | [h, o] =>
    match o.toNat? with
    | some off =>
      let cs := (Enc.unhexStr h).toList
      let (l, c) := Errors.lineCol cs off
      let sl := (Spec.lineOf (Spec.charsBefore cs 0 off), Spec.colOf (Spec.charsBefore cs 0 off))
      s!"line={l} col={c} text={Enc.hexStr (Errors.render "Parse error: x" cs l c)}\tspec={sl.1},{sl.2}"
    | none => "BADCASE"
  | _ => "BADCASE"

def sigMenu (k : Nat) : Option Sig :=
  match k with
  | 0 => none
  | 1 => some ⟨[.any], none⟩
  | 2 => some ⟨[.number, .string], none⟩
  | 3 => some ⟨[.expref, .array], none⟩
  | 4 => some ⟨[.any], some .any⟩
  | 5 => some ⟨[.union [.typedArray .number, .typedArray .string]], none⟩
  | 7 => some ⟨[.string], some .string⟩
  | 8 => some ⟨[], some .number⟩
  | 9 => some ⟨[.number], some (.union [.number, .null])⟩
  | 10 => some ⟨[.typedArray (.typedArray .number)], none⟩
  | 11 => some ⟨[.typedArray (.union [.string, .number])], none⟩
  | 12 => some ⟨[.typedArray (.typedArray (.union [.null, .string]))], some (.typedArray .any)⟩
  | 13 => some ⟨[.array], some .string⟩
  | 14 => some ⟨[.any, .object], some .number⟩
  | 15 => some ⟨[.union [.array, .string]], some .array⟩
  | _ => some ⟨[], none⟩

def parseRegOp (s : String) : Option RegOp :=
  match s.splitOn ":" with
  | ["r", n, id, sg] =>
    match id.toNat?, sg.toNat? with
    | some i, some k => some (.register (Enc.unhexStr n) (.custom i (sigMenu k)))
    | _, _ => none
  | ["d", n] => some (.deregister (Enc.unhexStr n))
  | ["b"] => some .registerBuiltins
  | _ => none

def queryStr (rt : Registry) (expr : String) (doc : Val) : String :=
  match query rt evalFuel expr.toList doc with
  | .compileErr e => "C " ++ compileErrStr e
  | .result (.ok v) => "ok " ++ Enc.valStr v
  | .result (.error e) => evalErrStr e

/-- registry: `<ops>\t<doc>\t<queries>` → results `|`-separated -/
def streamRegistry (fields : List String) : String :=
  match fields with
  | [ops, d, qs] =>
    match Enc.parseVal d with
    | none => "BADCASE doc"
    | some doc =>
      let ops := ((ops.splitOn ";").filter (· ≠ "")).filterMap parseRegOp
      let rt := Registry.run ops
      " | ".intercalate (((qs.splitOn ",").filter (· ≠ "")).map fun q => queryStr rt (Enc.unhexStr q) doc)
  | _ => "BADCASE"

def parseHistOp (s : String) : Option HistOp :=
  let kind := (s.take 1).toString
  match ((s.drop 1).toString).splitOn ":" with
  | [k] =>
    match k.toNat? with
    | some k => if kind == "x" then some (.drop k) else none
    | none => none
  | [k, r] =>
    match k.toNat? with
    | some k =>
      if kind == "c" then some (.compile k (Enc.unhexStr r).toList)
      else match r.toNat? with
        | some j => if kind == "l" then some (.clone k j) else if kind == "s" then some (.search k j) else none
        | none => none
    | none => none
  | _ => none

def histOutStr : HistOut → String
  | .compiled a => "ok " ++ Enc.astStr a
  | .compileErr e => compileErrStr e
  | .cloned => "cloned" | .empty => "empty" | .dropped => "dropped"
  | .searched (.ok v) => "ok " ++ Enc.valStr v
  | .searched (.error e) => evalErrStr e

/-- history: `<docs>\t<ops>` → per-op results -/
def streamHistory (fields : List String) : String :=
  match fields with
  | [ds, ops] =>
    let docs := (ds.splitOn ";").map fun d => (Enc.parseVal d).getD .null
    let ops := ((ops.splitOn ";").filter (· ≠ "")).filterMap parseHistOp
    " | ".intercalate ((histRun evalFuel docs [] ops).map histOutStr)
  | _ => "BADCASE"

/-- json: `<text hex>` → `ok <typed value>\ttext=<hex of compact print>\treparse=<same|DIFF>` | `E` -/
def streamJson (fields : List String) : String :=
  match fields with
  | [h] =>
    match JsonText.parse (Enc.unhexStr h).toList with
    | none => "E"
    | some v =>
      let printed := JsonPrint.compact v
      let re := match JsonText.parse printed.toList with
        | some v' => if Enc.valStr v' == Enc.valStr v then "same" else "DIFF:" ++ Enc.valStr v'
        | none => "ERR"
      s!"ok {Enc.valStr v}\ttext={Enc.hexStr printed}\treparse={re}"
  | _ => "BADCASE"

/-- tojm: `<kind>\t<data>` → `gen=<generic path result>\tspec=<specialised path result>` -/
def streamTojm (fields : List String) : String :=
  let input : Option Input :=
    match fields with
    | [kind, data] =>
      if kind == "value" || kind == "valueref" then (Enc.parseVal data).map fun v => .value v.toJValue
      else if kind ∈ ["rcvar", "rcvarref", "variable", "variableref"] then (Enc.parseVal data).map .lib
      else if kind == "string" || kind == "str" then some (.string (Enc.unhexStr data))
      else if kind ∈ ["i8", "i16", "i32", "i64", "u8", "u16", "u32", "u64", "isize", "usize"] then data.toInt?.map .int
      else if kind == "f32" then some (.f32 (SerdeWire.f32BitsToF64 (Enc.hexToNat data)))
      else if kind == "f64" then some (.f64 (F64.ofBits (Enc.hexToNat data)))
      else if kind == "bool" then some (.bool (data == "t"))
      else if kind == "unit" then some .unit
      else none
    | _ => none
  match input with
  | none => "BADCASE"
  | some i =>
    let sh : Option Val → String := fun o => match o with | some v => "ok " ++ Enc.valStr v | none => "ERR"
    s!"gen={sh (convGeneric i)}\tspec={sh (convSpecialized i)}"

def queryOutStr : QueryOut → String
  | .compileErr e => "C " ++ compileErrStr e
  | .result (.ok v) => "ok " ++ Enc.valStr v
  | .result (.error e) => evalErrStr e

/-- threads: same case format as the harness; prints what each thread's program yields run alone
(by `C16_schedule_independence` that is what every schedule yields) -/
def streamThreads (fields : List String) : String :=
  match fields with
  | [n, exprs, ds, progs] =>
    match n.toNat? with
    | none => "BADCASE"
    | some n =>
      let texts := ((exprs.splitOn ",").filter (· ≠ "")).map Enc.unhexStr
      let docs := (ds.splitOn ";").map fun d => (Enc.parseVal d).getD .null
      let programs := (progs.splitOn "|").map fun p => (p.splitOn ",").filter (· ≠ "")
      let runOp (op : String) : String :=
        let kind := (op.take 1).toString
        match ((op.drop 1).toString).splitOn ":" with
        | [e, d] =>
          match e.toNat?, d.toNat? with
          | some e, some d =>
            let text := texts.getD (e % texts.length) ""
            let doc := docs.getD (d % docs.length) .null
            if kind == "s" then
              match parseExpr text.toList with
              | .ok (_, a) => queryOutStr (soloResult evalFuel (.searchShared a doc))
              | .error _ => "uncompiled"
            else queryOutStr (soloResult evalFuel (.compileSearch text.toList doc))
          | _, _ => "BADOP"
        | _ => "BADOP"
      let per := (List.range n).map fun t =>
        " ; ".intercalate ((programs.getD (t % programs.length) []).map runOp)
      "sequential=" ++ " || ".intercalate per
  | _ => "BADCASE"

/-- cli: `<mode>\t<expr hex>\t<flags>\t<input kind>\t<input hex>` → `exit=…\tstdout=<hex>\tstderr=<0|1>` -/
def streamCli (fields : List String) : String :=
  match fields with
  | [mode, eh, flags, ikind, ih] =>
    let expr := (Enc.unhexStr eh).toList
    let input : Cli.ReadRes := .ok (Enc.unhexStr ih).toList
    let bad : Cli.ReadRes := .fail
    let (e, ef) : Option (List Char) × Option Cli.ReadRes :=
      if mode == "pos" then (some expr, none)
      else if mode == "efile" then (none, some (.ok expr))
      else if mode == "efile-missing" then (none, some bad)
      else if mode == "both" then (some expr, some (.ok expr))
      else (none, none)
    let (fname, stdin) : Option Cli.ReadRes × Cli.ReadRes :=
      if ikind == "stdin" then (none, input)
      else if ikind == "stdin-badutf8" then (none, bad)
      else if ikind == "file" then (some input, .ok [])
      else (some bad, .ok [])
    let a : Cli.Args := ⟨e, ef, fname, flags.contains 'u', flags.contains 'a'⟩
    let o := Cli.run evalFuel a stdin
    s!"exit={o.exit}\tstdout={Enc.hexStr o.stdout}\tstderr={if o.stderrNonEmpty then 1 else 0}"
  | _ => "BADCASE"

partial def loop (h : IO.FS.Stream) (out : IO.FS.Stream) (f : List String → String) : IO Unit := do
  let line ← h.getLine
  if line.isEmpty then return ()
  let line := if line.endsWith "\n" then (line.dropEnd 1).toString else line
  out.putStrLn (f (line.splitOn "\t"))
  loop h out f

def main (args : List String) : IO UInt32 := do
  let stdin ← IO.getStdin
  let stdout ← IO.getStdout
  match args with
  | ["slice"] => loop stdin stdout streamSlice; return 0
  | ["parse"] => loop stdin stdout streamParse; return 0
  | ["eval"] => loop stdin stdout streamEval; return 0
  | ["errfmt"] => loop stdin stdout streamErrfmt; return 0
  | ["registry"] => loop stdin stdout streamRegistry; return 0
  | ["json"] => loop stdin stdout streamJson; return 0
  | ["serde"] => loop stdin stdout SerdeWire.stream; return 0
  | ["tojm"] => loop stdin stdout streamTojm; return 0
  | ["threads"] => loop stdin stdout streamThreads; return 0
  | ["cli"] => loop stdin stdout streamCli; return 0
  | ["history"] => loop stdin stdout streamHistory; return 0
  | _ => IO.eprintln "usage: jmdriver <stream>"; return 2
