import JmesVerif.Props.C03
import JmesVerif.Props.C07
import JmesVerif.Props.C10
import JmesVerif.Lemmas.Paren
import JmesVerif.Spec.GrammarCheck
import JmesVerif.Generated.Lbp
import JmesVerif.Generated.Signatures
import JmesVerif.Generated.Features
