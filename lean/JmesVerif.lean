import JmesVerif.Model.Slice
import JmesVerif.Spec.PySlice
import JmesVerif.Lemmas.Slice
