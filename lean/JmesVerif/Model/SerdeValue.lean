import JmesVerif.Model.Value
/-
Model of `serde_json::Value` (default features: `Map` is a `BTreeMap`, numbers are `serde_json::Number`)
and of the two conversions in variable.rs: `impl TryFrom<&Value> for Variable` / `TryFrom<Value>`
(lines 178-232) and `serde_json::to_value(&variable)` through `impl Serialize for Variable` (928-944).
-/
namespace JmesVerif

inductive JValue
  | null
  | bool (b : Bool)
  | num (n : Num)
  | str (s : String)
  | arr (xs : List JValue)
  | obj (kvs : List (String × JValue))

mutual
/-- `Variable::try_from(value)`: structural; object members are re-inserted into a `BTreeMap` -/
def JValue.toVal : JValue → Val
  | .null => .null
  | .bool b => .bool b
  | .num n => .num n
  | .str s => .str s
  | .arr xs => .arr (JValue.toVals xs)
  | .obj kvs => .obj (JValue.toKVs kvs [])
def JValue.toVals : List JValue → List Val
  | [] => []
  | x :: xs => x.toVal :: JValue.toVals xs
def JValue.toKVs : List (String × JValue) → List (String × Val) → List (String × Val)
  | [], acc => acc
  | (k, x) :: r, acc => JValue.toKVs r (insertKV k x.toVal acc)
end

mutual
/-- `serde_json::to_value(&variable)` on JSON values (an expression reference would become a string) -/
def Val.toJValue : Val → JValue
  | .null => .null
  | .bool b => .bool b
  | .num n => .num n
  | .str s => .str s
  | .arr xs => .arr (Val.toJValues xs)
  | .obj kvs => .obj (Val.toJKVs kvs)
  | .expref _ => .str "<expression>"
def Val.toJValues : List Val → List JValue
  | [] => []
  | x :: xs => x.toJValue :: Val.toJValues xs
def Val.toJKVs : List (String × Val) → List (String × JValue)
  | [] => []
  | (k, x) :: r => (k, x.toJValue) :: Val.toJKVs r
end

/-- strictly increasing keys: what iterating a `BTreeMap` yields -/
def KeysSorted {β : Type} : List (String × β) → Prop
  | [] => True
  | [_] => True
  | (k, _) :: (k', v') :: r => k < k' ∧ KeysSorted ((k', v') :: r)

mutual
/-- objects everywhere inside have strictly increasing keys (a `Variable` built by the library) -/
def Val.Sorted : Val → Prop
  | .arr xs => valsSorted xs
  | .obj kvs => KeysSorted kvs ∧ kvsSorted kvs
  | _ => True
def valsSorted : List Val → Prop
  | [] => True
  | v :: vs => v.Sorted ∧ valsSorted vs
def kvsSorted : List (String × Val) → Prop
  | [] => True
  | (_, v) :: r => v.Sorted ∧ kvsSorted r
end

end JmesVerif
