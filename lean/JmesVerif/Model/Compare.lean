import JmesVerif.Model.Value
/-
Model of `variable.rs` equality and ordering: `float_eq` (lines 70-85), `impl PartialEq for Variable`
(88-110), `impl Ord for Variable` (137-163) and `Variable::compare` (411-427).
-/
namespace JmesVerif

/-- `float_eq(a, b)` operation by operation (every `+ - /` is one IEEE rounding) -/
def floatEq (a b : F64) : Bool :=
  let absA := a.abs
  let absB := b.abs
  let diff := (F64.sub a b).abs
  if F64.feq a b then true
  else if !a.isNormal || !b.isNormal then
    -- diff < EPSILON * MIN_POSITIVE
    F64.flt diff (F64.mul F64.epsilon F64.minPositive)
  else
    F64.flt (F64.div diff (F64.fmin (F64.add absA absB) F64.maxVal)) F64.epsilon

mutual
/-- `impl PartialEq for Variable` (and the derived `PartialEq` of `Ast`, which compares offsets) -/
def Val.beq : Val → Val → Bool
  | .null, .null => true
  | .bool a, .bool b => a == b
  | .num a, .num b => floatEq a.toF64 b.toF64
  | .str a, .str b => a == b
  | .arr a, .arr b => valsBeq a b
  | .obj a, .obj b => kvsBeq a b
  | .expref a, .expref b => Ast.beq a b
  | _, _ => false
def valsBeq : List Val → List Val → Bool
  | [], [] => true
  | a :: as, b :: bs => Val.beq a b && valsBeq as bs
  | _, _ => false
def kvsBeq : List (String × Val) → List (String × Val) → Bool
  | [], [] => true
  | (k, a) :: as, (k', b) :: bs => k == k' && Val.beq a b && kvsBeq as bs
  | _, _ => false
def Ast.beq : Ast → Ast → Bool
  | .comparison o c l r, .comparison o' c' l' r' => o == o' && decide (c = c') && Ast.beq l l' && Ast.beq r r'
  | .condition o p t, .condition o' p' t' => o == o' && Ast.beq p p' && Ast.beq t t'
  | .identity o, .identity o' => o == o'
  | .expref o a, .expref o' a' => o == o' && Ast.beq a a'
  | .flatten o a, .flatten o' a' => o == o' && Ast.beq a a'
  | .function o n as, .function o' n' as' => o == o' && n == n' && astsBeq as as'
  | .field o n, .field o' n' => o == o' && n == n'
  | .index o i, .index o' i' => o == o' && i == i'
  | .literal o v, .literal o' v' => o == o' && Val.beq v v'
  | .multiList o es, .multiList o' es' => o == o' && astsBeq es es'
  | .multiHash o kvs, .multiHash o' kvs' => o == o' && kasBeq kvs kvs'
  | .not o a, .not o' a' => o == o' && Ast.beq a a'
  | .projection o l r, .projection o' l' r' => o == o' && Ast.beq l l' && Ast.beq r r'
  | .objectValues o a, .objectValues o' a' => o == o' && Ast.beq a a'
  | .and o l r, .and o' l' r' => o == o' && Ast.beq l l' && Ast.beq r r'
  | .or o l r, .or o' l' r' => o == o' && Ast.beq l l' && Ast.beq r r'
  | .slice o a b c, .slice o' a' b' c' => o == o' && a == a' && b == b' && c == c'
  | .subexpr o l r, .subexpr o' l' r' => o == o' && Ast.beq l l' && Ast.beq r r'
  | _, _ => false
def astsBeq : List Ast → List Ast → Bool
  | [], [] => true
  | a :: as, b :: bs => Ast.beq a b && astsBeq as bs
  | _, _ => false
def kasBeq : List (String × Ast) → List (String × Ast) → Bool
  | [], [] => true
  | (k, a) :: as, (k', b) :: bs => k == k' && Ast.beq a b && kasBeq as bs
  | _, _ => false
end

/-- `impl Ord for Variable`: values of different types, and of types other than string/number,
compare `Equal`; numbers by exact double comparison; strings by code point. -/
def Val.cmp (a b : Val) : Ordering :=
  match a, b with
  | .str x, .str y => compare x y
  | .num x, .num y =>
    let fx := x.toF64
    let fy := y.toF64
    if F64.flt fx fy then .lt else if F64.flt fy fx then .gt
    else if F64.feq fx fy then .eq else .lt     -- partial_cmp(..).unwrap_or(Less); NaN never occurs
  | _, _ => .eq

/-- `Variable::compare(cmp, value)`: `none` is the JMESPath `null` result -/
def Val.compare (c : Cmp) (a b : Val) : Option Bool :=
  let bothNum := match a, b with
    | .num _, .num _ => true
    | _, _ => false
  if !(bothNum || c = .ne || c = .eq) then none
  else
    match c with
    | .eq => some (Val.beq a b)
    | .ne => some (!Val.beq a b)
    | .lt => some (Val.cmp a b == .lt)
    | .le => some (Val.cmp a b == .eq || Val.cmp a b == .lt)
    | .gt => some (Val.cmp a b == .gt)
    | .ge => some (Val.cmp a b == .eq || Val.cmp a b == .gt)

end JmesVerif
