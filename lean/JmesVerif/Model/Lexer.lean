import JmesVerif.Model.JsonText
/-
Model of `lexer.rs` (`Token`, `Token::lbp`, `Lexer::tokenize` and its helpers), function by
function.  The input is a list of code points; token positions are UTF-8 byte offsets as in the
code (`char_indices`): the position of a suffix `cs` of the input is `total - utf8Len cs`.
-/
namespace JmesVerif

inductive Tok
  | identifier (s : String)
  | quotedIdentifier (s : String)
  | number (n : Int)
  | literal (v : Val)
  | dot | star | flatten | and | or | pipe | filter | lbracket | rbracket | comma | colon
  | not | ne | eq | gt | gte | lt | lte | at | ampersand | lparen | rparen | lbrace | rbrace | eof
  deriving Inhabited

/-- `Token::lbp` (lexer.rs:58-79) — the hand-written copy; `Generated/Lbp.lean` holds the table
re-extracted from the source on every run and `Props/C04` proves them order-equivalent. -/
def Tok.lbp : Tok → Nat
  | .pipe => 1 | .or => 2 | .and => 3
  | .eq => 5 | .gt => 5 | .lt => 5 | .gte => 5 | .lte => 5 | .ne => 5
  | .flatten => 9 | .star => 20 | .filter => 21 | .dot => 40 | .not => 45
  | .lbrace => 50 | .lbracket => 55 | .lparen => 60
  | _ => 0

inductive LexErrKind
  | invalidChar | loneEq | minus | number | unclosed | quoted | literal
  deriving DecidableEq, Repr

structure LexErr where
  pos : Nat
  kind : LexErrKind
  deriving Repr

namespace Lexer

def utf8Len : List Char → Nat
  | [] => 0
  | c :: cs => c.utf8Size + utf8Len cs

def isIdStart (c : Char) : Bool := ('a' ≤ c && c ≤ 'z') || ('A' ≤ c && c ≤ 'Z') || c = '_'
def isIdChar (c : Char) : Bool := isIdStart c || ('0' ≤ c && c ≤ '9')
def isDigit (c : Char) : Bool := '0' ≤ c && c ≤ '9'
def isWs (c : Char) : Bool := c = ' ' || c = '\n' || c = '\t' || c = '\r'

/-- `consume_while` -/
def takeWhile (p : Char → Bool) : List Char → List Char × List Char
  | c :: cs => if p c then let (a, r) := takeWhile p cs; (c :: a, r) else ([], c :: cs)
  | [] => ([], [])

def digitsVal (ds : List Char) : Nat := ds.foldl (fun acc d => acc * 10 + (d.toNat - '0'.toNat)) 0

/-- `consume_inside`: collect up to the closing `wrapper`, a backslash protects the next character.
Returns the raw buffer and the rest after the closing character; `none` = unclosed. -/
def consumeInside (wrapper : Char) : List Char → List Char → Option (List Char × List Char)
  | [], _ => none
  | c :: cs, acc =>
    if c = wrapper then some (acc.reverse, cs)
    else if c = '\\' then
      match cs with
      | c2 :: cs' => consumeInside wrapper cs' (c2 :: '\\' :: acc)
      | [] => none
    else consumeInside wrapper cs (c :: acc)

/-- `s.replace("\\<q>", "<q>")`: left-to-right, non-overlapping -/
def unescape (q : Char) : List Char → List Char
  | '\\' :: c :: rest => if c = q then q :: unescape q rest else '\\' :: unescape q (c :: rest)
  | c :: rest => c :: unescape q rest
  | [] => []

/-- one token starting at `c :: cs`; returns the token (or `none` for skipped whitespace) and the rest -/
def lexOne (pos : Nat) (c : Char) (cs : List Char) : Except LexErr (Option Tok × List Char) :=
  if isIdStart c then
    let (a, r) := takeWhile isIdChar cs
    .ok (some (.identifier (String.ofList (c :: a))), r)
  else if c = '.' then .ok (some .dot, cs)
  else if c = '[' then
    match cs with
    | ']' :: r => .ok (some .flatten, r)
    | '?' :: r => .ok (some .filter, r)
    | _ => .ok (some .lbracket, cs)
  else if c = '*' then .ok (some .star, cs)
  else if c = '|' then
    match cs with
    | '|' :: r => .ok (some .or, r)
    | _ => .ok (some .pipe, cs)
  else if c = '@' then .ok (some .at, cs)
  else if c = ']' then .ok (some .rbracket, cs)
  else if c = '{' then .ok (some .lbrace, cs)
  else if c = '}' then .ok (some .rbrace, cs)
  else if c = '&' then
    match cs with
    | '&' :: r => .ok (some .and, r)
    | _ => .ok (some .ampersand, cs)
  else if c = '(' then .ok (some .lparen, cs)
  else if c = ')' then .ok (some .rparen, cs)
  else if c = ',' then .ok (some .comma, cs)
  else if c = ':' then .ok (some .colon, cs)
  else if c = '"' then
    match consumeInside '"' cs [] with
    | none => .error ⟨pos, .unclosed⟩
    | some (buf, r) =>
      match JsonText.parse ('"' :: buf ++ ['"']) with
      | some (.str s) => .ok (some (.quotedIdentifier s), r)
      | _ => .error ⟨pos, .quoted⟩
  else if c = '\'' then
    match consumeInside '\'' cs [] with
    | none => .error ⟨pos, .unclosed⟩
    | some (buf, r) => .ok (some (.literal (.str (String.ofList (unescape '\'' buf)))), r)
  else if c = '`' then
    match consumeInside '`' cs [] with
    | none => .error ⟨pos, .unclosed⟩
    | some (buf, r) =>
      match JsonText.parse (unescape '`' buf) with
      | some v => .ok (some (.literal v), r)
      | none => .error ⟨pos, .literal⟩
  else if c = '=' then
    match cs with
    | '=' :: r => .ok (some .eq, r)
    | _ => .error ⟨pos, .loneEq⟩
  else if c = '>' then
    match cs with
    | '=' :: r => .ok (some .gte, r)
    | _ => .ok (some .gt, cs)
  else if c = '<' then
    match cs with
    | '=' :: r => .ok (some .lte, r)
    | _ => .ok (some .lt, cs)
  else if c = '!' then
    match cs with
    | '=' :: r => .ok (some .ne, r)
    | _ => .ok (some .not, cs)
  else if isDigit c then
    let (a, r) := takeWhile isDigit cs
    let v := digitsVal (c :: a)
    if v ≤ 2147483647 then .ok (some (.number v), r) else .error ⟨pos, .number⟩
  else if c = '-' then
    match cs with
    | d :: cs' =>
      if '1' ≤ d && d ≤ '9' then
        let (a, r) := takeWhile isDigit cs'
        let v := digitsVal (d :: a)
        if v ≤ 2147483647 then .ok (some (.number (-(v : Int))), r) else .error ⟨pos, .number⟩
      else .error ⟨pos, .minus⟩
    | [] => .error ⟨pos, .minus⟩
  else if isWs c then .ok (none, cs)
  else .error ⟨pos, .invalidChar⟩

/-- `Lexer::tokenize`: the loop, with one unit of fuel per character consumed -/
def loop (total : Nat) : Nat → List Char → List (Nat × Tok) → Except LexErr (List (Nat × Tok))
  | 0, _, _ => .error ⟨0, .invalidChar⟩      -- out of fuel: unreachable (`lex_fuel_sufficient`)
  | fuel + 1, cs, acc =>
    match cs with
    | [] => .ok ((total, Tok.eof) :: acc).reverse
    | c :: cs' =>
      let pos := total - utf8Len (c :: cs')
      match lexOne pos c cs' with
      | .error e => .error e
      | .ok (some t, r) => loop total fuel r ((pos, t) :: acc)
      | .ok (none, r) => loop total fuel r acc

end Lexer

/-- `lexer::tokenize` -/
def tokenize (cs : List Char) : Except LexErr (List (Nat × Tok)) :=
  Lexer.loop (Lexer.utf8Len cs) (cs.length + 1) cs []

end JmesVerif
