import JmesVerif.Model.Value
/-
Model of the serde bridge in `variable.rs`:

* `Serializer` (lines 946-1302): every serde data-model entry point → `Variable`   (`toVariable`)
* `impl Deserializer for Variable` + `SeqDeserializer`/`MapDeserializer`/`EnumDeserializer`/
  `VariantDeserializer` (621-925) driven by serde's standard visitors and derive-generated
  visitors                                                                           (`deVar`)

and, as the *specification* of C14, of what serde_json does with the same inputs
(`toJsonValue`, `deJson`).  serde / serde_json / serde_derive are external code: their behaviour
is modelled (and validated by the `serde` correspondence stream), not verified.
-/
namespace JmesVerif

/-- a value of the serde data model, as a `Serialize` impl presents it to a serializer -/
inductive SVal
  | bool (b : Bool)
  | int (v : Int)                          -- i8..i64 / u8..u64: the width does not matter to either serializer
  | f32 (x : F64)                          -- the f32 widened to f64 (`value as f64`)
  | f64 (x : F64)
  | char (c : Char)
  | str (s : String)
  | bytes (bs : List Nat)
  | none
  | some (v : SVal)
  | unit
  | unitStruct
  | unitVariant (variant : String)
  | newtypeStruct (v : SVal)
  | newtypeVariant (variant : String) (v : SVal)
  | seq (vs : List SVal)                   -- seq, tuple, tuple struct
  | tupleVariant (variant : String) (vs : List SVal)
  | map (kvs : List (SVal × SVal))
  | struct (fields : List (String × SVal))
  | structVariant (variant : String) (fields : List (String × SVal))

def numOfInt (v : Int) : Num := if v < 0 then .neg v else .pos v.toNat

/-- `Number::from_f64(x).map_or(Null, Number)` -/
def valOfF64 (x : F64) : Val := if x.isFinite then .num (.flt x) else .null

mutual
/-- `Variable::from_serializable` = `value.serialize(Serializer)`; `none` = `Err` -/
def svToVariable : SVal → Option Val
  | .bool b => some (.bool b)
  | .int v => some (.num (numOfInt v))
  | .f32 x => some (valOfF64 x)
  | .f64 x => some (valOfF64 x)
  | .char c => some (.str (String.singleton c))
  | .str s => some (.str s)
  | .bytes bs => some (.arr (bs.map fun b => .num (.pos b)))
  | .none => some .null
  | .some v => svToVariable v
  | .unit => some .null
  | .unitStruct => some .null
  | .unitVariant variant => some (.str variant)
  | .newtypeStruct v => svToVariable v
  | .newtypeVariant variant v => (svToVariable v).map fun x => .obj [(variant, x)]
  | .seq vs => (svSeqToVariable vs).map .arr
  | .tupleVariant variant vs => (svSeqToVariable vs).map fun xs => .obj [(variant, .arr xs)]
  | .map kvs => (svMapToVariable kvs []).map .obj
  | .struct fields => (svFieldsToVariable fields []).map .obj
  | .structVariant variant fields => (svFieldsToVariable fields []).map fun m => .obj [(variant, .obj m)]
def svSeqToVariable : List SVal → Option (List Val)
  | [] => some []
  | v :: vs =>
    match svToVariable v with
    | none => none
    | some x => (svSeqToVariable vs).map (x :: ·)
/-- `SerializeMap`: the key must serialise to a `Variable::String` ("KeyMustBeAString" otherwise) -/
def svMapToVariable : List (SVal × SVal) → List (String × Val) → Option (List (String × Val))
  | [], acc => some acc
  | (k, v) :: r, acc =>
    match svToVariable k with
    | some (.str ks) =>
      match svToVariable v with
      | some x => svMapToVariable r (insertKV ks x acc)
      | none => none
    | _ => none
def svFieldsToVariable : List (String × SVal) → List (String × Val) → Option (List (String × Val))
  | [], acc => some acc
  | (k, v) :: r, acc =>
    match svToVariable v with
    | some x => svFieldsToVariable r (insertKV k x acc)
    | none => none
end

-- the keys of every map inside are strings or chars (what "string-keyed" means for C14)
mutual
def svStringKeyed : SVal → Bool
  | .some v | .newtypeStruct v | .newtypeVariant _ v => svStringKeyed v
  | .seq vs | .tupleVariant _ vs => svAllStringKeyed vs
  | .map kvs => svMapStringKeyed kvs
  | .struct fields | .structVariant _ fields => svFieldsStringKeyed fields
  | _ => true
def svAllStringKeyed : List SVal → Bool
  | [] => true
  | v :: vs => svStringKeyed v && svAllStringKeyed vs
def svMapStringKeyed : List (SVal × SVal) → Bool
  | [] => true
  | (k, v) :: r =>
    (match k with | .str _ => true | .char _ => true | _ => false) && svStringKeyed v && svMapStringKeyed r
def svFieldsStringKeyed : List (String × SVal) → Bool
  | [] => true
  | (_, v) :: r => svStringKeyed v && svFieldsStringKeyed r
end

/-- what serde_json renders a map key as (`MapKeySerializer`): strings and chars as themselves,
integers and booleans as their text; everything else is an error — only the string/char part
matters for string-keyed data -/
def jsonKey : SVal → Option String
  | .str s => some s
  | .char c => some (String.singleton c)
  | .int v => some (toString v)
  | .bool b => some (if b then "true" else "false")
  | .unitVariant variant => some variant
  | _ => none

mutual
/-- **specification**: `serde_json::to_value(x)` as a JSON value (same carrier as `Val`) -/
def svToJson : SVal → Option Val
  | .bool b => some (.bool b)
  | .int v => some (.num (numOfInt v))
  | .f32 x => some (valOfF64 x)
  | .f64 x => some (valOfF64 x)
  | .char c => some (.str (String.singleton c))
  | .str s => some (.str s)
  | .bytes bs => some (.arr (bs.map fun b => .num (.pos b)))
  | .none => some .null
  | .some v => svToJson v
  | .unit => some .null
  | .unitStruct => some .null
  | .unitVariant variant => some (.str variant)
  | .newtypeStruct v => svToJson v
  | .newtypeVariant variant v => (svToJson v).map fun x => .obj [(variant, x)]
  | .seq vs => (svSeqToJson vs).map .arr
  | .tupleVariant variant vs => (svSeqToJson vs).map fun xs => .obj [(variant, .arr xs)]
  | .map kvs => (svMapToJson kvs []).map .obj
  | .struct fields => (svFieldsToJson fields []).map .obj
  | .structVariant variant fields => (svFieldsToJson fields []).map fun m => .obj [(variant, .obj m)]
def svSeqToJson : List SVal → Option (List Val)
  | [] => some []
  | v :: vs =>
    match svToJson v with
    | none => none
    | some x => (svSeqToJson vs).map (x :: ·)
def svMapToJson : List (SVal × SVal) → List (String × Val) → Option (List (String × Val))
  | [], acc => some acc
  | (k, v) :: r, acc =>
    match jsonKey k with
    | some ks =>
      match svToJson v with
      | some x => svMapToJson r (insertKV ks x acc)
      | none => none
    | none => none
def svFieldsToJson : List (String × SVal) → List (String × Val) → Option (List (String × Val))
  | [], acc => some acc
  | (k, v) :: r, acc =>
    match svToJson v with
    | some x => svFieldsToJson r (insertKV k x acc)
    | none => none
end

/-! ### deserialisation -/

mutual
/-- the target Rust type, as far as its `Deserialize` impl is concerned -/
inductive Shape
  | bool
  | int (signed : Bool) (bits : Nat)
  | f32 | f64
  | char | string | unit
  | option (s : Shape)
  | seq (s : Shape)                         -- Vec<T>
  | tuple (ss : List Shape)                 -- (T1, …, Tn) and tuple structs
  | map (s : Shape)                         -- BTreeMap<String, T>
  | struct (fields : List (String × Shape)) -- derive(Deserialize) struct
  | newtype (s : Shape)                     -- struct N(T)
  | unitStruct
  | enum (variants : List (String × VShape))
inductive VShape
  | unit
  | newtype (s : Shape)
  | tuple (ss : List Shape)
  | struct (fields : List (String × Shape))
end

/-- the typed result -/
inductive TVal
  | bool (b : Bool)
  | int (v : Int)
  | f32 (x : F64)        -- the value after `as f32`, widened back (exactly representable)
  | f64 (x : F64)
  | char (c : Char)
  | str (s : String)
  | unit
  | none
  | some (v : TVal)
  | seq (vs : List TVal)
  | map (kvs : List (String × TVal))
  | struct (vs : List TVal)
  | newtype (v : TVal)
  | unitStruct
  | variant (name : String) (payload : Option TVal)

/-- `x as f32` on a finite double, widened back to f64: round to 24 significant bits, exponent range of f32 -/
def toF32 (x : F64) : F64 :=
  match x with
  | .fin s m e =>
    if m = 0 then x else
    let q : Rat := (m : Rat) * F64.pow2 e
    let e0 : Int := F64.ilog2 q - 23
    let e1 : Int := if e0 < -149 then -149 else e0
    let scaled : Rat := q / F64.pow2 e1
    let fl : Int := scaled.floor
    let rem : Rat := scaled - (fl : Rat)
    let half : Rat := 1 / 2
    let mm : Int := if rem > half ∨ (rem = half ∧ fl % 2 = 1) then fl + 1 else fl
    let (mm, e1) := if mm = 16777216 then ((8388608 : Int), e1 + 1) else (mm, e1)
    if e1 > 104 then .inf s
    else if mm = 0 then .fin s 0 (-1074)
    else F64.ofRatSigned s ((if s then -1 else 1) * (mm : Rat) * F64.pow2 e1)
  | other => other

/-- apply a partial function to every element, in order (`Vec<T>` / `BTreeMap<String, T>` visitors) -/
def optMapL {α β : Type} (f : α → Option β) : List α → Option (List β)
  | [] => some []
  | x :: xs =>
    match f x with
    | none => none
    | some y => (optMapL f xs).map (y :: ·)

def intInRange (signed : Bool) (bits : Nat) (v : Int) : Bool :=
  if signed then decide (-(2 ^ (bits - 1) : Int) ≤ v ∧ v < (2 ^ (bits - 1) : Int))
  else decide (0 ≤ v ∧ v < (2 ^ bits : Int))

def numToInt : Num → Option Int
  | .pos n => some n
  | .neg i => some i
  | .flt _ => none

def lookupVariant (name : String) : List (String × VShape) → Option VShape
  | [] => none
  | (n, s) :: r => if n = name then some s else lookupVariant name r

/-- the one point where the two deserializers are coded differently: whether a sequence must be
fully consumed by the visitor (`serde_json::value::de::visit_array` checks `remaining == 0`;
the library's `Variable::deserialize_any` mirrors that check) -/
structure DeCfg where
  checkLen : Bool

mutual
/-- `T::deserialize(value)` for the type described by the shape -/
def deVal (cfg : DeCfg) : Shape → Val → Option TVal
  | .bool, .bool b => some (.bool b)
  | .bool, _ => none
  | .int signed bits, .num n =>
    (match numToInt n with
     | some v => if intInRange signed bits v then some (.int v) else none
     | none => none)
  | .int _ _, _ => none
  | .f32, .num n => some (.f32 (toF32 n.toF64))
  | .f32, _ => none
  | .f64, .num n => some (.f64 n.toF64)
  | .f64, _ => none
  | .char, .str s => (match s.toList with | [c] => some (.char c) | _ => none)
  | .char, _ => none
  | .string, .str s => some (.str s)
  | .string, _ => none
  | .unit, .null => some .unit
  | .unit, _ => none
  | .option _, .null => some .none
  | .option s, v => (deVal cfg s v).map .some
  | .seq s, .arr xs => (optMapL (fun x => deVal cfg s x) xs).map .seq
  | .seq _, _ => none
  | .tuple ss, .arr xs => (deTuple cfg ss xs).map .seq
  | .tuple _, _ => none
  | .map s, .obj kvs => (optMapL (fun (p : String × Val) => (deVal cfg s p.2).map fun t => (p.1, t)) kvs).map .map
  | .map _, _ => none
  | .struct fields, .obj kvs => (deStructMap cfg fields kvs).map .struct
  | .struct fields, .arr xs => (deFieldsSeq cfg fields xs).map .struct
  | .struct _, _ => none
  | .newtype s, v => (deVal cfg s v).map .newtype
  | .unitStruct, .null => some .unitStruct
  | .unitStruct, _ => none
  | .enum variants, .str name => deEnum cfg name none variants
  | .enum variants, .obj [(name, payload)] => deEnum cfg name (some payload) variants
  | .enum _, _ => none
/-- the variant identifier must name one of the declared variants -/
def deEnum (cfg : DeCfg) (name : String) (payload : Option Val) : List (String × VShape) → Option TVal
  | [] => none
  | (n, vs) :: rest => if n = name then deVariant cfg name vs payload else deEnum cfg name payload rest
/-- tuple visitor: one element per component (a missing one is `invalid_length`); what is left
over afterwards is the deserializer's business (`checkLen`) -/
def deTuple (cfg : DeCfg) : List Shape → List Val → Option (List TVal)
  | [], [] => some []
  | [], _ :: _ => if cfg.checkLen then none else some []
  | _ :: _, [] => none
  | s :: ss, x :: xs =>
    match deVal cfg s x with
    | none => none
    | some t => (deTuple cfg ss xs).map (t :: ·)
/-- derive-generated `visit_map`: each declared field is looked up by name (unknown keys are
ignored; keys are unique in a `BTreeMap`); a missing field is an error unless it is an `Option` -/
def deStructMap (cfg : DeCfg) : List (String × Shape) → List (String × Val) → Option (List TVal)
  | [], _ => some []
  | (f, s) :: rest, kvs =>
    match Val.lookup f kvs with
    | some x =>
      (match deVal cfg s x with
       | none => none
       | some t => (deStructMap cfg rest kvs).map (t :: ·))
    | none =>
      (match s with
       | .option _ => (deStructMap cfg rest kvs).map (TVal.none :: ·)
       | _ => none)
/-- derive-generated `visit_seq` for structs: positional -/
def deFieldsSeq (cfg : DeCfg) : List (String × Shape) → List Val → Option (List TVal)
  | [], [] => some []
  | [], _ :: _ => if cfg.checkLen then none else some []
  | _ :: _, [] => none
  | (_, s) :: ss, x :: xs =>
    match deVal cfg s x with
    | none => none
    | some t => (deFieldsSeq cfg ss xs).map (t :: ·)
/-- `VariantDeserializer`: unit / newtype / tuple / struct variant against the payload -/
def deVariant (cfg : DeCfg) (name : String) : VShape → Option Val → Option TVal
  | .unit, none => some (.variant name none)
  | .unit, some .null => some (.variant name none)
  | .unit, some _ => none
  | .newtype s, some v => (deVal cfg s v).map fun t => .variant name (some t)
  | .newtype _, none => none
  | .tuple ss, some (.arr xs) =>
    -- `SeqDeserializer::deserialize_any`: an empty array is presented as `unit`, which a tuple visitor rejects
    if xs.isEmpty then none else (deTuple cfg ss xs).map fun ts => .variant name (some (.seq ts))
  | .tuple _, _ => none
  | .struct fields, some (.obj kvs) => (deStructMap cfg fields kvs).map fun ts => .variant name (some (.struct ts))
  | .struct _, _ => none
end

def lookupVShape (name : String) : List (String × VShape) → Option VShape
  | [] => none
  | (n, s) :: r => if n = name then some s else lookupVShape name r

mutual
/-- what `#[derive(Serialize)]` / the std `Serialize` impls present for a typed value of the given
type: the data-model value the library's `Serializer` receives when the typed value is searched -/
def serOf : Shape → TVal → Option SVal
  | .bool, .bool b => some (.bool b)
  | .int _ _, .int v => some (.int v)
  | .f32, .f32 x => some (.f32 x)
  | .f64, .f64 x => some (.f64 x)
  | .char, .char c => some (.char c)
  | .string, .str s => some (.str s)
  | .unit, .unit => some .unit
  | .option _, .none => some .none
  | .option s, .some t => (serOf s t).map .some
  | .seq s, .seq ts => (optMapL (fun t => serOf s t) ts).map .seq
  | .tuple ss, .seq ts => (serTuple ss ts).map .seq
  | .map s, .map kvs =>
    (optMapL (fun (p : String × TVal) => (serOf s p.2).map fun v => (SVal.str p.1, v)) kvs).map .map
  | .struct fields, .struct ts => (serFields fields ts).map .struct
  | .newtype s, .newtype t => (serOf s t).map .newtypeStruct
  | .unitStruct, .unitStruct => some .unitStruct
  | .enum variants, .variant name payload => serVariant name payload variants
  | _, _ => none
def serTuple : List Shape → List TVal → Option (List SVal)
  | [], [] => some []
  | s :: ss, t :: ts =>
    match serOf s t with
    | none => none
    | some v => (serTuple ss ts).map (v :: ·)
  | _, _ => none
def serFields : List (String × Shape) → List TVal → Option (List (String × SVal))
  | [], [] => some []
  | (f, s) :: ss, t :: ts =>
    match serOf s t with
    | none => none
    | some v => (serFields ss ts).map ((f, v) :: ·)
  | _, _ => none
def serVariant (name : String) (payload : Option TVal) : List (String × VShape) → Option SVal
  | [] => none
  | (n, vs) :: rest =>
    if n = name then
      match vs, payload with
      | .unit, none => some (.unitVariant name)
      | .newtype s, some t => (serOf s t).map (.newtypeVariant name)
      | .tuple ss, some (.seq ts) => (serTuple ss ts).map (.tupleVariant name)
      | .struct fields, some (.struct ts) => (serFields fields ts).map (.structVariant name)
      | _, _ => none
    else serVariant name payload rest
end

/-- the library's `Deserializer for Variable` (variable.rs:621-925): every typed entry point
forwards to `deserialize_any`, which presents the value's own kind to the visitor -/
def deVar : Shape → Val → Option TVal := deVal ⟨true⟩
/-- **specification**: `serde_json::from_value`.  serde_json's typed entry points reject a value of
the wrong kind *before* calling the visitor; the standard / derive visitors reject exactly those
kinds themselves, so the outcome (Ok value / Err) is that of the kind-directed core with the
length check — the same function.  That identification is an assumption about serde_json,
validated on every run by the `serde` stream (real `from_value` vs real `T::deserialize(variable)`). -/
def deJson : Shape → Val → Option TVal := deVal ⟨true⟩

end JmesVerif
