import JmesVerif.Model.Registry
/-
Interleaving model for property C16 (feature `sync`): threads share immutable compiled expressions
and documents (`Arc`), and the lazily initialised default runtime (`lazy_static!` once-cell:
uninitialised → initialised with `Runtime::new()` + `register_builtin_functions()` by whichever
thread gets there first; every later access reads the same value).
What the model assumes rather than shows: data-race freedom of `Arc`, `lazy_static`'s `Once`, and
`Send`/`Sync` themselves — those are delivered by Rust's type system and checked by rustc through
the `assert_send_sync` obligations compiled into the harness.
-/
namespace JmesVerif

/-- what a thread can do in one atomic step of the model -/
inductive TOp
  /-- search a shared, already compiled expression on a shared document -/
  | searchShared (a : Ast) (doc : Val)
  /-- compile a text through the shared default runtime (initialising it on first use) and search -/
  | compileSearch (text : List Char) (doc : Val)

/-- the once-cell: `none` until the first access -/
structure TState where
  cell : Option Registry

def TState.init : TState := ⟨none⟩

/-- dereferencing `DEFAULT_RUNTIME`: initialise if needed, always yield the same registry -/
def TState.deref (s : TState) : TState × Registry :=
  match s.cell with
  | some r => (s, r)
  | none => (⟨some Registry.default⟩, Registry.default)

def tstep (fuel : Nat) (s : TState) : TOp → TState × QueryOut
  | .searchShared a doc =>
    -- expressions compiled beforehand carry their own runtime reference (a builtin-complete runtime)
    (s, .result (search Registry.default fuel a doc))
  | .compileSearch text doc =>
    let (s', rt) := s.deref
    (s', query rt fuel text doc)

/-- what the same operation yields when run alone on a fresh process -/
def soloResult (fuel : Nat) (op : TOp) : QueryOut := (tstep fuel TState.init op).2

/-- run a schedule: `sched` lists which thread moves next; each thread executes its program in order.
Returns the final state and the outputs in schedule order tagged by thread. -/
def runSchedule (fuel : Nat) (progs : Nat → List TOp) : List Nat → TState → (Nat → Nat) → List (Nat × QueryOut)
  | [], _, _ => []
  | t :: rest, s, pc =>
    match (progs t)[pc t]? with
    | none => runSchedule fuel progs rest s pc          -- thread t has finished: the step is a no-op
    | some op =>
      let (s', out) := tstep fuel s op
      (t, out) :: runSchedule fuel progs rest s' (fun u => if u = t then pc t + 1 else pc u)

end JmesVerif
