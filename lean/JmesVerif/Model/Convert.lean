import JmesVerif.Model.Serde
import JmesVerif.Model.SerdeValue
/-
Model of the input conversions `ToJmespath` in lib.rs:

* the generic path (all builds without `specialized`, and the `default fn` with it):
  `Variable::from_serializable(self)` — the input's `Serialize` impl drives the library's `Serializer`;
* the specialised fast paths (`#[cfg(feature = "specialized")]`, lib.rs:190-357) for `Value`, `&Value`,
  `Rcvar`, `&Rcvar`, `Variable`, `&Variable`, `String`, `&str`, the integer types, `f32`, `f64`, `()`, `bool`.
-/
namespace JmesVerif

/-- an input of one of the specially handled Rust types (references and owned values convert alike) -/
inductive Input
  | value (j : JValue)          -- serde_json::Value / &Value
  | lib (v : Val)               -- Variable / &Variable / Rcvar / &Rcvar
  | string (s : String)         -- String / &str
  | int (v : Int)               -- i8 … i64, u8 … u64, isize, usize
  | f32 (x : F64)               -- widened
  | f64 (x : F64)
  | bool (b : Bool)
  | unit

def svOfNum : Num → SVal
  | .pos n => .int n
  | .neg i => .int i
  | .flt f => .f64 f

mutual
/-- `impl Serialize for serde_json::Value` -/
def svOfJValue : JValue → SVal
  | .null => .unit
  | .bool b => .bool b
  | .num n => svOfNum n
  | .str s => .str s
  | .arr xs => .seq (svOfJValues xs)
  | .obj kvs => .map (svOfJKVs kvs)
def svOfJValues : List JValue → List SVal
  | [] => []
  | x :: xs => svOfJValue x :: svOfJValues xs
def svOfJKVs : List (String × JValue) → List (SVal × SVal)
  | [] => []
  | (k, x) :: r => (.str k, svOfJValue x) :: svOfJKVs r
end

mutual
/-- `impl Serialize for Variable` (variable.rs:928-944); an expression reference serialises as a string -/
def svOfVal : Val → SVal
  | .null => .unit
  | .bool b => .bool b
  | .num n => svOfNum n
  | .str s => .str s
  | .arr xs => .seq (svOfVals xs)
  | .obj kvs => .map (svOfKVs kvs)
  | .expref _ => .str "<expression>"
def svOfVals : List Val → List SVal
  | [] => []
  | x :: xs => svOfVal x :: svOfVals xs
def svOfKVs : List (String × Val) → List (SVal × SVal)
  | [] => []
  | (k, x) :: r => (.str k, svOfVal x) :: svOfKVs r
end

/-- what the input's `Serialize` impl presents -/
def Input.image : Input → SVal
  | .value j => svOfJValue j
  | .lib v => svOfVal v
  | .string s => .str s
  | .int v => .int v
  | .f32 x => .f32 x
  | .f64 x => .f64 x
  | .bool b => .bool b
  | .unit => .unit

/-- generic path: `Variable::from_serializable(self)` -/
def convGeneric (i : Input) : Option Val := svToVariable i.image

/-- specialised fast paths (lib.rs:190-357) -/
def convSpecialized : Input → Option Val
  | .value j => some j.toVal                         -- `self.try_into()`
  | .lib v => some v                            -- `Ok(self)` / `Rcvar::new(self.clone())`
  | .string s => some (.str s)
  | .int v => some (.num (numOfInt v))               -- `Number::from(self)`
  | .f32 x => if x.isFinite then some (.num (.flt x)) else none     -- `(self as f64).to_jmespath()`
  | .f64 x => if x.isFinite then some (.num (.flt x)) else none     -- `Number::from_f64(self).ok_or_else(…)?`
  | .bool b => some (.bool b)
  | .unit => some .null

/-- the representation invariant of `serde_json::Number`: a `NegInt` is negative, a `Float` finite -/
def Num.ok : Num → Bool
  | .pos _ => true
  | .neg i => decide (i < 0)
  | .flt f => f.isFinite

-- every number inside is a proper `serde_json::Number`
mutual
def JValue.finite : JValue → Bool
  | .num n => n.ok
  | .arr xs => JValue.finites xs
  | .obj kvs => JValue.finiteKVs kvs
  | _ => true
def JValue.finites : List JValue → Bool
  | [] => true
  | x :: xs => x.finite && JValue.finites xs
def JValue.finiteKVs : List (String × JValue) → Bool
  | [] => true
  | (_, x) :: r => x.finite && JValue.finiteKVs r
end

mutual
def Val.finite : Val → Bool
  | .num n => n.ok
  | .arr xs => Val.finites xs
  | .obj kvs => Val.finiteKVs kvs
  | _ => true
def Val.finites : List Val → Bool
  | [] => true
  | x :: xs => x.finite && Val.finites xs
def Val.finiteKVs : List (String × Val) → Bool
  | [] => true
  | (_, x) :: r => x.finite && Val.finiteKVs r
end

end JmesVerif
