import JmesVerif.Model.Registry
import JmesVerif.Model.JsonPrint
/-
Model of `jmespath-cli/src/main.rs` (the `jp` tool): the decision logic between argument parsing
and process exit.  clap's argument grammar, the OS (files, pipes, exit) are outside the model:
files and stdin appear as already-classified read outcomes.
-/
namespace JmesVerif
namespace Cli

/-- outcome of `read_file` / reading stdin -/
inductive ReadRes
  | ok (text : List Char)
  | fail                      -- cannot open, read error, or not UTF-8

structure Args where
  expression : Option (List Char)     -- positional argument
  exprFile : Option ReadRes           -- `-e FILE` (already read)
  filename : Option ReadRes           -- `-f FILE` (already read)
  unquoted : Bool                     -- `-u`
  ast : Bool                          -- `--ast`

structure Outcome where
  exit : Nat
  stdout : String
  stderrNonEmpty : Bool
  /-- did the run consume the JSON input (stdin or the `-f` file)? -/
  readInput : Bool

def die : Outcome := ⟨1, "", true, false⟩
def dieAfterInput : Outcome := ⟨1, "", true, true⟩

/-- `show_result` -/
def showResult (v : Val) (unquoted : Bool) : String :=
  match unquoted, v with
  | true, .str s => s ++ "\n"
  | _, _ => JsonPrint.pretty 0 v ++ "\n"

/-- the marker the model prints for `--ast` (the Debug rendering of the tree is not modelled) -/
def astMarker : String := "<AST>\n"

/-- which expression text is used: exactly one of EXPRESSION / `--expr-file` must be given (clap:
each `required`, mutually `conflicts_with`), and an expression file must be readable -/
def selectExpr (a : Args) : Option (List Char) :=
  match a.expression, a.exprFile with
  | some t, none => some t
  | none, some (.ok t) => some t
  | _, _ => none

/-- the JSON input: the `-f` file if given, else stdin -/
def inputOf (a : Args) (stdin : ReadRes) : ReadRes :=
  match a.filename with
  | some r => r
  | none => stdin

/-- after a successful compile and without `--ast`: read the input, parse it, search, print -/
def evalStage (fuel : Nat) (tree : Ast) (a : Args) (stdin : ReadRes) : Outcome :=
  match inputOf a stdin with
  | .fail => dieAfterInput
  | .ok jt =>
    match JsonText.parse jt with
    | none => dieAfterInput                           -- "Error parsing JSON"
    | some doc =>
      match search Registry.default fuel tree doc with
      | .error _ => dieAfterInput                     -- runtime error
      | .ok v => ⟨0, showResult v a.unquoted, false, true⟩

/-- `main` after clap's parsing; `stdin` is what reading standard input would give -/
def run (fuel : Nat) (a : Args) (stdin : ReadRes) : Outcome :=
  match selectExpr a with
  | none => die                                       -- usage error / unreadable expression file
  | some t =>
    match parseExpr t with
    | .error _ => die                                 -- compile error
    | .ok (_, tree) =>
      if a.ast then ⟨0, astMarker, false, false⟩     -- printed before any input is read
      else evalStage fuel tree a stdin

end Cli
end JmesVerif
