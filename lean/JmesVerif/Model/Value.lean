import JmesVerif.Model.F64
/-
Model of `variable.rs` `Variable` and `ast.rs` `Ast` (mutually recursive: `Ast::Literal` holds a
value, `Variable::Expref` holds a tree).  `serde_json::Number` (without `arbitrary_precision`) is
`PosInt(u64) | NegInt(i64 < 0) | Float(finite f64)`.  `BTreeMap<String, _>` is a key-sorted,
duplicate-free association list (iteration order = UTF-8 byte order = code-point order = Lean's
`String` order); sortedness is an invariant proved separately, not a subtype.
-/
namespace JmesVerif

inductive Num
  | pos (n : Nat)          -- 0 ≤ n < 2^64
  | neg (i : Int)          -- -2^63 ≤ i < 0
  | flt (f : F64)          -- finite
  deriving DecidableEq, Repr, Inhabited

/-- `Number::as_f64` (always `Some` without arbitrary_precision): `n as f64`, one rounding. -/
def Num.toF64 : Num → F64
  | .pos n => F64.ofNat n
  | .neg i => F64.ofInt i
  | .flt f => f

inductive Cmp | eq | ne | lt | le | gt | ge
  deriving DecidableEq, Repr, Inhabited

mutual
inductive Val
  | null
  | bool (b : Bool)
  | num (n : Num)
  | str (s : String)
  | arr (xs : List Val)
  | obj (kvs : List (String × Val))
  | expref (a : Ast)
inductive Ast
  | comparison (off : Nat) (c : Cmp) (lhs rhs : Ast)
  | condition (off : Nat) (pred thn : Ast)
  | identity (off : Nat)
  | expref (off : Nat) (a : Ast)
  | flatten (off : Nat) (a : Ast)
  | function (off : Nat) (name : String) (args : List Ast)
  | field (off : Nat) (name : String)
  | index (off : Nat) (i : Int)
  | literal (off : Nat) (v : Val)
  | multiList (off : Nat) (es : List Ast)
  | multiHash (off : Nat) (kvs : List (String × Ast))
  | not (off : Nat) (a : Ast)
  | projection (off : Nat) (lhs rhs : Ast)
  | objectValues (off : Nat) (a : Ast)
  | and (off : Nat) (lhs rhs : Ast)
  | or (off : Nat) (lhs rhs : Ast)
  | slice (off : Nat) (start stop : Option Int) (step : Int)
  | subexpr (off : Nat) (lhs rhs : Ast)
end

instance : Inhabited Val := ⟨.null⟩
instance : Inhabited Ast := ⟨.identity 0⟩

/-- `JmespathType` (variable.rs:22-30) -/
inductive JType | null | string | number | boolean | array | object | expref
  deriving DecidableEq, Repr, Inhabited

def JType.name : JType → String
  | .null => "null" | .string => "string" | .number => "number" | .boolean => "boolean"
  | .array => "array" | .object => "object" | .expref => "expref"

namespace Val

/-- `get_type` (variable.rs:398-408) -/
def type : Val → JType
  | .null => .null | .bool _ => .boolean | .num _ => .number | .str _ => .string
  | .arr _ => .array | .obj _ => .object | .expref _ => .expref

def isNull : Val → Bool
  | .null => true
  | _ => false

/-- `is_truthy` (variable.rs:386-395) -/
def truthy : Val → Bool
  | .bool b => b
  | .str s => !s.isEmpty
  | .arr xs => !xs.isEmpty
  | .obj kvs => !kvs.isEmpty
  | .num _ => true
  | _ => false

/-- `BTreeMap::get` on the sorted association list -/
def lookup (k : String) : List (String × Val) → Option Val
  | [] => none
  | (k', v) :: rest => if k' = k then some v else lookup k rest

/-- `get_field` (variable.rs:350-357) -/
def getField (v : Val) (k : String) : Val :=
  match v with
  | .obj kvs => (lookup k kvs).getD .null
  | _ => .null

end Val

-- JSON values: no expression reference anywhere inside
mutual
def Val.isJson : Val → Bool
  | .arr xs => valsJson xs
  | .obj kvs => kvsJson kvs
  | .expref _ => false
  | _ => true
def valsJson : List Val → Bool
  | [] => true
  | v :: vs => v.isJson && valsJson vs
def kvsJson : List (String × Val) → Bool
  | [] => true
  | (_, v) :: r => v.isJson && kvsJson r
end

/-- `BTreeMap::insert`: keep the list sorted by key, replace an existing binding. -/
def insertKV {β : Type} (k : String) (v : β) : List (String × β) → List (String × β)
  | [] => [(k, v)]
  | (k', v') :: rest =>
    if k < k' then (k, v) :: (k', v') :: rest
    else if k = k' then (k, v) :: rest
    else (k', v') :: insertKV k v rest

end JmesVerif
