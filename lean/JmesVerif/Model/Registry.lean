import JmesVerif.Model.Interp
import JmesVerif.Model.Parser
/-
Model of `runtime.rs`: `Runtime` = `HashMap<String, Box<dyn Function>>` as an association list
(no duplicate names), `register_function` (insert: replaces), `deregister_function` (remove),
`register_builtin_functions` (26 registrations in source order), `get_function`, `compile`;
and of the call histories over compiled expressions used by property C13.
-/
namespace JmesVerif

inductive RegOp
  | register (name : String) (f : Fn)
  | deregister (name : String)
  | registerBuiltins

/-- `HashMap::remove` -/
def Registry.remove (r : Registry) (name : String) : Registry :=
  match r with
  | [] => []
  | (k, f) :: rest => if k = name then Registry.remove rest name else (k, f) :: Registry.remove rest name

/-- `HashMap::insert` -/
def Registry.insert (r : Registry) (name : String) (f : Fn) : Registry :=
  (name, f) :: r.remove name

def Registry.registerBuiltins (r : Registry) : Registry :=
  Builtin.all.foldl (fun r p => r.insert p.1 (.builtin p.2)) r

def Registry.step (r : Registry) : RegOp → Registry
  | .register n f => r.insert n f
  | .deregister n => r.remove n
  | .registerBuiltins => r.registerBuiltins

/-- `Runtime::new()` followed by the operations -/
def Registry.run (ops : List RegOp) : Registry := ops.foldl Registry.step []

/-- `runtime.compile(expr)?.search(doc)` -/
inductive QueryOut
  | compileErr (e : CompileErr)
  | result (r : Except EvalErr Val)

def query (rt : Registry) (fuel : Nat) (expr : List Char) (doc : Val) : QueryOut :=
  match parseExpr expr with
  | .error e => .compileErr e
  | .ok (_, a) => .result (search rt fuel a doc)

/-! ### call histories (C13) -/

/-- a compiled expression: tree, source text (the runtime is the shared default one) -/
structure Compiled where
  ast : Ast
  text : List Char

inductive HistOp
  | compile (slot : Nat) (text : List Char)
  | clone (slot src : Nat)
  | drop (slot : Nat)
  | search (slot doc : Nat)

inductive HistOut
  | compiled (a : Ast)
  | compileErr (e : CompileErr)
  | cloned | empty | dropped
  | searched (r : Except EvalErr Val)

/-- handle table: association list keyed by handle number -/
def aGet {β : Type} (s : List (Nat × β)) (k : Nat) : Option β :=
  match s with
  | [] => none
  | (k', c) :: rest => if k' = k then some c else aGet rest k

def aRemove {β : Type} (s : List (Nat × β)) (k : Nat) : List (Nat × β) :=
  match s with
  | [] => []
  | (k', c) :: rest => if k' = k then aRemove rest k else (k', c) :: aRemove rest k

def aSet {β : Type} (s : List (Nat × β)) (k : Nat) (c : Option β) : List (Nat × β) :=
  match c with
  | some c => (k, c) :: aRemove s k
  | none => aRemove s k

abbrev Slots := List (Nat × Compiled)
def Slots.get (s : Slots) (k : Nat) : Option Compiled := aGet s k
def Slots.set (s : Slots) (k : Nat) (c : Option Compiled) : Slots := aSet s k c

/-- one operation of a history; `docs` are the shared input documents (never modified) -/
def histStep (fuel : Nat) (docs : List Val) (s : Slots) : HistOp → Slots × HistOut
  | .compile k text =>
    match parseExpr text with
    | .ok (_, a) => (s.set k (some ⟨a, text⟩), .compiled a)
    | .error e => (s.set k none, .compileErr e)
  | .clone k j =>
    match s.get j with
    | some c => (s.set k (some c), .cloned)
    | none => (s.set k none, .empty)
  | .drop k => (s.set k none, .dropped)
  | .search k j =>
    match s.get k with
    | none => (s, .empty)
    | some c => (s, .searched (search Registry.default fuel c.ast (docs.getD j .null)))

def histRun (fuel : Nat) (docs : List Val) : Slots → List HistOp → List HistOut
  | _, [] => []
  | s, op :: ops =>
    let (s', out) := histStep fuel docs s op
    out :: histRun fuel docs s' ops

end JmesVerif
