/-
A kernel-transparent model of IEEE-754 binary64 as the repository uses it.

Lean's builtin `Float` is opaque to the kernel, so no theorem may mention it.  Here a double is
`(-1)^neg · m · 2^e` (canonical: `m = 0 ∧ e = -1074`, or `m < 2^52 ∧ e = -1074` (subnormal), or
`2^52 ≤ m < 2^53 ∧ -1074 ≤ e ≤ 971`), or ±∞, or NaN.  Every arithmetic operation is
*exact rational arithmetic followed by one round-to-nearest-even* (`ofRat`), which is what IEEE-754
prescribes for `+ - * /`, integer→double conversion and correctly rounded decimal constants.
The model is validated against the hardware by the `f64ops` correspondence stream.
-/
namespace JmesVerif

inductive F64
  | fin (neg : Bool) (m : Nat) (e : Int)
  | inf (neg : Bool)
  | nan
  deriving DecidableEq, Repr, Inhabited

namespace F64

def pow2 (e : Int) : Rat :=
  if e ≥ 0 then ((2 ^ e.toNat : Nat) : Rat) else 1 / ((2 ^ (-e).toNat : Nat) : Rat)

/-- the real number a finite double denotes (0 for the non-finite ones; guarded where used) -/
def toRat : F64 → Rat
  | .fin neg m e => (if neg then -1 else 1) * (m : Rat) * pow2 e
  | _ => 0

def isFinite : F64 → Bool
  | .fin .. => true
  | _ => false

def isNaN : F64 → Bool
  | .nan => true
  | _ => false

def zero : F64 := .fin false 0 (-1074)
def negZero : F64 := .fin true 0 (-1074)

/-- ⌊log2 q⌋ for a positive rational -/
def ilog2 (q : Rat) : Int :=
  let n := q.num.toNat
  let d := q.den
  let k : Int := (Nat.log2 n : Int) - (Nat.log2 d : Int)
  -- 2^(k-1) < q < 2^(k+1); fix up
  if pow2 k ≤ q then k else k - 1

/-- round a non-negative rational to (m, e) in round-to-nearest, ties-to-even; `none` = overflow -/
def roundPos (q : Rat) : Option (Nat × Int) :=
  if q ≤ 0 then some (0, -1074) else
  let e0 : Int := ilog2 q - 52
  let e : Int := if e0 < -1074 then -1074 else e0
  let scaled : Rat := q / pow2 e
  let fl : Int := scaled.floor
  let rem : Rat := scaled - (fl : Rat)
  let half : Rat := 1 / 2
  let m : Int := if rem > half ∨ (rem = half ∧ fl % 2 = 1) then fl + 1 else fl
  let (m, e) := if m = 9007199254740992 then ((4503599627370496 : Int), e + 1) else (m, e)
  if e > 971 then none else some (m.toNat, e)

/-- the correctly rounded double nearest a rational (overflow → ±∞) -/
def ofRat (q : Rat) : F64 :=
  let neg := decide (q < 0)
  match roundPos (if q < 0 then -q else q) with
  | some (m, e) => .fin neg m e
  | none => .inf neg

/-- like `ofRat` but a zero result takes the given sign (IEEE sign rules for exact-zero results
differ per operation; callers pass the right one) -/
def ofRatSigned (neg : Bool) (q : Rat) : F64 :=
  match roundPos (if q < 0 then -q else q) with
  | some (0, _) => .fin neg 0 (-1074)
  | some (m, e) => .fin (decide (q < 0)) m e
  | none => .inf (decide (q < 0))

def ofInt (n : Int) : F64 := ofRat (n : Rat)
def ofNat (n : Nat) : F64 := ofRat (n : Rat)

def neg : F64 → F64
  | .fin s m e => .fin (!s) m e
  | .inf s => .inf (!s)
  | .nan => .nan

def abs : F64 → F64
  | .fin _ m e => .fin false m e
  | .inf _ => .inf false
  | .nan => .nan

def isNeg : F64 → Bool
  | .fin s _ _ => s
  | .inf s => s
  | .nan => false

def isZero : F64 → Bool
  | .fin _ 0 _ => true
  | _ => false

/-- `f64::is_normal`: neither zero, subnormal, infinite nor NaN -/
def isNormal : F64 → Bool
  | .fin _ m _ => decide (m ≥ 4503599627370496)
  | _ => false

def add (a b : F64) : F64 :=
  match a, b with
  | .nan, _ | _, .nan => .nan
  | .inf s, .inf t => if s = t then .inf s else .nan
  | .inf s, _ => .inf s
  | _, .inf t => .inf t
  | .fin s _ _, .fin t _ _ =>
    -- exact zero sum: +0 unless both operands are negative (round-to-nearest rule)
    ofRatSigned (s && t) (a.toRat + b.toRat)

def sub (a b : F64) : F64 := add a (neg b)

def mul (a b : F64) : F64 :=
  match a, b with
  | .nan, _ | _, .nan => .nan
  | .inf s, x => if x.isZero then .nan else .inf (s != x.isNeg)
  | x, .inf t => if x.isZero then .nan else .inf (x.isNeg != t)
  | .fin s _ _, .fin t _ _ => ofRatSigned (s != t) (a.toRat * b.toRat)

def div (a b : F64) : F64 :=
  match a, b with
  | .nan, _ | _, .nan => .nan
  | .inf _, .inf _ => .nan
  | .inf s, x => .inf (s != x.isNeg)
  | x, .inf t => .fin (x.isNeg != t) 0 (-1074)
  | .fin s _ _, .fin t _ _ =>
    if b.isZero then (if a.isZero then .nan else .inf (s != t))
    else ofRatSigned (s != t) (a.toRat / b.toRat)

/-- IEEE `==` (−0 == +0, NaN ≠ anything) -/
def feq (a b : F64) : Bool :=
  match a, b with
  | .nan, _ | _, .nan => false
  | .inf s, .inf t => s == t
  | .inf _, _ | _, .inf _ => false
  | _, _ => decide (a.toRat = b.toRat)

/-- IEEE `<` -/
def flt (a b : F64) : Bool :=
  match a, b with
  | .nan, _ | _, .nan => false
  | .inf s, .inf t => s && !t
  | .inf s, _ => s
  | _, .inf t => !t
  | _, _ => decide (a.toRat < b.toRat)

def fle (a b : F64) : Bool := flt a b || feq a b

def floor : F64 → F64
  | .fin s m e =>
    let q := (F64.fin s m e).toRat
    ofRatSigned s (q.floor : Rat)
  | x => x

def ceil : F64 → F64
  | .fin s m e =>
    let q := (F64.fin s m e).toRat
    ofRatSigned s (-((-q).floor) : Int)
  | x => x

/-- `f64::min` (a NaN operand yields the other one) -/
def fmin (a b : F64) : F64 :=
  match a, b with
  | .nan, b => b
  | a, .nan => a
  | a, b => if flt b a then b else a

/-- `f64::MAX` -/
def maxVal : F64 := .fin false 9007199254740991 971

/-- `f64::EPSILON` = 2^-52 -/
def epsilon : F64 := .fin false 4503599627370496 (-104)
/-- `f64::MIN_POSITIVE` = 2^-1022 -/
def minPositive : F64 := .fin false 4503599627370496 (-1074)

/-! ### bit patterns (protocol boundary only) -/

def toBits : F64 → Nat
  | .fin s m e =>
    let sign := if s then 2 ^ 63 else 0
    if m < 4503599627370496 then sign + m
    else sign + ((e + 1075).toNat) * 4503599627370496 + (m - 4503599627370496)
  | .inf s => (if s then 2 ^ 63 else 0) + 2047 * 4503599627370496
  | .nan => 2047 * 4503599627370496 + 2251799813685248

def ofBits (b : Nat) : F64 :=
  let s := decide (b / 2 ^ 63 % 2 = 1)
  let ex := b / 4503599627370496 % 2048
  let fr := b % 4503599627370496
  if ex = 2047 then (if fr = 0 then .inf s else .nan)
  else if ex = 0 then .fin s fr (-1074)
  else .fin s (fr + 4503599627370496) ((ex : Int) - 1075)

end F64
end JmesVerif
