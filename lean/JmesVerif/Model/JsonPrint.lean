import JmesVerif.Model.Value
/-
Model of JSON *output*: `serde_json::to_string` / `to_writer_pretty` on a `Variable`
(variable.rs:928-944 drives serde_json's serializer).  serde_json's code, modelled not verified:
string escaping, integer spelling, and the shortest-round-trip double printer (zmij) with its
format (plain decimals for 1e-5 ≤ |x| < 1e16 with a forced ".0", otherwise `d.ddde±N`).
Expression references serialise as a string holding Rust's `{:?}` of the tree; that text is not
modelled (`<expression>` placeholder) and generators keep exprefs out of printed values.
-/
namespace JmesVerif
namespace JsonPrint

def hexDigit (n : Nat) : Char := if n < 10 then Char.ofNat (48 + n) else Char.ofNat (87 + n)

def escapeChar (c : Char) : List Char :=
  if c = '"' then ['\\', '"']
  else if c = '\\' then ['\\', '\\']
  else if c.toNat = 8 then ['\\', 'b']
  else if c.toNat = 12 then ['\\', 'f']
  else if c = '\n' then ['\\', 'n']
  else if c = '\r' then ['\\', 'r']
  else if c = '\t' then ['\\', 't']
  else if c.toNat < 0x20 then ['\\', 'u', '0', '0', hexDigit (c.toNat / 16), hexDigit (c.toNat % 16)]
  else [c]

def quote (s : String) : String := String.ofList ('"' :: (s.toList.flatMap escapeChar ++ ['"']))

def pow10 (e : Int) : Rat :=
  if e ≥ 0 then ((10 ^ e.toNat : Nat) : Rat) else 1 / ((10 ^ (-e).toNat : Nat) : Rat)

/-- ⌊log10 q⌋ for positive q -/
def ilog10 (q : Rat) : Int :=
  -- estimate from the binary logarithm, then correct
  let est : Int := (F64.ilog2 q * 30103) / 100000
  let rec up (fuel : Nat) (e : Int) : Int :=
    match fuel with
    | 0 => e
    | fuel + 1 => if pow10 (e + 1) ≤ q then up fuel (e + 1) else e
  let rec down (fuel : Nat) (e : Int) : Int :=
    match fuel with
    | 0 => e
    | fuel + 1 => if q < pow10 e then down fuel (e - 1) else e
  up 8 (down 8 est)

def natDigits (n : Nat) : List Char := (toString n).toList

def stripTrailingZeros (ds : List Char) : List Char :=
  (ds.reverse.dropWhile (· = '0')).reverse

/-- shortest decimal digit string (no trailing zeros) and scientific exponent that round-trips
to the double `f` (positive, finite, non-zero) -/
def shortest (f : F64) : List Char × Int :=
  let q := f.toRat
  let e10 := ilog10 q
  let rec go (fuel : Nat) (p : Nat) : List Char × Int :=
    match fuel with
    | 0 => (natDigits 0, 0)
    | fuel + 1 =>
      let scale := pow10 ((p : Int) - 1 - e10)
      let s := q * scale
      let lo : Int := s.floor
      let hi : Int := lo + 1
      let okLo := F64.ofRat ((lo : Rat) / scale) == f
      let okHi := F64.ofRat ((hi : Rat) / scale) == f
      let dLo := s - (lo : Rat)
      let dHi := (hi : Rat) - s
      let pick : Option Int :=
        if okLo && okHi then
          (if dLo < dHi then some lo else if dHi < dLo then some hi else if lo % 2 = 0 then some lo else some hi)
        else if okLo then some lo else if okHi then some hi else none
      match pick with
      | some d =>
        -- d may be 10^p (carry): then the digits are "1" and the exponent grows by one
        if d.toNat = 10 ^ p then (['1'], e10 + 1) else (stripTrailingZeros (natDigits d.toNat), e10)
      | none => go fuel (p + 1)
  go 17 1

def zeros (n : Nat) : List Char := List.replicate n '0'

/-- the text serde_json prints for a finite double -/
def floatText (f : F64) : String :=
  match f with
  | .fin s 0 _ => if s then "-0.0" else "0.0"
  | .fin s m e =>
    let (ds, ex) := shortest (.fin false m e)
    let body : List Char :=
      if -5 ≤ ex ∧ ex < 16 then
        if ex ≥ 0 then
          let k := ex.toNat + 1
          if ds.length ≤ k then ds ++ zeros (k - ds.length) ++ ['.', '0']
          else ds.take k ++ ['.'] ++ ds.drop k
        else ['0', '.'] ++ zeros ((-ex).toNat - 1) ++ ds
      else
        let mant := match ds with
          | [d] => [d]
          | d :: rest => d :: '.' :: rest
          | [] => ['0']
        mant ++ ['e'] ++ (if ex < 0 then ['-'] else ['+']) ++ natDigits ex.natAbs
    String.ofList ((if s then ['-'] else []) ++ body)
  | _ => "null"

def numText : Num → String
  | .pos n => toString n
  | .neg i => toString i
  | .flt f => floatText f

mutual
/-- `serde_json::to_string(&variable)` -/
def compact : Val → String
  | .null => "null"
  | .bool true => "true"
  | .bool false => "false"
  | .num n => numText n
  | .str s => quote s
  | .arr xs => "[" ++ compactElems xs ++ "]"
  | .obj kvs => "{" ++ compactMembers kvs ++ "}"
  | .expref _ => quote "<expression>"
def compactElems : List Val → String
  | [] => ""
  | [v] => compact v
  | v :: vs => compact v ++ "," ++ compactElems vs
def compactMembers : List (String × Val) → String
  | [] => ""
  | [(k, v)] => quote k ++ ":" ++ compact v
  | (k, v) :: r => quote k ++ ":" ++ compact v ++ "," ++ compactMembers r
end

def indent (n : Nat) : String := String.ofList (List.replicate (2 * n) ' ')

mutual
/-- `serde_json::to_writer_pretty` (two-space indent) -/
def pretty (lvl : Nat) : Val → String
  | .arr [] => "[]"
  | .obj [] => "{}"
  | .arr xs => "[\n" ++ prettyElems (lvl + 1) xs ++ "\n" ++ indent lvl ++ "]"
  | .obj kvs => "{\n" ++ prettyMembers (lvl + 1) kvs ++ "\n" ++ indent lvl ++ "}"
  | .null => "null"
  | .bool true => "true"
  | .bool false => "false"
  | .num n => numText n
  | .str s => quote s
  | .expref _ => quote "<expression>"
def prettyElems (lvl : Nat) : List Val → String
  | [] => ""
  | [v] => indent lvl ++ pretty lvl v
  | v :: vs => indent lvl ++ pretty lvl v ++ ",\n" ++ prettyElems lvl vs
def prettyMembers (lvl : Nat) : List (String × Val) → String
  | [] => ""
  | [(k, v)] => indent lvl ++ quote k ++ ": " ++ pretty lvl v
  | (k, v) :: r => indent lvl ++ quote k ++ ": " ++ pretty lvl v ++ ",\n" ++ prettyMembers lvl r
end

end JsonPrint
end JmesVerif
