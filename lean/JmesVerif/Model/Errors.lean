import JmesVerif.Model.Lexer
/-
Model of `errors.rs`: `JmespathError::new` (line / column from a byte offset, lines 25-45) and
`impl Display for JmespathError` (lines 69-100: the expression with a caret line inserted).
-/
namespace JmesVerif
namespace Errors

/-- the loop of `JmespathError::new`: walk the characters that start before byte `offset`
(`char_indices().take_while(|(i, _)| i < offset)`), counting lines and the column -/
def lineColLoop : List Char → Nat → Nat → Nat → Nat → Nat × Nat
  | [], _, _, line, col => (line, col)
  | c :: cs, pos, offset, line, col =>
    if pos < offset then
      if c = '\n' then lineColLoop cs (pos + c.utf8Size) offset (line + 1) 0
      else lineColLoop cs (pos + c.utf8Size) offset line (col + 1)
    else (line, col)

def lineCol (expr : List Char) (offset : Nat) : Nat × Nat := lineColLoop expr 0 offset 0 0

/-- `inject_carat(column, buff)` -/
def caret (column : Nat) : List Char := List.replicate column ' ' ++ ['^', '\n']

/-- the `for c in self.expression.chars()` loop of `Display`: returns the text built and whether
the caret has been placed -/
def locLoop (line column : Nat) : List Char → Nat → Bool → List Char × Bool
  | [], _, matched => ([], matched)
  | c :: cs, cur, matched =>
    if c = '\n' then
      if cur + 1 = line + 1 then
        let (rest, m) := locLoop line column cs (cur + 1) true
        (c :: (caret column ++ rest), m)
      else
        let (rest, m) := locLoop line column cs (cur + 1) matched
        (c :: rest, m)
    else
      let (rest, m) := locLoop line column cs cur matched
      (c :: rest, m)

/-- `error_location` -/
def errorLocation (expr : List Char) (line column : Nat) : List Char :=
  let (body, matched) := locLoop line column expr 0 false
  if matched then body else body ++ '\n' :: caret column

/-- `"{reason} (line {l}, column {c})\n{error_location}"` -/
def render (reason : String) (expr : List Char) (line column : Nat) : String :=
  reason ++ " (line " ++ toString line ++ ", column " ++ toString column ++ ")\n" ++
    String.ofList (errorLocation expr line column)

end Errors

/-! ### specification: what "line" and "column" of a byte offset mean -/
namespace Spec

/-- the characters that start strictly before byte `offset` -/
def charsBefore : List Char → Nat → Nat → List Char
  | [], _, _ => []
  | c :: cs, pos, offset => if pos < offset then c :: charsBefore cs (pos + c.utf8Size) offset else []

/-- zero-based line: the number of newlines before the offset -/
def lineOf (pre : List Char) : Nat := (pre.filter (· = '\n')).length

/-- zero-based character column: the number of characters since the last newline -/
def colOf (pre : List Char) : Nat := (pre.reverse.takeWhile (· ≠ '\n')).length

end Spec
end JmesVerif
