/-
Model of `variable.rs`: `slice`, `adjust_slice_endpoint`, `get_index`, `get_negative_index`
(lines 361-383 and 453-502), on plain lists.  Integers are unbounded `Int`s; every place where
the Rust code does `i32` arithmetic that can leave the `i32` range is made explicit
(`addI32`), and every indexing `array[i as usize]` is a checked lookup, so that a panic of the
real code is a `Fault` of the model and never a silently totalised value.
-/
namespace JmesVerif

def I32_MAX : Int := 2147483647
def I32_MIN : Int := -2147483648

inductive Fault
  | overflow      -- i32 arithmetic left the i32 range (debug: panic; release: wrap, then out of bounds)
  | outOfBounds   -- `array[i as usize]` with i outside 0..len
  | fuel          -- the loop did not finish within the fuel given (would be a hang)
  deriving DecidableEq, Repr

/-- `adjust_slice_endpoint(len, endpoint, step)`, variable.rs:485-502. -/
def adjustEndpoint (len endpoint step : Int) : Int :=
  if endpoint < 0 then
    let e := endpoint + len
    if e ≥ 0 then e else if step < 0 then -1 else 0
  else if endpoint < len then endpoint
  else if step < 0 then len - 1 else len

/-- `i += step` as the code performs it: `i.saturating_add(step)` (variable.rs, slice loops). -/
def addI32 (i step : Int) : Int :=
  if i + step > I32_MAX then I32_MAX else if i + step < I32_MIN then I32_MIN else i + step

/-- `while i < b { push(array[i]); i += step }` (step > 0). -/
def loopUp (xs : List α) (b step : Int) : Nat → Int → Except Fault (List α)
  | 0, _ => .error .fuel
  | fuel + 1, i =>
    if i < b then
      if i < 0 then .error .outOfBounds else
      match xs[i.toNat]? with
      | none => .error .outOfBounds
      | some x =>
        match loopUp xs b step fuel (addI32 i step) with
        | .ok r => .ok (x :: r)
        | .error e => .error e
    else .ok []

/-- `while i > b { push(array[i]); i += step }` (step < 0). -/
def loopDown (xs : List α) (b step : Int) : Nat → Int → Except Fault (List α)
  | 0, _ => .error .fuel
  | fuel + 1, i =>
    if i > b then
      if i < 0 then .error .outOfBounds else
      match xs[i.toNat]? with
      | none => .error .outOfBounds
      | some x =>
        match loopDown xs b step fuel (addI32 i step) with
        | .ok r => .ok (x :: r)
        | .error e => .error e
    else .ok []

/-- `let a = match start { Some(i) => adjust(len, i, step), _ if step < 0 => len - 1, _ => 0 }` -/
def sliceA (len : Int) (start : Option Int) (step : Int) : Int :=
  match start with
  | some s => adjustEndpoint len s step
  | none => if step < 0 then len - 1 else 0

/-- `let b = match stop { Some(i) => adjust(len, i, step), _ if step < 0 => -1, _ => len }` -/
def sliceB (len : Int) (stop : Option Int) (step : Int) : Int :=
  match stop with
  | some s => adjustEndpoint len s step
  | none => if step < 0 then -1 else len

/-- `fn slice(array, start, stop, step)`, variable.rs:453-482.  The caller (interpreter.rs:173)
guarantees `step ≠ 0`; with `step = 0` the Rust loop `while i > b` would run with `i` constant,
which the model reports as `Fault.fuel` when it is not empty. -/
def sliceList (xs : List α) (start stop : Option Int) (step : Int) : Except Fault (List α) :=
  let len : Int := xs.length
  if len = 0 then .ok [] else
  if step > 0 then loopUp xs (sliceB len stop step) step (xs.length + 1) (sliceA len start step)
  else loopDown xs (sliceB len stop step) step (xs.length + 1) (sliceA len start step)

/-- `get_index` on an array (variable.rs:361-368); `none` is the Null result. -/
def getIndex (xs : List α) (i : Nat) : Option α := xs[i]?

/-- `get_negative_index(index)` on an array (variable.rs:375-383), called with `index = -idx`. -/
def getNegIndex (xs : List α) (index : Nat) : Option α :=
  let adj := max index 1
  if xs.length ≥ adj then xs[xs.length - adj]? else none

/-- interpreter.rs:25-31, `Ast::Index` on an array. -/
def indexList (xs : List α) (idx : Int) : Option α :=
  if idx ≥ 0 then getIndex xs idx.toNat else getNegIndex xs (-idx).toNat

end JmesVerif
